#!/bin/bash
# Coverage-guided campaign (libFuzzer via cargo-fuzz) that belongs to a property's thorough tier.
#   tools/fuzz.sh <ID> <target> <runs-per-job> <max_len> [jobs]
#   tools/fuzz.sh <ID> <target> --replay <file>
# exit 0 no crash; 1 VIOLATION (crash artifact = replay file); 2 harness error / inconclusive (timeout, oom)
set -u
VERIF_DIR="$(cd "$(dirname "$0")/.." && pwd)"
ID="$1"; TARGET="$2"
export CARGO_NET_OFFLINE=true
BIN="$VERIF_DIR/target/x86_64-unknown-linux-gnu/release/$TARGET"
cd "$VERIF_DIR/harness" || exit 2
if ! RUSTFLAGS="--cfg pdf_verif" cargo +nightly fuzz build "$TARGET" >"$VERIF_DIR/harness/fuzz-build.log" 2>&1; then
    echo "HARNESS-ERROR: fuzz build failed (see harness/fuzz-build.log)"
    grep -E "^error" -A8 "$VERIF_DIR/harness/fuzz-build.log" | head -40
    exit 2
fi
if [ "${3:-}" = "--replay" ]; then
    out=$("$BIN" "$4" 2>&1); code=$?
    echo "$out" | grep -v "^INFO\|^Running\|^Executed\|^    #\|^SUMMARY\|^MS:\|^$\|^NOTE\|Combine libFuzzer" | head -12
    if [ $code -ne 0 ]; then
        echo "VIOLATION property=$ID replay=$4"
        exit 1
    fi
    exit 0
fi
RUNS="$3"; MAXLEN="$4"; JOBS="${5:-8}"
SEED="${VERIF_SEED:-1}"
W="$VERIF_DIR/work/fuzz/$TARGET"
rm -rf "$W"; mkdir -p "$W/corpus" "$W/seeds" "$W/art"
case "$TARGET" in
    open_walk)
        for f in "$VERIF_DIR"/corpus/files/*.pdf; do
            [ "$(stat -c %s "$f")" -lt 150000 ] && cp "$f" "$W/seeds/"
        done
        for k in $(seq 1 24); do "$VERIF_DIR/target/release/vh" gendoc "$k" "$W/seeds/gen_$k.pdf" >/dev/null 2>&1; done
        ;;
    parse_roundtrip)
        printf '<< /Type /Page /A [1 2.5 (str\\)) <00ff> /N#20m true null] >>' > "$W/seeds/a"
        printf '[ (a\\\n b) -0.5 +3 .25 ]' > "$W/seeds/b"
        ;;
    content_roundtrip)
        printf 'q 1 0 0 1 10 10 cm 0 0 m 10 10 l S Q BT /F1 12 Tf (x) Tj [(a) -2 (b)] TJ ET /Im1 Do /GS gs 1 0 0 rg /P1 scn BI /W 1 /H 1 /BPC 8 /CS /G ID a EI' > "$W/seeds/a"
        printf '/Span <</MCID 0>> BDC 0 0 10 10 re f* EMC 0.5 w [3 1] 0 d 2 J /CS1 cs 1 0 0 1 K T* (a) Tj' > "$W/seeds/b"
        ;;
    filters)
        python3 -c "
import sys
for k in range(8):
    open('$W/seeds/s%d' % k, 'wb').write(bytes([k, 1, 2, 3, 4]) + bytes((i * 37 + k) % 256 for i in range(200)))
"
        ;;
esac
cd "$W" || exit 2
"$BIN" corpus seeds -runs="$RUNS" -seed="$SEED" -max_len="$MAXLEN" -timeout=30 -rss_limit_mb=6000 -len_control=0 -detect_leaks=0 \
    -artifact_prefix="$W/art/" -jobs="$JOBS" -workers="$JOBS" >"$W/campaign.out" 2>&1
done_lines=$(grep -h "DONE" "$W"/fuzz-*.log 2>/dev/null)
execs=$(echo "$done_lines" | sed -E 's/^#([0-9]+).*/\1/' | awk '{s+=$1} END {print s+0}')
cov=$(echo "$done_lines" | sed -E 's/.*cov: ([0-9]+).*/\1/' | sort -n | tail -1)
corp=$(ls "$W/corpus" | wc -l)
crashes=$(ls "$W/art" 2>/dev/null | grep -c '^crash-')
slow=$(ls "$W/art" 2>/dev/null | grep -c -E '^(timeout|oom)-')
EV="$VERIF_DIR/evidence/$ID.json"
if [ -f "$EV" ]; then
    python3 - "$EV" "$TARGET" "$JOBS" "$RUNS" "${execs:-0}" "${cov:-0}" "$corp" "$crashes" "$slow" "$SEED" <<'PY'
import json, sys
p, target, jobs, runs, execs, cov, corp, crashes, slow, seed = sys.argv[1:]
e = json.load(open(p))
e["coverage"].setdefault("fuzz_campaigns", []).append({"engine": "libFuzzer (cargo-fuzz, address sanitizer, debug assertions)", "target": target, "jobs": int(jobs), "runs_per_job": int(runs), "executions": int(execs), "edge_coverage": int(cov), "corpus_files": int(corp), "crash_artifacts": int(crashes), "timeout_or_oom_artifacts": int(slow), "seed": int(seed), "start_corpus": "small valid inputs (see tools/fuzz.sh) in a fresh corpus directory"})
e["coverage"]["evaluations"] = e["coverage"].get("evaluations", 0) + int(execs)
json.dump(e, open(p, "w"), indent=2)
PY
fi
echo "fuzz target=$TARGET property=$ID executions=${execs:-0} edge_coverage=${cov:-0} corpus=$corp crashes=$crashes timeouts_or_oom=$slow"
if [ "$crashes" -gt 0 ]; then
    mkdir -p "$VERIF_DIR/replays/$ID"
    for a in "$W"/art/crash-*; do
        dst="$VERIF_DIR/replays/$ID/fuzz-$TARGET-$(basename "$a" | cut -c7-22).bin"
        cp "$a" "$dst"
        echo "VIOLATION property=$ID replay=$dst"
        "$BIN" "$a" 2>&1 | grep -v "^INFO\|^Running\|^Executed\|^    #\|^SUMMARY\|^MS:\|^$\|^NOTE\|Combine libFuzzer\|^==" | head -3 | cut -c1-400
    done
    exit 1
fi
if [ "$slow" -gt 0 ]; then
    echo "HARNESS-ERROR: libFuzzer reported $slow timeout/oom artifact(s) under $W/art (inconclusive: the isolated-walk oracle of the main check decides hangs and allocation)"
    exit 2
fi
exit 0
