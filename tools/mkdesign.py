#!/usr/bin/env python3
"""Regenerate section 7 of DESIGN.md from tools/design7.template.md, known_findings.json and seeded/*/meta.json."""
import json, os, re, subprocess
HERE = os.path.dirname(os.path.abspath(__file__))
ROOT = os.path.dirname(HERE)
tpl = open(os.path.join(HERE, "design7.template.md")).read()
kf = json.load(open(os.path.join(ROOT, "known_findings.json")))
fixed = "\n".join("* `" + l.split(" ", 3)[1].replace("property=", "") + "` `" + l.split(" ", 3)[2] + "` " + l.split(" ", 3)[3] for l in kf["fixed_lines"])
rows = []
for f in kf["findings"]:
    if f["status"] != "open":
        continue
    what = f["what"]
    why = ""
    for marker in ["; a repair needs", "; repairing it", ": deep_clone_op", ": the Resources model"]:
        if marker in what:
            i = what.index(marker)
            what, why = what[:i], what[i + 2:]
            break
    rows.append(f"| {f['property']} | `{f['key']}` | {what} | {why or 'needs new public API / writers that do not exist (see the neighbouring entry)'} |")
seeded = subprocess.check_output(["python3", os.path.join(HERE, "mktable.py")], text=True)
sec = tpl.replace("@@FIXED@@", fixed).replace("@@OPEN@@", "\n".join(rows)).replace("@@SEEDED@@", seeded)
p = os.path.join(ROOT, "DESIGN.md")
s = open(p).read()
a = s.index("## 7. Log of check corrections, fixes and sensitivity results")
b = s.index("## 8. Build order and priorities")
s = s[:a] + sec.rstrip() + "\n\n--------------------------------------------------------------------------------------------------\n\n" + s[b:]
open(p, "w").write(s)
print("DESIGN.md section 7 regenerated:", len(sec.splitlines()), "lines")
