#!/bin/bash
# Run every check once (quick tier by default) and print one summary line per property.
# usage: tools/runall.sh [quick|thorough] [seed]
cd "$(dirname "$0")/.."
TIER=${1:-quick}; export VERIF_SEED=${2:-1}
./check --setup >/dev/null 2>&1 || { echo "setup failed"; exit 2; }
rc=0
for id in C01 C02 C03 C04 C05 C06 C07 C08 C09 C10 C11 C12 C13 C14 C15 C16 C17 C18 C19 C20; do
  out=$(./check $id $TIER 2>&1); code=$?
  echo "$id exit=$code $(echo "$out" | grep '^property=' | tail -1)"
  echo "$out" | grep -E '^(VIOLATION|KNOWN-FINDING|HARNESS-ERROR)' | cut -c1-300
  [ $code -ne 0 ] && rc=1
done
exit $rc
