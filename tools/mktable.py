#!/usr/bin/env python3
"""Print the seeded-change table (markdown) from /verif/seeded/*/meta.json and notes."""
import json, glob, os, re
rows = []
for d in sorted(glob.glob(os.path.join(os.path.dirname(__file__), "..", "seeded", "*", "meta.json"))):
    m = json.load(open(d))
    name = os.path.basename(os.path.dirname(d))
    patch = open(os.path.join(os.path.dirname(d), "patch.diff")).read()
    files = sorted(set(re.findall(r"^\+\+\+ b/(\S+)", patch, re.M)))
    notes = ""
    np = os.path.join(os.path.dirname(d), "notes.md")
    if os.path.exists(np):
        for line in open(np):
            line = line.strip()
            if line and not line.startswith("#"):
                notes = line[:150]
                break
    cells = []
    for cid, r in sorted(m.get("checks", {}).items()):
        key = ""
        for det in r.get("detail", []):
            mm = re.search(r"key=(\S+)", det)
            if mm:
                key = mm.group(1)
                break
        cells.append(f"{cid}: {'DETECTED' if r.get('detected') else 'missed'}" + (f" (`{key[:70]}`)" if key else ""))
    rows.append((name, ", ".join(files), notes, "; ".join(cells), m.get("note", "")))
print("| seeded change | files | what it does (first line of the author's notes) | checks run and result | remark |")
print("|---|---|---|---|---|")
for r in rows:
    print("| " + " | ".join(x.replace("|", "\\|") for x in r) + " |")
