#!/usr/bin/env python3
"""Confirm a seeded change and run the checks against it.

  seed.py import <ID> <k>      copy /tmp/seed/<ID>/mut<k> to /verif/seeded/<ID>-m<k>
  seed.py confirm <name>       in a scratch worktree: demo passes on the clean tree, fails with the patch,
                               the repository suite still passes with the patch
  seed.py run <name> [ID...]   apply the patch to /repo, run ./check <ID> quick (default: the property it breaks),
                               undo the patch; records the outcome in meta.json
"""
import json, os, subprocess, sys, shutil, time

VERIF = os.path.dirname(os.path.dirname(os.path.abspath(__file__)))
WT = "/tmp/confirm_wt"
ENV = dict(os.environ, CARGO_NET_OFFLINE="true", CARGO_TARGET_DIR=WT + "_target")


def sh(cmd, cwd=None, env=None, timeout=3600):
    p = subprocess.run(cmd, shell=True, cwd=cwd, env=env or os.environ, stdout=subprocess.PIPE, stderr=subprocess.STDOUT, text=True, timeout=timeout)
    return p.returncode, p.stdout


def meta_path(name):
    return os.path.join(VERIF, "seeded", name, "meta.json")


def load_meta(name):
    try:
        return json.load(open(meta_path(name)))
    except Exception:
        return {}


def save_meta(name, m):
    json.dump(m, open(meta_path(name), "w"), indent=1)


def cmd_import(pid, k):
    src = f"/tmp/seed/{pid}/mut{k}"
    name = f"{pid}-m{k}"
    dst = os.path.join(VERIF, "seeded", name)
    os.makedirs(dst, exist_ok=True)
    for f in ("patch.diff", "demo.rs", "notes.md"):
        if os.path.exists(os.path.join(src, f)):
            shutil.copy(os.path.join(src, f), os.path.join(dst, f))
    m = load_meta(name)
    m.setdefault("property", pid)
    m.setdefault("source", "independent sub-agent given only the property text and a scratch worktree")
    save_meta(name, m)
    print("imported", name)


def ensure_wt():
    if not os.path.isdir(WT):
        rc, out = sh(f"git -C /repo worktree add --detach {WT} HEAD")
        if rc != 0:
            print(out)
            sys.exit(2)
    else:
        sh("git checkout -q --detach $(git -C /repo rev-parse HEAD) && git checkout -- . && git clean -fdq pdf/tests", cwd=WT)


def cmd_confirm(name):
    d = os.path.join(VERIF, "seeded", name)
    ensure_wt()
    m = load_meta(name)
    demo = os.path.join(d, "demo.rs")
    shutil.copy(demo, os.path.join(WT, "pdf/tests/seed_demo.rs"))
    rc_clean, out_clean = sh("cargo test -p pdf --test seed_demo --offline 2>&1 | tail -15", cwd=WT, env=ENV)
    clean_ok = "test result: ok" in out_clean
    rc, out = sh(f"git apply {d}/patch.diff", cwd=WT)
    if rc != 0:
        rc, out = sh(f"git apply -C1 --recount {d}/patch.diff", cwd=WT)
    if rc != 0:
        print("patch does not apply:", out)
        m["confirmed"] = False
        m["confirm_note"] = "patch does not apply to current HEAD"
        save_meta(name, m)
        return
    rc_mut, out_mut = sh("cargo test -p pdf --test seed_demo --offline 2>&1 | tail -25", cwd=WT, env=ENV)
    mut_fails = "test result: FAILED" in out_mut or "panicked" in out_mut
    os.remove(os.path.join(WT, "pdf/tests/seed_demo.rs"))
    rc_suite, out_suite = sh("cargo test --workspace --no-fail-fast --offline 2>&1 | grep -E '^test result|FAILED|^error' ", cwd=WT, env=ENV)
    suite_ok = "FAILED" not in out_suite and "error" not in out_suite and "test result: ok. 26 passed" in out_suite and "test result: ok. 6 passed" in out_suite
    sh("git checkout -- . && git clean -fdq pdf/tests", cwd=WT)
    m["confirmed"] = bool(clean_ok and mut_fails and suite_ok)
    m["confirm"] = {
        "repo_head": subprocess.check_output(["git", "-C", "/repo", "rev-parse", "--short", "HEAD"], text=True).strip(),
        "demo_passes_on_clean_tree": clean_ok,
        "demo_fails_with_patch": mut_fails,
        "existing_suite_passes_with_patch": suite_ok,
        "ran": ["cargo test -p pdf --test seed_demo --offline (clean, then with patch applied)", "cargo test --workspace --no-fail-fast --offline (with patch)"],
    }
    save_meta(name, m)
    print(name, "confirmed" if m["confirmed"] else "NOT confirmed", m["confirm"])
    if not m["confirmed"]:
        print(out_clean[-800:], "\n----\n", out_mut[-800:], "\n----\n", out_suite[-600:])


def cmd_run(name, ids):
    d = os.path.join(VERIF, "seeded", name)
    m = load_meta(name)
    ids = ids or [m.get("property")]
    rc, out = sh("git -C /repo status --porcelain")
    if out.strip():
        print("refusing: /repo has uncommitted changes:\n", out)
        sys.exit(2)
    rc, out = sh(f"git -C /repo apply {d}/patch.diff")
    if rc != 0:
        # later fix commits moved the surrounding lines: retry with one line of context (same change, same place)
        rc, out = sh(f"git -C /repo apply -C1 --recount {d}/patch.diff")
        if rc != 0:
            print("patch does not apply to /repo:", out)
            m["apply_note"] = "patch no longer applies to /repo HEAD " + subprocess.check_output(["git", "-C", "/repo", "rev-parse", "--short", "HEAD"], text=True).strip()
            save_meta(name, m)
            sys.exit(2)
        m["apply_note"] = "applied with reduced context (-C1) after later fix commits shifted the surrounding lines"
    results = m.setdefault("checks", {})
    repo_head = subprocess.check_output(["git", "-C", "/repo", "rev-parse", "--short", "HEAD"], text=True).strip()
    try:
        for pid in ids:
            t0 = time.time()
            rc, out = sh(f"./check {pid} quick", cwd=VERIF, env=dict(os.environ, VERIF_SEED=os.environ.get("VERIF_SEED", "1")))
            viol = [l for l in out.splitlines() if l.startswith("VIOLATION")]
            detail = [l.strip()[:300] for l in out.splitlines() if l.strip().startswith("check=")][:3]
            results[pid] = {"exit": rc, "violation_lines": len(viol), "detected": rc == 1 and len(viol) > 0, "detail": detail, "wall_s": round(time.time() - t0, 1),
                            "at_verif_commit": subprocess.check_output(["git", "-C", VERIF, "rev-parse", "--short", "HEAD"], text=True).strip(), "at_repo_commit": repo_head}
            print(name, pid, "DETECTED" if results[pid]["detected"] else f"missed (exit {rc})", detail[:1])
    finally:
        sh("git -C /repo checkout -- .")
    save_meta(name, m)


if __name__ == "__main__":
    a = sys.argv[1:]
    if not a:
        print(__doc__)
    elif a[0] == "import":
        cmd_import(a[1], a[2])
    elif a[0] == "confirm":
        cmd_confirm(a[1])
    elif a[0] == "run":
        cmd_run(a[1], a[2:])
    elif a[0] == "cleanup":
        sh(f"git -C /repo worktree remove --force {WT}")
        shutil.rmtree(WT + "_target", ignore_errors=True)
        print("removed", WT)
