#!/usr/bin/env python3
"""Regenerates /verif/known_findings.json.  FIXED: (property, key, grep for the fix commit subject, what failed).
OPEN: (property, key, what) - genuine defects recorded rather than repaired."""
import json, os, subprocess
HERE = os.path.dirname(os.path.dirname(os.path.abspath(__file__)))

FIXED = [
 ("C16", "c16:LZWDecode:*", "LZW filter must use 8-bit symbols", "LZW encoder output (weezl size 9) rejected by every standard LZW decoder; input [0] encodes to 80 03 f8 04"),
 ("C05", "c05:LZWDecode:*", "LZW filter must use 8-bit symbols", "the specification's LZW example 80 0B 60 50 22 0C 0C 85 01 and all standard LZW data failed to decode"),
 ("C16", "c16:FlateDecode:*", "Flate encoder must finish the stream", "Flate encoder returned [] for every input (never finished) and used raw deflate; input [0]"),
 ("C03", "c03:*:str-ignored-backslash", "a backslash before a non-escape character", "(a\\qb) read as a\\0qb: NUL emitted for an ignored backslash"),
 ("C03", "c03:*:name-hash-optional (dictionary key)", "decode #xx escapes in dictionary keys", "<</A#42 1>> kept the key A#42; /#4Cength not recognised as Length"),
 ("C03", "c03:*:int-plus-sign / real-plus-sign", "numbers may carry a leading plus sign", "+17 and +.5 rejected as unknown tokens"),
 ("C03", "c03:*:ws-ff", "FORM FEED is a white-space character", "[1\\f2] lexed as a single token"),
 ("C03", "c03:*:comment-cr", "a comment ends at CARRIAGE RETURN", "%c\\r swallowed everything up to the next LF"),
 ("C03", "c03:*:ws-nul in hex string", "NUL is white-space inside hexadecimal strings", "<41\\0 42> rejected with HexDecode"),
 ("C03", "c03:*:ends-at-end-of-buffer", "an integer at the end of the input is an integer", "parse(b\"42\") and the last integer of a sequence / object-stream member returned EOF"),
 ("C11", "c11:*:integer-member", "an integer at the end of the input is an integer", "integer members of object streams unreadable (member slices end at the token)"),
 ("C03", "c03:indirect:*:comment-before-stream", "skip comments between a stream dictionary and the stream keyword", "<<..>>%c\\nstream: 'invalid whitespace'"),
 ("C03", "c03:*:str-raw-cr-as-lf / str-raw-crlf-as-lf", "an unescaped end-of-line inside a literal string reads as LF", "raw CR / CR LF inside ( ) returned unchanged instead of LF"),
 ("C03", "c03:*:str-line-continuation + raw CR", "a line continuation ending in LF does not swallow", "(\\<LF><CR>) read as empty string: LF CR treated as one end-of-line"),
 ("C04", "panic:pdf/src/primitive.rs:pdf::primitive::serialize_name:only ASCII", "write names and dictionary keys with #xx escapes", "Name(\"é\") panicked in serialize_name; /a b, /a/b, /a(b written raw; keys written unescaped"),
 ("C04", "c04:indirect:parse-error (endobj)", "separate an object's value from the endobj keyword", "save wrote 7endobj / nullendobj"),
 ("C04", "c04:*:parse-error (integer overflow)", "integer tokens beyond the i32 range are read as reals", "Number(-2.1e26) written as -210026940000000000000000000 failed with ParseIntError"),
 ("C04", "c04:*:value-differs (real >= 2^24)", "write integral reals of 2^24 and above with a fraction part", "Number(2147483648.0) written as 2147483600 and read back as Integer(2147483600)"),
 ("C02", "c02:older-or-wrong-value (newest entry compressed)", "an older cross-reference entry must not replace a newer compressed one", "newest section stores obj n in an object stream, older section has it direct: resolve(n) returned the old value"),
 ("C11", "c11:stream-error:ref-to-compressed-int", "the expected-type flags of a resolve do not apply", "/Length n 0 R with n stored in an object stream: PrimitiveNotAllowed"),
 ("C05", "c05:ASCIIHexDecode:hex-odd-final-digit", "ASCIIHexDecode with an odd number of digits", "'3>' decoded to nothing instead of 0x30 (found by C11 through a filtered stream)"),
 ("C06", "c06:*:AESV3 DecryptionFailure", "AES-256 decryption must use the full 32-byte file key", "every string and stream of an AES-256 (R5/R6) document failed with DecryptionFailure"),
 ("C17", "c17:differs:scan.object", "scan() must take offsets relative to the header", "with a 1-byte prefix scan() returned objects whose stream data came from the wrong place; range ended early"),
 ("C01", "panic:pdf/src/file.rs:pdf::file::Storage::scan:called `Result::unwrap()`", "scan() reports a missing or out-of-range startxref", "scan() unwrapped the startxref lookup and the range read"),
 ("C05", "panic:pdf/src/enc.rs:pdf::enc::run_length_decode:range end index N out of range for slice of length N", "RunLengthDecode reports truncated data as an error", "RunLength data [5,1,2], [200], [0] panicked (slice index)"),
 ("C05", "c05:decode-differs:*+predPNG (predictor 10)", "/Predictor 10 is a PNG predictor too", "Predictor 10 left the PNG tag bytes in the output"),
 ("C05", "c05:decode-differs:*+bpcN", "predictor row geometry must honour /BitsPerComponent", "PNG prediction with BitsPerComponent 1/2/4/16 unfiltered with the wrong stride"),
 ("C05", "c05:decode-differs:LZWDecode+pred*", "LZWDecode applies /Predictor like FlateDecode", "LZW data with a predictor came back still predicted"),
 ("C05", "c05:decode-differs:*+pred2", "implement the TIFF predictor", "Predictor 2 ignored: differences returned instead of samples"),
 ("C14", "c14:predictor-geometry", "reject predictor parameters that are not positive or overflow", "negative/huge Colors, BitsPerComponent, Columns: overflow panics and row buffers of Columns bytes"),
 ("C08", "c08:roundtrip:differs:Leading (TD)", "TD shorthand is chosen when the leading equals minus the vertical offset", "Leading(-0) MoveTextPosition(0,1) written as '0 1 TD' and read back with leading -1"),
 ("C08", "c08:table[sh]:differs:Shade", "parse the sh operator into Op::Shade", "'/N sh' parsed to no operation"),
 ("C08", "c08:roundtrip:differs:RenderingIntent", "write the operand of ri as a name", "RenderingIntent written as 'Perceptual ri' without the solidus"),
 ("C08", "c08:table[Tr]:differs:TextRenderMode", "text rendering modes 6 and 7 are valid", "'6 Tr' and '7 Tr' rejected and dropped"),
 ("C08", "c08:table[BI]:differs:InlineImage", "seek_substr finds occurrences that start inside a partial match", "inline image whose data ends in LF ('ID \\n\\nEI') reported as unterminated"),
 ("C19", "c19:unicode-map-differs (write_cmap)", "write_cmap separates bfrange array elements with white-space", "write_cmap wrote '[<0041>, <0042>]': the reader stopped at the first range"),
 ("C12", "c12:cache-visible:object-cache-only:get<*>-after-[..get<other type>..]", "a cached load error for one type must not be returned for another type", "get::<XObject>(3) then get::<Primitive>(3): cached document returned the first call's MissingEntry error"),
 ("C12", "c12:cache-visible:stream-cache-only:raw_image_data/Stream::data", "raw_image_data must not put partially decoded data into the stream cache", "jpeg.pdf obj 7: Stream::data then raw_image_data returned the fully decoded 786432 bytes instead of the 14562-byte JPEG (and vice versa)"),
 ("C01", "resource:total-allocation-out-of-proportion (LZW)", "LZW decoding must not allocate a 16 MiB scratch buffer", "every LZW stream, however small, allocated a 16 MiB buffer: 134 MB allocated to read a 3.6 KB file with 8 tiny LZW streams"),
 ("C14", "panic:pdf/src/object/function.rs:<pdf::object::function::Function as pdf::object::FromDict>::from_dict:index out of bounds*", "malformed function dictionaries are errors, not panics", "/Domain with fewer than two numbers indexed; PostScript function without /Range unwrapped; /Size 0 underflowed"),
 ("C14", "panic:pdf/src/object/function.rs:pdf::object::function::SampledFunction::apply*", "sampled functions check sample positions", "sample positions from /Encode x input sliced the table unchecked; /Order 3 hit unimplemented!()"),
 ("C14", "panic:pdf/src/object/function.rs:pdf::object::function::PsFunc::*", "PostScript calculator: roll and the program braces are checked", "roll with n > stack or j > n panicked; '}{' sliced backwards"),
 ("C14", "panic:pdf/src/font.rs:pdf::font::Font::widths:*", "Font::widths validates the W array", "empty /DescendantFonts indexed; 'c1 c2 w' with negative c2 looped and allocated without bound"),
 ("C14", "crash:signal6:stack-overflow (name/number tree)", "name and number tree walks detect cycles", "a name tree whose kid refers to an ancestor overflowed the stack in walk()"),
 ("C14", "panic:pdf/src/crypt.rs:pdf::crypt::Rc4::new:assertion failed*", "reject encryption key lengths outside 40..128 bits", "/Length 0 in the encryption dictionary reached Rc4::new with an empty key"),
 ("C14", "panic:pdf/src/encoding.rs:*attempt to add with overflow", "/Differences with an extreme code no longer overflows", "/Differences [-1 /a /b] overflowed the running code"),
 ("C14", "crash:signal6:stack-overflow (appearance dictionary)", "appearance dictionaries that refer to themselves", "<< /Off 31 0 R >> stored as object 31 recursed without bound in AppearanceStreamEntry"),
 ("C14", "crash:signal6:allocation-failure (xref stream /W [0 0 0])", "an xref stream with /W [0 0 0] cannot declare entries without data", "/W [0 0 0] /Index [0 2147483647] built two billion entries before the /Size limit was checked"),
 ("C14", "panic:core/src/num/f32.rs:pdf::object::function::SampledFunctionInput::map:*", "a sampled function with a reversed or NaN /Domain", "f32::clamp panicked on /Domain [1 0]"),
 ("C14", "panic:pdf/src/crypt.rs:pdf::crypt::Decoder::from_password:attempt to multiply with overflow", "a huge crypt filter /Length no longer overflows", "CF /Length 4294967295 overflowed in 8 * n"),
 ("C09", "c09:reload-error:Parse (junk before header)", "save() writes offsets relative to the header", "offset.pdf: after any save the file could not be read back (absolute offsets written, header-relative offsets read)"),
 ("C09", "c09:update-changed-reference", "updating an object stored in an object stream keeps its object number", "update(14 0 R) on a compressed object returned 29 0 R; references to 14 kept the old value"),
 ("C09", "c09:read-after-write-differs:resolve (merge)", "a second update of the same object replaces the first", "update r <</A 1>> then update r <<>>: resolve(r) still had /A"),
 ("C09", "c09:save-error:Other (Invalid entry)", "a file with undefined object numbers below /Size can be saved", "save failed with 'invalid xref entry: Invalid' on a base whose /Size exceeds its defined objects"),
 ("C09", "c09:read-after-write-differs:get", "update() invalidates the caches", "cached document: get::<Primitive>(r) after update(r, v) returned the value cached before"),
 ("C09", "c09:retry-after-failed-save-fails", "a failed save leaves the storage unchanged", "save failed on a stream still pointing into the source file; after replacing the object every later save failed with 'invalid xref entry: Promised'"),
 ("C09", "panic:pdf/src/file.rs:*update*", "update() of a free or undefined object number is an error", "update() on a free id hit panic!()"),
 ("C20", "c20:new-document-stream-length", "a deep-cloned stream gets the /Length of the data it carries", "importing from an AES-encrypted source: copied font-file stream written with the source's stored /Length 96 but 64 bytes of (decrypted) data"),
 ("C20", "c20:crash:stack-overflow", "importing objects that refer to each other in a cycle", "a page entry referring to << /Self x 0 R >> overflowed the stack in clone_plainref"),
 ("C13", "c13:*-shared-resolver-*:panic:*assertion `left == right` failed / process-abort:panic-in-drop-guard / spurious-recursive-reference", "the recursion guard of a shared resolver is kept per thread", "two threads sharing one resolver: thread B's push made thread A's guard pop fail assert_eq inside a destructor (abort, poisoned lock); schedule with two preemptions between push and pop"),
 ("C15", "c15:Action:written-form-unreadable", "Action::Goto is written with its /S /GoTo entry", "<< /S /GoTo /D [3 0 R /Fit] >> read as Action and written back gave << /D [...] >> (no /S), which Action's reader rejects"),
 ("C15", "c15:*:not-idempotent:DecodeParms", "streams with several filters are written with a /DecodeParms array", "a stream with /Filter [/ASCIIHexDecode /FlateDecode] /DecodeParms [null << /Columns 7 >>] was written with the Flate parameters as one dictionary, which the next read pairs with ASCIIHexDecode: parameters lost; two parameterised filters ([/FlateDecode /LZWDecode] with parameters each) hit assert!(params.is_none()) in Stream::to_pdf_stream"),
 ("C15", "c15:AppearanceStreamEntry:written-form-unreadable (nested)", "HashMap writer skips entries whose value writes as null", "appearance dictionary << /On 17 0 R /X << >> >>: the empty nested state dictionary was written as '/X null', which AppearanceStreamEntry's reader rejects"),
 ("C15", "c15:AppearanceStreamEntry:written-form-unreadable (empty)", "an empty appearance dictionary is written as an empty dictionary", "appearance dictionary << >> was written as null, which AppearanceStreamEntry's reader rejects"),
 ("C18", "c18:*:error-instead-of-null:*", "references to missing objects read as null by the Option, HashMap and Lazy readers", "optional entries referring to a missing object (e.g. Catalog /Outlines 106 0 R beyond /Size: UnspecifiedXRefEntry; SeedValueDictionary /DigestMethod 0 0 R: FreeObject through Vec; Resources /Font 0 0 R through HashMap) made the typed read fail in strict mode because Option's NullRef/FreeObject arms never see the wrapped error; Resources /ExtGState << /GS1 0 0 R >> (HashMap entry) failed likewise; Lazy::load of /Annots 0 0 R failed instead of giving the empty list"),
 ("C18", "c18:doc:*", "references to missing objects read as null by the Option, HashMap and Lazy readers", "a document whose catalog has /Outlines 106 0 R (beyond /Size) did not load in strict mode (UnspecifiedXRefEntry)"),
 ("C18", "c18:Font*:BaseFont:*:error-does-not-name-entry", "a /BaseFont that refers to a missing object is reported as the missing entry", "Font with /BaseFont 0 0 R failed with a bare FreeObject error naming neither font nor entry"),
 ("C18", "c18:*:error-instead-of-absent:* (default fields)", "derived readers treat an entry that refers to a missing object like an absent entry", "a field with a default (/Rotate 106 0 R, FontDescriptor /Leading 0 0 R, LZWFlateParams /Predictor 60 0 R ...) failed with FromPrimitive in strict and tolerant mode instead of taking the default; a required field reported the bare missing-object error instead of MissingEntry naming the field"),
 ("C18", "c18:Font*:Encoding|ToUnicode:*:error-instead-of-absent", "a font whose /Encoding or /ToUnicode refers to a missing object", "Font with /Encoding 0 0 R or /ToUnicode 60 0 R failed to load (hand-written reader passed FreeObject / NullRef on)"),
 ("C18", "c18:NumberTree*|NameDictionary|Encoding|AppearanceStreamEntry:*:error-instead-of-absent", "name trees, number trees, encodings and appearance dictionaries read an entry", "NumberTree /Limits 0 0 R or /Kids 60 0 R, NameTree /Names 0 0 R, Encoding /Differences 0 0 R, appearance dictionary << /On 0 0 R >> made the whole object unreadable"),
 ("C13", "c13:*-cached:deadlock", "threads that enter a cycle of references at different objects", "two page-tree nodes naming each other as /Parent (objects 4 and 5), thread A get::<PagesNode>(4), thread B get::<PagesNode>(5), object cache on, A preempted after its guard push: both threads sleep in the cache's condition variable for ever (found once the concurrent run started with cold caches)"),
 ("C20", "c20:resource-missing:Pattern", "importing a page copies the pattern and property-list resources", "an imported page whose content paints with a pattern (/P1 scn) arrived without /Pattern /P1"),
 ("C20", "c20:resource-missing:Properties", "importing a page copies the pattern and property-list resources", "an imported page whose marked content names a property list (/Tag /MC1 BDC) arrived without /Properties /MC1"),
 ("C12", "gate:xref-stream-of-encrypted-file", "the cross-reference stream is decoded without going through the stream cache", "reading the cross-reference stream object of an encrypted file gave the right data with a stream cache (loading had cached it before the decoder existed) and failed without one; and when a later section gives the xref stream's object number to an ordinary stream, the cached document returned the old cross-reference bytes for it (found by a seeding agent as a side remark)"),
 ("C14", "crash:signal6:stack-overflow (DeviceN alternate)", "the alternate of a DeviceN colour space shares the nesting budget", "'7 0 obj [/DeviceN [/A] 7 0 R <<function>>]' used as a page colour space: ColorSpace read the alternate with a fresh depth budget and no guard, the stack overflowed and the process aborted (pointed out by a seeding agent; C14's fragment had DeviceN only as a direct value, so no substitution could make it refer to itself)"),
 ("C14", "panic:pdf/src/object/stream.rs:pdf::object::stream::ObjectStream::get_object_slice:attempt to add with overflow", "object stream offsets are added with an overflow check", "an object stream whose offset table holds 18446744073709551615: /First + offset overflowed in get_object_slice (pointed out by a seeding agent; C14 now plants boundary numbers in offset tables)"),
 ("C14", "crash:signal6:stack-overflow (object whose value is a reference)", "an object whose value is a reference is followed with a bound", "'9 0 obj 9 0 R endobj' named by /Contents, a tint transform, /Encoding, /Kids, the trailer /ID or the catalog itself: Dictionary, Vec, HashMap, PdfStream, Function, Encoding and Content readers recursed until the stack overflowed (found by a code-reading agent; C14 now plants such objects in every slot)"),
 ("C14", "panic:pdf/src/file.rs:*resolve_ref:attempt to add with overflow", "the offset of a cross-reference entry is added to the header position with an overflow check", "bytes before the header and an entry '18446744073709551615 00000 n': start_offset + pos overflowed in resolve_ref (found by a code-reading agent; kept in corpus/hostile)"),
 ("C14", "hang:no-return-within-160s (failed load repeated at every level)", "a load that fails is not repeated by the call that just tried it", "uncached: a chain of d typed references ending in a broken object cost 2^d loads because get() re-read an object after its own failed attempt (a side effect of the earlier 'cached error of another type' repair; found by a code-reading agent)"),
 ("C14", "crash:signal6:stack-overflow (long /Parent chain)", "eager loads are nested at most 48 deep", "a root /Pages node with a /Parent chain of 300-3000 distinct nodes overflowed the stack inside load(); total allocation out of proportion for 1000 nodes (found by a code-reading agent; C14 now builds such chains)"),
 ("C14", "crash:signal6:stack-overflow (string of line continuations)", "ignored escapes in a literal string no longer cost a stack frame each", "'(' followed by 20000 x backslash LF: one recursive call per continuation overflowed the stack (found by a code-reading agent; kept in corpus/hostile)"),
 ("C14", "panic:pdf/src/crypt.rs:pdf::crypt::Decoder::key:range end index N out of range for slice of length N", "the unwrapped AES-256 file key must be 32 bytes long", "/R 5 with an empty /UE and an RC4 method: load() panicked slicing [..16] out of an empty key (found by a code-reading agent; kept in corpus/hostile)"),
 ("C14", "panic:pdf/src/enc.rs:pdf::enc::fax_decode:*", "CCITTFaxDecode validates /Columns and /Rows", "/Columns 0 (remainder by zero), /Columns 65537 (assert_eq!), /Columns 2147483647 /Rows 2147483647 (allocation of 4.6e18 bytes aborts) on a 600-byte file (found by a code-reading agent; C14's fragment now has a fax image under the numeric substitutions)"),
 ("C14", "crash:signal6:stack-overflow (/JBIG2Globals names its own stream)", "streams inside filter parameters are nested at most 4 deep", "a stream whose /DecodeParms << /JBIG2Globals N 0 R >> is the stream itself recursed while its filter list was built (found by a code-reading agent; C14's fragment now has such a pair under the reference substitutions)"),
 ("C20", "crash:stack-overflow / panic:pdf/src/build.rs:*clone_rcref*unwrap", "the importer's typed reference paths record the copy before descending", "importing a page whose image is its own /SMask or whose form lists itself in its resources overflowed the stack; a property list used inline (<< /K 7 0 R >> BDC) and by name (/MC0 BDC) panicked on Option::unwrap in clone_rcref (found by a code-reading agent; C20 now imports from hostile sources)"),
 ("C14", "hang / resource:total-allocation-out-of-proportion (shared objects without a cache)", "an object reachable along several paths is loaded once per call", "uncached: Type0 fonts whose /DescendantFonts name the next font four times, depth 24 (4 KB): loading the font never finished (found by a code-reading agent; kept in corpus/hostile); a backstop of 100 000 loads per call was added as well"),
 ("C01", "time out of proportion (members of one object stream read without a cache)", "the object stream used last is kept", "uncached: resolving the 8000 members of one 52 KB object stream re-inflated it and re-read all 16000 header integers for every member: minutes in a debug build, quadratic in the file size (found by a code-reading agent; within the harness's time budget, so it was never reported as a violation; kept in corpus/hostile)"),
]
OPEN = [
 ("C20", "c20:resource-missing:ColorSpace", "an imported page whose content names a colour space resource (/CS1 cs) arrives without /ColorSpace: deep_clone_op does not copy colour space resources; a repair needs writers for most ColorSpace variants (ColorSpace::to_primitive is unimplemented!() except for three), so it is recorded"),
 ("C20", "c20:resource-missing:Shading", "an imported page whose content uses sh arrives without /Shading: the Resources model has no shading dictionary at all"),
 ("C06", "gate:encrypt-direct-in-trailer", "a document whose trailer holds the /Encrypt dictionary directly (legal, ISO 32000-1 Table 15) cannot be opened with any password: Trailer.encrypt_dict is Option<RcRef<CryptDict>> and rejects a direct dictionary (UnexpectedPrimitive expected Reference); repairing it changes a public field type and needs writers for CryptDict, so it is recorded, not fixed"),
]

def commit_for(grep):
    out = subprocess.check_output(["git", "-C", "/repo", "log", "--format=%h", "--fixed-strings", "--grep=fix: " + grep], text=True).split()
    if not out:
        out = subprocess.check_output(["git", "-C", "/repo", "log", "--format=%h", "--fixed-strings", "--grep=" + grep], text=True).split()
    assert out, "no commit for " + grep
    return out[-1]

findings, lines = [], []
for prop, key, grep, what in FIXED:
    c = commit_for(grep)
    findings.append({"property": prop, "key": key, "status": "fixed", "commit": c, "what": what})
    lines.append(f"fixed: property={prop} {c} {what}")
for prop, key, what in OPEN:
    findings.append({"property": prop, "key": key, "status": "open", "what": what})
doc = {
 "_format": "findings[].status: open = genuine defect recorded (the check prints KNOWN-FINDING and exits 0); fixed = repaired in /repo by the named 'fix:' commit and suppresses nothing. key = specific signature (gate name, failure key or panic signature); a trailing * is a prefix match. Only 'open' entries are consulted by the checks; the file is never written at run time.",
 "findings": findings,
 "fixed_lines": lines,
}
json.dump(doc, open(os.path.join(HERE, "known_findings.json"), "w"), indent=1)
print(len(findings), "findings,", sum(1 for f in findings if f["status"] == "open"), "open")
