#!/usr/bin/env python3
"""Regenerates /verif/MANIFEST.json from the table below (run after adding a property check)."""
import json, os, subprocess
HERE = os.path.dirname(os.path.dirname(os.path.abspath(__file__)))
props = [json.loads(l) for l in open(os.path.join(HERE, "properties.jsonl"))]
ids = [p["id"] for p in props]

# id -> (technique, level text, level note, design ref)
CLAIMED = {
 "C13": ("schedule enumeration: real threads paused at cfg-guarded yield points inside Resolve::get, a controller grants one at a time, the grant-choice tree is explored by DFS with a preemption bound; plus randomized stress on free-running threads; oracle = each call's sequential outcome",
         "Generated-input search over schedules: for 160 (quick) / 800 (thorough) scenarios of 2-3 threads x 1-2 calls on corpus and generated documents, with shared or per-thread resolvers and SyncCache or no cache, up to 60 / 4000 grant sequences each with at most 3 preemptions are executed in worker processes; stress runs 4-8 free threads x 12 calls repeated 40-300 times. Every call must return what it returns alone; a panic, a process abort from the guard's destructor, a spurious 'Recursive reference' or a state where no thread can proceed is a violation; a stall is inconclusive.",
         "interleavings inside globalcache's own locks and real memory ordering are only sampled by the stress driver; hook points are the three listed in MANIFEST.hooks",
         "DESIGN.md §4 C13"),
 "C20": ("enumeration of corpus pages and small page subsets + proptest-generated documents, imported in worker processes; oracle = page/operation equality, resource content equality with references followed, independent structural validation of the new file, sharing preserved",
         "Generated-input search: every corpus page alone and in ordered pairs, and pages of generated documents (shared fonts/images/forms, object streams, encryption, private entries with reference cycles) are imported with one Importer, built and reloaded; boxes, rotation, operations and every resource the operations name must equal the source's (references followed, stream data compared, entries that only state a default ignored), the independent reader must find no dangling reference or bad stream length, shared source objects must stay shared, and the worker must not crash or time out.",
         "comparison ignores entries that only spell out a specification default and treats one-element /Filter arrays as the single filter; imports the library refuses are outside the property",
         "DESIGN.md §4 C20"),
 "C10": ("proptest-generated builder inputs; round-trip oracle through the library plus an independent strict reader as structural validator",
         "Generated-input search over page lists (0-6 pages, C08 operation sequences, boxes, rotation, font and graphics-state resources, extra entries) and information dictionaries built with PdfBuilder; the bytes are reloaded with the library (pages, boxes, rotation, extras, resources, operations, info compared with the input) and parsed by an independent reader that checks header, startxref, every xref entry against the object header, /Size, stream lengths and that no reference dangles.",
         "the independent reader is harness/src/engine/reader.rs (validated against the whole corpus and the harness writer)",
         "DESIGN.md §4 C10"),
 "C09": ("stateful model-based testing: proptest-generated operation histories interpreted against the library and an in-memory model; invariants after every step",
         "Generated-input search over histories of create / update (base direct, base compressed, created, repeated) / promise / fulfil / read / save / failing save then repair / copy of a file-backed stream, on corpus bases (classic, xref-stream with object streams, junk before the header) and generated bases, cached and uncached. After each write reads through the open document must show it; after each save the old revision must be a byte prefix, and a fresh load must resolve every written reference to its last value and every untouched object to its old value.",
         "objects that loading itself reads are not overwritten (that would invalidate the file); saved bytes come from File::save_to",
         "DESIGN.md §4 C09"),
 "C01": ("seeded structure-aware mutation fuzzing of corpus and generated documents in isolated worker processes, driven by proptest (shrinkable mutation lists); oracle = every call of the deep walk returns, no panic/abort, bounded allocation; thorough tier ends with a coverage-guided libFuzzer campaign (target open_walk)",
         "Generated-input search: each input (corpus file, corpus mutant with 1-8 stacked token- and byte-level mutations, generated typed document with damage inside object bodies applied before layout so the file still loads, raw bytes, C14's hostile structures, image streams with every predictor geometry and a decoded length short or long by up to a row) is walked deeply (pages, resources, fonts, images, forms, content, trees, outlines, fields, every object number, recovery scan) in strict/tolerant x cached/uncached, each walk in a worker process with a counting allocator; panics are collected per call, a dead worker or a confirmed time-out pins the input, allocation is checked against T <= 256MiB + 4000(n+d), P <= 128MiB + 400(n+d). About half of the inputs reach typed loading (see evidence labels).",
         "absence of hangs is judged by a 40 s budget confirmed at 160 s; the walk is what engine/walker.rs reads; a search cannot cover all byte strings",
         "DESIGN.md §4 C01"),
 "C14": ("bounded exhaustive enumeration: every reference slot of 7 typed schema fragments pointed at every object, every numeric slot set to each boundary value, plus structural cases and proptest-generated multi-slot combinations; same isolated-walk oracle as C01",
         "Fault enumeration over syntactically valid files: about 7 600 single-slot substitutions (quick runs a seed-rotated third, thorough all), /Prev loops, hostile xref-stream and object-stream parameters, nesting to 10 000 levels, and random 2-5 slot combinations; each file is walked in a worker process in four configurations and must neither panic, die, time out nor allocate out of proportion.",
         "fragments and boundary values are listed in harness/src/props/c14.rs; fields not present in a fragment are not attacked",
         "DESIGN.md §4 C14"),
 "C12": ("bounded exhaustive enumeration of call orderings per object + proptest-generated call sequences; differential oracle across the four cache configurations and against each call issued alone",
         "Generated-input search: for each surveyed object of corpus and generated files, orderings of up to 5 distinct call kinds (right and wrong typed loads, resolve, Stream::data, raw_image_data, image_data) and random sequences of up to 12 calls across objects and pages are executed on documents opened with both / object-only / stream-only / no caches; every call must give the same digest or root-cause error kind in all four and when issued alone.",
         "digests are hashes of canonical values; error kinds compared with wrappers peeled; SyncCache is the library's own cache type",
         "DESIGN.md §4 C12"),
 "C18": ("fault injection by construction with a metamorphic oracle (dangling reference == literal null == absent entry): exhaustive over every position of every model instance x 6 kinds of missing object x strict/tolerant, plus proptest-generated edited instances and whole documents",
         "Bounded-exhaustive enumeration plus generated-input search: every entry, array element and nested entry of ~80 model instances is pointed at object 0, a freed number, a gap in the table, /Size, /Size+5 and 999999, in strict and tolerant mode (about 6 900 cases, all run in quick), then 20k (quick) / 1.5M (thorough) randomly edited instances; catalog, page-tree and page entries of a whole document are attacked the same way and loaded in four configurations. Each case is compared with the same instance holding a literal null (and with the entry removed); required entries must fail with an error naming the field.",
         "positions whose reader accepts no reference at all (name enums, /Type tags) are detected with a valid-reference control and not asserted; references merely carried (Ref<T>, Lazy, Primitive) are accepted as is",
         "DESIGN.md §4 C18"),
 "C19": ("proptest-generated W arrays / simple-font tables / code-to-text maps / conformant CMap texts; reference model (map of assigned widths, map of entries) as oracle, write_cmap round-trip",
         "Generated-input search: composite-font width arrays with groups in any order and both forms (the evidence counts the five growth cases empty/append/prepend/gap/inside), simple fonts, maps with BMP, supplementary and multi-character texts and runs of consecutive codes whose texts are unrelated, consecutive, or consecutive across a ..FF/..00 boundary of the last UTF-16 unit, and independently generated CMap texts using bfchar and both bfrange forms with 1- and 2-byte codes; every probed code's width and the exact set of map entries are compared with the model.",
         "fonts are read through the public API from files written by the harness; simple fonts carry no /MissingWidth",
         "DESIGN.md §4 C19"),
 "C06": ("proptest-generated encrypted documents produced by an independent implementation of the standard security handler; oracle = known plaintext and password acceptance/rejection",
         "Generated-input search over (variant R2-R6, key length, user/owner password, P, ID, EncryptMetadata, object/generation numbers, string/stream lengths incl. empty and block-aligned, xref kind, encrypted object streams): with either password every string and stream must equal the plaintext the harness encrypted, wrong passwords must give InvalidPassword, the encryption dictionary's own strings and an unencrypted metadata stream must come back as written.",
         "MD5, SHA-2 and AES block primitives are trusted; key schedules, RC4 and Algorithm 2.B are implemented independently in harness/src/engine/crypt.rs and anchored on the corpus's password-protected files",
         "DESIGN.md §4 C06"),
 "C08": ("proptest-generated operation sequences (round-trip oracle under an independent structural description) and the 73-operator table with generated operands spelled by the randomised printer (oracle = my table of expansions); thorough tier ends with a coverage-guided libFuzzer campaign (target content_roundtrip)",
         "Generated-input search: (a) sequences over all Op variants biased towards the shorthand-triggering adjacencies, serialised and parsed back; (b) every operator of Table A.1 alone and in sequences of up to 6 with well-formed operands and random conformant spelling, compared with the specification's expansion, including the tracked current point for v (after m l c v y, after h s b b* = start of the closed subpath, after re = the rectangle's origin; extra section of path operators only) and absence of operand leaks; compatibility sections nested to any depth with non-existent operators inside, parsed with allow_invalid_ops = false.",
         "the expansion table is my reading of ISO 32000-1 Table A.1; Integer and Real operands of equal value are identified",
         "DESIGN.md §4 C08, Appendix B"),
 "C05": ("proptest-generated (data, filter chain, parameters) encoded by independent specification encoders; round-trip oracle; exhaustive enumeration of small code spaces; corruption fuzzing for no-panic",
         "Generated-input search: data up to 64 KiB through chains of 1-3 filters with per-filter parameters (PNG 10-15 / TIFF 2 predictors, colours 1-4, bpc 1/2/4/8/16, columns 1-64, LZW EarlyChange 0/1 with clear codes, zlib and raw deflate), decoded via enc::decode and via Stream::data on a real stream object; truncation/damage must not panic; exhaustive hex pairs, run-length headers, PNG filter functions and ASCII85 groups (2^24 sample quick, all 2^32 thorough).",
         "the encoders in harness/src/engine/filters.rs are my reading of ISO 32000-1 7.4; flate2 provides deflate",
         "DESIGN.md §4 C05"),
 "C07": ("proptest-generated page trees + exhaustive enumeration of all tree shapes up to 7 nodes; reference model (DFS leaf order, nearest-ancestor attributes) as oracle",
         "Generated-input search over ordered page trees (depth to 12, fan-out 0-5, empty intermediate nodes, attributes placed independently on any node, nodes direct or compressed) and all shapes with <=6 (quick) / <=7 (thorough) nodes x 6 attribute patterns. Every index 0..count+2 and u32::MAX, pages(), num_pages(), media/crop/resources origin are compared with the model, cached and uncached.",
         "trees are well-formed by construction; files come from the harness writer",
         "DESIGN.md §4 C07"),
 "C17": ("proptest-generated (file, prefix) pairs over corpus and generated documents; metamorphic oracle: deep-walk transcript of the prefixed file equals the original's",
         "Generated-input search: each corpus file and generated documents covering every offset consumer (startxref, table and stream entries, /Prev, stream ranges, scan) are prefixed with 0..1019 arbitrary bytes (boundary lengths weighted; thorough: every length on 5 files) and must produce an identical read transcript including the recovery scan.",
         "the transcript covers what the walker reads (harness/src/engine/walker.rs); prefixes are sanitised not to contain %PDF-",
         "DESIGN.md §4 C17"),
 "C02": ("proptest-generated update histories + bounded exhaustive enumeration; reference model (fold of sections) as oracle",
         "Generated-input search over update histories written by an independent PDF writer: 1-5 sections, each classic or stream format, each a partial map number -> direct | compressed | free, random subsection splitting and /Size growth; long histories of 6-47 sections (half with classic tables only, so the chain is longer than /Size); all 33 824 histories of <=3 sections over two numbers enumerated. Every number 0..Size+2 is resolved (cached and uncached) and compared with the model; trailer and typed page access are checked to be the newest.",
         "well-formedness of generated histories is by construction (see harness/src/props/c02.rs); hybrid-reference files are out of scope",
         "DESIGN.md §4 C02"),
 "C11": ("proptest-generated object-stream layouts + exhaustive kind x position x trailing x filter grid; metamorphic oracle compressed == direct twin == written value",
         "Generated-input search: each value is stored twice (object-stream member, ordinary object) and must resolve equal; three identical streams differ only in how /Length is stored. Exhaustive grid over 19 kind samples x 3 positions x trailing white-space x 6 filter chains x 2 length placements.",
         "files come from the harness writer/encoders",
         "DESIGN.md §4 C11"),
 "C03": ("proptest-generated values rendered by an independent randomised spec-conformant printer (choice tape); oracle = the printer's input value; sequence position invariant",
         "Generated-input search over (value tree, spelling) pairs: ~35 optional syntax constructs (white-space set, comments with each EOL, signs, leading zeros, fraction-only reals, octal/named/ignored escapes, line continuations, balanced parentheses, hex strings with white-space/odd digits, #xx names and keys, separator elision, stream EOLs) in four parse entry points. The evidence lists per-construct counts. Exploration: constructs are sampled in combination, not enumerated.",
         "the printer is my reading of ISO 32000-1 7.2-7.3; reals denote std's correctly-rounded f32 of their decimal text",
         "DESIGN.md §4 C03"),
 "C04": ("proptest-generated Primitive trees + exhaustive 1/2-byte strings and all Unicode scalars as names/keys; round-trip oracle serialize->parse in each placement the writer uses; thorough tier ends with a coverage-guided libFuzzer campaign (target parse_roundtrip: parse -> serialise -> parse)",
         "Generated-input search over Primitive trees placed as indirect body (as save frames it), as an object of a document built and reloaded through the library's own writer, dictionary value, array element, SCN and BDC/DP operands; every 1- and 2-byte string and every Unicode scalar (as name and as key) exhaustively. Round-trip equality up to Integer/Real identification and no panic in serialize.",
         "placement strings mirror Storage::save and serialize_ops; canonical comparison identifies Integer n with Real n.0",
         "DESIGN.md §4 C04"),
 "C15": ("model-driven generation with round-trip (write.read idempotence) and superset (catch-all) oracles over ~95 typed models: exhaustive single-entry edits plus proptest-generated multi-edit instances",
         "Generated-input search: every model's full instance is edited entry by entry (dropped, int<->real, scalar<->one-element array, direct<->indirect, model-specific alternatives), given unknown entries and (streams) one of ten filter chains; the instance is parsed from a generated file, read as the model, written through the file's updater, read and written again; the two written forms must be equal with references followed, and catch-all models must keep every input entry. Single edits are enumerated completely, combinations are sampled (60k quick, 3M thorough).",
         "the model table (harness/src/engine/schema.rs) is hand-written from the #[pdf(..)] attributes; values whose writer is unimplemented!()/Err are outside the property and counted as rejected",
         "DESIGN.md §4 C15"),
 "C16": ("exhaustive enumeration of short inputs + proptest-generated data; round-trip and differential oracle against an independent reference decoder; thorough tier ends with a coverage-guided libFuzzer campaign (target filters: decoders on arbitrary data, encoders inverted)",
         "Generated-input search: every byte string up to length 2 (quick) / 3 (thorough), single-value runs to 70000 bytes and structured random data to 64 KiB, for all four encodable filters; each must round-trip through the library decoder and be decoded to the same bytes by an independent decoder. Exploration, not proof: strings longer than 3 bytes are sampled.",
         "trusts harness/src/engine/filters.rs reference decoders (LZW cross-checked against weezl) and flate2's zlib",
         "DESIGN.md §4 C16"),
}
REASONS = {}

def hooks_commits():
    try:
        out = subprocess.check_output(["git", "-C", "/repo", "log", "--format=%H %s"], text=True)
        return [l.split()[0] for l in out.splitlines() if " hook:" in l or "verif hook" in l]
    except Exception:
        return []

checks = []
for i in ids:
    if i in CLAIMED:
        tech, text, note, ref = CLAIMED[i]
        checks.append({
            "property_id": i,
            "quick_cmd": f"./check {i} quick",
            "thorough_cmd": f"./check {i} thorough",
            "evidence_file": f"/verif/evidence/{i}.json",
            "replay_cmd_template": f"./check {i} --replay {{path}}",
            "engine": "vh",
            "level_claimed": {"category": "exploration", "text": text, "design_ref": ref},
            "level_note": note,
            "technique": tech,
        })
na = [{"property_id": i, "reason": REASONS.get(i, "check not built yet (work in progress; see DESIGN.md §8 build order)")} for i in ids if i not in CLAIMED]
manifest = {
    "version": 1,
    "setup_cmd": "./check --setup",
    "hooks": {
        "guard": "--cfg pdf_verif",
        "enable": "RUSTFLAGS=--cfg pdf_verif via /verif/harness/.cargo/config.toml (every check builds /repo/pdf as a path dependency with the flag on)",
        "baseline_off_cmd": "cd /repo && cargo test --workspace --no-fail-fast --offline",
        "source_commits": hooks_commits(),
        "add_only": True,
    },
    "engines": [
        {"name": "vh", "path": "/verif/harness", "serves_properties": sorted(CLAIMED), "kind_free_text": "Rust harness: proptest-driven generators, bounded exhaustive enumeration, independent reference model (writer, reader, filters, crypt), thread scheduler over yield hooks, worker-process isolation with counting allocator, shrinking to JSON replay files; four cargo-fuzz/libFuzzer targets under harness/fuzz run by tools/fuzz.sh in the thorough tier of C01, C04, C08, C16"},
    ],
    "checks": checks,
    "notes": "All checks: exit 0 = held on everything explored (KNOWN-FINDING lines for entries of known_findings.json), 1 = VIOLATION line with replay file, 2 = harness error or inconclusive. VERIF_SEED selects the PRNG stream.",
    "not_applicable": na,
}
json.dump(manifest, open(os.path.join(HERE, "MANIFEST.json"), "w"), indent=1)
print("claimed", len(checks), "not_applicable", len(na))
