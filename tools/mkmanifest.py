#!/usr/bin/env python3
"""Regenerates /verif/MANIFEST.json from the table below (run after adding a property check)."""
import json, os, subprocess
HERE = os.path.dirname(os.path.dirname(os.path.abspath(__file__)))
props = [json.loads(l) for l in open(os.path.join(HERE, "properties.jsonl"))]
ids = [p["id"] for p in props]

# id -> (technique, level text, level note, design ref)
CLAIMED = {
 "C16": ("exhaustive enumeration of short inputs + proptest-generated data; round-trip and differential oracle against an independent reference decoder",
         "Generated-input search: every byte string up to length 2 (quick) / 3 (thorough), single-value runs to 70000 bytes and structured random data to 64 KiB, for all four encodable filters; each must round-trip through the library decoder and be decoded to the same bytes by an independent decoder. Exploration, not proof: strings longer than 3 bytes are sampled.",
         "trusts harness/src/engine/filters.rs reference decoders (LZW cross-checked against weezl) and flate2's zlib",
         "DESIGN.md §4 C16"),
}
REASONS = {}

def hooks_commits():
    try:
        out = subprocess.check_output(["git", "-C", "/repo", "log", "--format=%H %s"], text=True)
        return [l.split()[0] for l in out.splitlines() if " hook:" in l or "verif hook" in l]
    except Exception:
        return []

checks = []
for i in ids:
    if i in CLAIMED:
        tech, text, note, ref = CLAIMED[i]
        checks.append({
            "property_id": i,
            "quick_cmd": f"./check {i} quick",
            "thorough_cmd": f"./check {i} thorough",
            "evidence_file": f"/verif/evidence/{i}.json",
            "replay_cmd_template": f"./check {i} --replay {{path}}",
            "engine": "vh",
            "level_claimed": {"category": "exploration", "text": text, "design_ref": ref},
            "level_note": note,
            "technique": tech,
        })
na = [{"property_id": i, "reason": REASONS.get(i, "check not built yet (work in progress; see DESIGN.md §8 build order)")} for i in ids if i not in CLAIMED]
manifest = {
    "version": 1,
    "setup_cmd": "./check --setup",
    "hooks": {
        "guard": "--cfg pdf_verif",
        "enable": "RUSTFLAGS=--cfg pdf_verif via /verif/harness/.cargo/config.toml (every check builds /repo/pdf as a path dependency with the flag on)",
        "baseline_off_cmd": "cd /repo && cargo test --workspace --no-fail-fast --offline",
        "source_commits": hooks_commits(),
        "add_only": True,
    },
    "engines": [
        {"name": "vh", "path": "/verif/harness", "serves_properties": sorted(CLAIMED), "kind_free_text": "Rust harness: proptest-driven generators, bounded exhaustive enumeration, independent reference model (writer, reader, filters, crypt), shrinking to JSON replay files"},
    ],
    "checks": checks,
    "notes": "All checks: exit 0 = held on everything explored (KNOWN-FINDING lines for entries of known_findings.json), 1 = VIOLATION line with replay file, 2 = harness error or inconclusive. VERIF_SEED selects the PRNG stream.",
    "not_applicable": na,
}
json.dump(manifest, open(os.path.join(HERE, "MANIFEST.json"), "w"), indent=1)
print("claimed", len(checks), "not_applicable", len(na))
