//! The harness's own object model (independent of `pdf::primitive::Primitive`).
use super::bytes::Bytes;
use pdf::object::{PlainRef, Resolve};
use pdf::primitive::{Dictionary, PdfString, Primitive};
use serde::{Deserialize, Serialize};

#[derive(Clone, Debug, PartialEq, Serialize, Deserialize)]
pub enum Val {
    Null,
    Bool(bool),
    Int(i64),
    /// real number; `f64` so that the decimal text the printer writes is the ground truth
    Real(f64),
    Str(Bytes),
    /// names are byte strings in PDF; the library holds UTF-8 ones
    Name(Bytes),
    Array(Vec<Val>),
    Dict(Vec<(Bytes, Val)>),
    Ref(u64, u64),
    Stream(Vec<(Bytes, Val)>, Bytes),
}

impl Val {
    pub fn name(s: &str) -> Val {
        Val::Name(Bytes::from(s))
    }
    pub fn str(s: &[u8]) -> Val {
        Val::Str(Bytes::from(s))
    }
    pub fn dict(entries: Vec<(&str, Val)>) -> Val {
        Val::Dict(entries.into_iter().map(|(k, v)| (Bytes::from(k), v)).collect())
    }
    pub fn get(&self, key: &str) -> Option<&Val> {
        match self {
            Val::Dict(d) | Val::Stream(d, _) => d.iter().rev().find(|(k, _)| k.as_slice() == key.as_bytes()).map(|(_, v)| v),
            _ => None,
        }
    }
    pub fn set(&mut self, key: &str, v: Val) {
        if let Val::Dict(d) | Val::Stream(d, _) = self {
            if let Some(e) = d.iter_mut().find(|(k, _)| k.as_slice() == key.as_bytes()) {
                e.1 = v;
            } else {
                d.push((Bytes::from(key), v));
            }
        }
    }
    pub fn depth(&self) -> usize {
        match self {
            Val::Array(a) => 1 + a.iter().map(|v| v.depth()).max().unwrap_or(0),
            Val::Dict(d) | Val::Stream(d, _) => 1 + d.iter().map(|(_, v)| v.depth()).max().unwrap_or(0),
            _ => 0,
        }
    }
    pub fn kind(&self) -> &'static str {
        match self {
            Val::Null => "null",
            Val::Bool(_) => "bool",
            Val::Int(_) => "int",
            Val::Real(_) => "real",
            Val::Str(_) => "string",
            Val::Name(_) => "name",
            Val::Array(_) => "array",
            Val::Dict(_) => "dict",
            Val::Ref(..) => "ref",
            Val::Stream(..) => "stream",
        }
    }
    pub fn walk<'a>(&'a self, f: &mut dyn FnMut(&'a Val)) {
        f(self);
        match self {
            Val::Array(a) => a.iter().for_each(|v| v.walk(f)),
            Val::Dict(d) | Val::Stream(d, _) => d.iter().for_each(|(_, v)| v.walk(f)),
            _ => {}
        }
    }
}

/// Canonical form used by every comparison:
/// * Int and Real of equal numeric value are identified (Real compared as f32, the library's precision)
/// * dictionaries are order-free, last duplicate key wins, `null` entries vanish
#[derive(Clone, Debug, PartialEq, PartialOrd)]
pub enum Canon {
    Null,
    Bool(bool),
    Num(f64),
    Str(Vec<u8>),
    Name(Vec<u8>),
    Array(Vec<Canon>),
    Dict(Vec<(Vec<u8>, Canon)>),
    Ref(u64, u64),
    Stream(Vec<(Vec<u8>, Canon)>, Vec<u8>),
}

fn canon_dict(d: &[(Bytes, Val)], strict_kind: bool) -> Vec<(Vec<u8>, Canon)> {
    let mut out: Vec<(Vec<u8>, Canon)> = Vec::new();
    for (k, v) in d {
        let c = canon_opt(v, strict_kind);
        out.retain(|(k2, _)| k2 != &k.0);
        if c != Canon::Null {
            out.push((k.0.clone(), c));
        }
    }
    out.sort_by(|a, b| a.0.cmp(&b.0));
    out
}

pub fn canon(v: &Val) -> Canon {
    canon_opt(v, false)
}

fn canon_opt(v: &Val, strict_kind: bool) -> Canon {
    match v {
        Val::Null => Canon::Null,
        Val::Bool(b) => Canon::Bool(*b),
        Val::Int(i) => Canon::Num(*i as f64),
        Val::Real(r) => {
            let f = *r as f32;
            // -0.0 == 0.0
            let f = if f == 0.0 { 0.0 } else { f };
            let _ = strict_kind;
            Canon::Num(f as f64)
        }
        Val::Str(s) => Canon::Str(s.0.clone()),
        Val::Name(s) => Canon::Name(s.0.clone()),
        Val::Array(a) => Canon::Array(a.iter().map(|v| canon_opt(v, strict_kind)).collect()),
        Val::Dict(d) => Canon::Dict(canon_dict(d, strict_kind)),
        Val::Ref(a, b) => Canon::Ref(*a, *b),
        Val::Stream(d, data) => Canon::Stream(canon_dict(d, strict_kind), data.0.clone()),
    }
}

/// Structural equality that also distinguishes Integer from Real (C03: "Integer vs Real as denoted").
pub fn same_kind_tree(a: &Val, b: &Val) -> bool {
    match (a, b) {
        (Val::Int(_), Val::Int(_)) | (Val::Real(_), Val::Real(_)) => true,
        (Val::Int(_), Val::Real(_)) | (Val::Real(_), Val::Int(_)) => false,
        (Val::Array(x), Val::Array(y)) => x.len() == y.len() && x.iter().zip(y).all(|(p, q)| same_kind_tree(p, q)),
        (Val::Dict(x), Val::Dict(y)) | (Val::Stream(x, _), Val::Stream(y, _)) => {
            // compare by key (last wins)
            let get = |d: &Vec<(Bytes, Val)>, k: &Bytes| d.iter().rev().find(|(k2, _)| k2 == k).map(|(_, v)| v.clone());
            x.iter().all(|(k, _)| match (get(x, k), get(y, k)) {
                (Some(p), Some(q)) => same_kind_tree(&p, &q),
                _ => true,
            })
        }
        _ => true,
    }
}

/// Convert a library primitive into a `Val`.  Streams need a resolver to fetch their raw bytes;
/// with `None` the stream data is left empty (callers that compare stream data pass a resolver).
pub fn from_primitive<R: Resolve>(p: &Primitive, r: Option<&R>) -> Result<Val, String> {
    Ok(match p {
        Primitive::Null => Val::Null,
        Primitive::Integer(i) => Val::Int(*i as i64),
        Primitive::Number(f) => Val::Real(*f as f64),
        Primitive::Boolean(b) => Val::Bool(*b),
        Primitive::String(s) => Val::Str(Bytes::new(s.as_bytes())),
        Primitive::Name(n) => Val::Name(Bytes::new(n.as_str().as_bytes())),
        Primitive::Array(a) => Val::Array(a.iter().map(|x| from_primitive(x, r)).collect::<Result<_, _>>()?),
        Primitive::Dictionary(d) => Val::Dict(dict_from(d, r)?),
        Primitive::Reference(PlainRef { id, gen }) => Val::Ref(*id, *gen),
        Primitive::Stream(s) => {
            let data = match r {
                Some(r) => s.raw_data(r).map_err(|e| format!("raw_data: {:?}", e))?.to_vec(),
                None => Vec::new(),
            };
            Val::Stream(dict_from(&s.info, r)?, Bytes(data))
        }
    })
}
fn dict_from<R: Resolve>(d: &Dictionary, r: Option<&R>) -> Result<Vec<(Bytes, Val)>, String> {
    d.iter().map(|(k, v)| Ok((Bytes::new(k.as_str().as_bytes()), from_primitive(v, r)?))).collect()
}

pub fn from_primitive_nr(p: &Primitive) -> Val {
    from_primitive::<pdf::object::NoResolve>(p, None).unwrap()
}

/// Build a library primitive from a `Val` (names must be UTF-8; reals become f32; ints must fit i32).
pub fn to_primitive(v: &Val) -> Primitive {
    match v {
        Val::Null => Primitive::Null,
        Val::Bool(b) => Primitive::Boolean(*b),
        Val::Int(i) => Primitive::Integer(*i as i32),
        Val::Real(r) => Primitive::Number(*r as f32),
        Val::Str(s) => Primitive::String(PdfString::new(s.as_slice().into())),
        Val::Name(n) => Primitive::Name(String::from_utf8_lossy(n).as_ref().into()),
        Val::Array(a) => Primitive::Array(a.iter().map(to_primitive).collect()),
        Val::Dict(d) => Primitive::Dictionary(to_dict(d)),
        Val::Ref(id, gen) => Primitive::Reference(PlainRef { id: *id, gen: *gen }),
        Val::Stream(d, data) => {
            let s = pdf::object::Stream::new(to_dict(d), data.0.clone());
            // Stream<Dictionary>::to_pdf_stream adds /Length
            Primitive::Stream(s.to_pdf_stream(&mut pdf::object::NoUpdate).expect("to_pdf_stream"))
        }
    }
}
pub fn to_dict(d: &[(Bytes, Val)]) -> Dictionary {
    let mut out = Dictionary::new();
    for (k, v) in d {
        out.insert(String::from_utf8_lossy(k).as_ref(), to_primitive(v));
    }
    out
}

/// PDF-like rendering of a canonical value for messages.
pub fn show(c: &Canon) -> String {
    fn esc(b: &[u8]) -> String {
        b.iter().map(|&x| if (0x20..0x7f).contains(&x) && x != b'\\' { (x as char).to_string() } else { format!("\\x{:02x}", x) }).collect()
    }
    fn dict(d: &[(Vec<u8>, Canon)]) -> String {
        format!("<<{}>>", d.iter().map(|(k, v)| format!(" /{} {}", esc(k), show(v))).collect::<String>() + " ")
    }
    match c {
        Canon::Null => "null".into(),
        Canon::Bool(b) => b.to_string(),
        Canon::Num(n) => format!("{}", n),
        Canon::Str(s) => format!("({})", esc(s)),
        Canon::Name(n) => format!("/{}", esc(n)),
        Canon::Array(a) => format!("[{}]", a.iter().map(show).collect::<Vec<_>>().join(" ")),
        Canon::Dict(d) => dict(d),
        Canon::Ref(a, b) => format!("{} {} R", a, b),
        Canon::Stream(d, data) => format!("{} stream({} bytes: {})", dict(d), data.len(), esc(&data[..data.len().min(24)])),
    }
}
