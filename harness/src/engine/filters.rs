//! Reference encoders and decoders written from ISO 32000-1 §7.4 (independent of `pdf::enc`).
//! Flate comes from flate2/miniz_oxide (the library uses libflate).
use super::tape::Tape;
use std::io::{Read, Write};

// ---------------------------------------------------------------- ASCIIHex

pub fn hex_encode(data: &[u8], t: &mut Tape) -> Vec<u8> {
    let upper = t.choose(3); // 0 lower, 1 upper, 2 mixed
    let ws = t.opt("hex-whitespace", 60);
    let mut out = Vec::with_capacity(data.len() * 2 + 8);
    let mut n = 0usize;
    for &b in data {
        for nib in [b >> 4, b & 15] {
            let up = match upper {
                0 => false,
                1 => true,
                _ => t.byte() & 1 == 1,
            };
            let c = if nib < 10 { b'0' + nib } else if up { b'A' + nib - 10 } else { b'a' + nib - 10 };
            out.push(c);
            n += 1;
            if ws && (n % 7 == 0 || t.byte() > 240) {
                out.push([b' ', b'\n', b'\r', b'\t', 0x0c, 0][t.choose(6)]);
            }
        }
    }
    // a final 0 nibble may be omitted: "if the filter encounters the EOD marker after reading an odd
    // number of hexadecimal digits, it shall behave as if a 0 followed the last digit"
    if !data.is_empty() && data[data.len() - 1] & 15 == 0 && t.opt("hex-odd-final-digit", 90) {
        // remove the trailing '0' digit (skipping white-space we may have appended after it)
        while let Some(&c) = out.last() {
            out.pop();
            if c == b'0' {
                break;
            }
        }
    }
    out.push(b'>');
    out
}

/// Lenient reference decoder (accepts a missing EOD marker).
pub fn hex_decode_ref(data: &[u8]) -> Result<Vec<u8>, String> {
    let mut out = Vec::new();
    let mut hi: Option<u8> = None;
    for &c in data {
        let nib = match c {
            b'0'..=b'9' => c - b'0',
            b'a'..=b'f' => c - b'a' + 10,
            b'A'..=b'F' => c - b'A' + 10,
            0 | 9 | 10 | 12 | 13 | 32 => continue,
            b'>' => break,
            _ => return Err(format!("illegal character {:#x} in ASCIIHex data", c)),
        };
        match hi.take() {
            None => hi = Some(nib),
            Some(h) => out.push(h << 4 | nib),
        }
    }
    if let Some(h) = hi {
        out.push(h << 4);
    }
    Ok(out)
}

// ---------------------------------------------------------------- ASCII85

pub fn a85_encode(data: &[u8], t: &mut Tape) -> Vec<u8> {
    let use_z = t.choose(4) != 1; // mostly use the z shorthand, sometimes spell !!!!!
    let ws = t.opt("a85-whitespace", 80);
    let mut out = Vec::new();
    let mut col = 0usize;
    let mut push = |out: &mut Vec<u8>, c: u8, t: &mut Tape| {
        out.push(c);
        col += 1;
        if ws && (col % 60 == 0 || t.byte() > 245) {
            out.push([b'\n', b' ', b'\r', b'\t', 0x0c, 0][t.choose(6)]);
        }
    };
    let mut chunks = data.chunks_exact(4);
    for ch in chunks.by_ref() {
        let n = u32::from_be_bytes([ch[0], ch[1], ch[2], ch[3]]);
        if n == 0 && use_z {
            push(&mut out, b'z', t);
        } else {
            let mut d = [0u8; 5];
            let mut m = n;
            for i in (0..5).rev() {
                d[i] = (m % 85) as u8 + b'!';
                m /= 85;
            }
            for c in d {
                push(&mut out, c, t);
            }
        }
    }
    let r = chunks.remainder();
    if !r.is_empty() {
        let mut c4 = [0u8; 4];
        c4[..r.len()].copy_from_slice(r);
        let mut m = u32::from_be_bytes(c4);
        let mut d = [0u8; 5];
        for i in (0..5).rev() {
            d[i] = (m % 85) as u8 + b'!';
            m /= 85;
        }
        for &c in &d[..r.len() + 1] {
            push(&mut out, c, t);
        }
    }
    out.extend_from_slice(b"~>");
    out
}

pub fn a85_decode_ref(data: &[u8]) -> Result<Vec<u8>, String> {
    let mut out = Vec::new();
    let mut group: Vec<u8> = Vec::new();
    let mut i = 0;
    let mut eod = false;
    while i < data.len() {
        let c = data[i];
        i += 1;
        match c {
            0 | 9 | 10 | 12 | 13 | 32 => continue,
            b'~' => {
                // skip white-space, expect '>'
                while i < data.len() && matches!(data[i], 0 | 9 | 10 | 12 | 13 | 32) {
                    i += 1;
                }
                if data.get(i) != Some(&b'>') {
                    return Err("~ not followed by >".into());
                }
                eod = true;
                break;
            }
            b'z' => {
                if !group.is_empty() {
                    return Err("z inside a group".into());
                }
                out.extend_from_slice(&[0; 4]);
            }
            b'!'..=b'u' => {
                group.push(c - b'!');
                if group.len() == 5 {
                    let mut n: u64 = 0;
                    for &g in &group {
                        n = n * 85 + g as u64;
                    }
                    if n > u32::MAX as u64 {
                        return Err("group value exceeds 2^32-1".into());
                    }
                    out.extend_from_slice(&(n as u32).to_be_bytes());
                    group.clear();
                }
            }
            _ => return Err(format!("illegal character {:#x} in ASCII85 data", c)),
        }
    }
    if !eod {
        return Err("missing EOD ~>".into());
    }
    if !group.is_empty() {
        if group.len() == 1 {
            return Err("final partial group of one character".into());
        }
        let k = group.len();
        while group.len() < 5 {
            group.push(84);
        }
        let mut n: u64 = 0;
        for &g in &group {
            n = n * 85 + g as u64;
        }
        if n > u32::MAX as u64 {
            return Err("partial group value exceeds 2^32-1".into());
        }
        out.extend_from_slice(&(n as u32).to_be_bytes()[..k - 1]);
    }
    Ok(out)
}

// ---------------------------------------------------------------- RunLength

pub fn rl_encode(data: &[u8], t: &mut Tape) -> Vec<u8> {
    let mut out = Vec::new();
    let mut i = 0;
    let greedy = t.choose(3) == 0;
    while i < data.len() {
        // run length at i
        let mut run = 1;
        while i + run < data.len() && data[i + run] == data[i] && run < 128 {
            run += 1;
        }
        let use_run = run >= 2 && (greedy || t.byte() % 4 != 0);
        if use_run {
            let n = if greedy { run } else { 2 + (t.byte() as usize) % (run - 1) };
            out.push((257 - n) as u8);
            out.push(data[i]);
            i += n;
        } else {
            // literal of 1..=128 bytes
            let max = (data.len() - i).min(128);
            let n = if greedy {
                // up to the next run of >= 3
                let mut n = 1;
                while n < max {
                    let j = i + n;
                    if j + 2 < data.len() && data[j] == data[j + 1] && data[j] == data[j + 2] {
                        break;
                    }
                    n += 1;
                }
                n
            } else {
                1 + (t.byte() as usize) % max
            };
            out.push((n - 1) as u8);
            out.extend_from_slice(&data[i..i + n]);
            i += n;
        }
    }
    out.push(128);
    out
}

pub fn rl_decode_ref(data: &[u8]) -> Result<Vec<u8>, String> {
    let mut out = Vec::new();
    let mut i = 0;
    loop {
        let Some(&l) = data.get(i) else { return Err("missing EOD".into()) };
        i += 1;
        if l == 128 {
            return Ok(out);
        } else if l < 128 {
            let n = l as usize + 1;
            if i + n > data.len() {
                return Err("literal run past end".into());
            }
            out.extend_from_slice(&data[i..i + n]);
            i += n;
        } else {
            let Some(&b) = data.get(i) else { return Err("repeat without byte".into()) };
            i += 1;
            out.extend(std::iter::repeat(b).take(257 - l as usize));
        }
    }
}

// ---------------------------------------------------------------- LZW

struct BitWriter {
    out: Vec<u8>,
    acc: u32,
    nbits: u32,
}
impl BitWriter {
    fn new() -> Self {
        BitWriter { out: Vec::new(), acc: 0, nbits: 0 }
    }
    fn put(&mut self, code: u32, width: u32) {
        self.acc = (self.acc << width) | code;
        self.nbits += width;
        while self.nbits >= 8 {
            self.out.push((self.acc >> (self.nbits - 8)) as u8);
            self.nbits -= 8;
            self.acc &= (1 << self.nbits) - 1;
        }
    }
    fn finish(mut self) -> Vec<u8> {
        if self.nbits > 0 {
            self.out.push((self.acc << (8 - self.nbits)) as u8);
        }
        self.out
    }
}

/// Decoder-side code width rule (as in every mainstream implementation): after the decoder's
/// table has `next` entries, codes are read with this width.
fn lzw_width(next: u32, early: u32) -> u32 {
    let n = next + early;
    if n >= 2048 {
        12
    } else if n >= 1024 {
        11
    } else if n >= 512 {
        10
    } else {
        9
    }
}

/// LZW encoder.  `early` = the /EarlyChange value (0 or 1).  `clear_at` = table size at which a
/// ClearTable code is emitted (≤ 4094); additional clears are taken from the tape.
pub fn lzw_encode(data: &[u8], early: u32, t: &mut Tape) -> Vec<u8> {
    use std::collections::HashMap;
    let clear_at: u32 = match t.choose(4) {
        0 => 4094,
        1 => 4093 - (t.byte() as u32),
        2 => 300 + (t.byte() as u32) * 8,
        _ => 4094,
    };
    let initial_clear = t.choose(5) != 1; // most encoders start with a clear-table code
    let random_clears = t.opt("lzw-mid-clear", 50);
    let mut w = BitWriter::new();
    let mut dict: HashMap<(u32, u8), u32> = HashMap::new();
    let mut enc_next: u32 = 258; // next code the encoder assigns
    // decoder's table size at the time it reads the code we are about to emit
    let mut dec_next: u32 = 258;
    let mut first_after_clear = true;
    let mut emit = |w: &mut BitWriter, code: u32, dec_next: &mut u32, first_after_clear: &mut bool| {
        w.put(code, lzw_width(*dec_next, early));
        if code == 256 {
            *dec_next = 258;
            *first_after_clear = true;
        } else if code != 257 {
            if *first_after_clear {
                *first_after_clear = false;
            } else if *dec_next < 4096 {
                *dec_next += 1;
            }
        }
    };
    // The decoder adds an entry when it reads a code *and* has a previous code.  So after reading
    // code number k (k >= 2) since the last clear it has k-1 entries.  `emit` models exactly that:
    // width for the upcoming code is computed from the entries added so far.
    if initial_clear {
        emit(&mut w, 256, &mut dec_next, &mut first_after_clear);
    }
    let mut cur: Option<u32> = None;
    for &b in data {
        match cur {
            None => cur = Some(b as u32),
            Some(c) => {
                if let Some(&code) = dict.get(&(c, b)) {
                    cur = Some(code);
                } else {
                    emit(&mut w, c, &mut dec_next, &mut first_after_clear);
                    dict.insert((c, b), enc_next);
                    enc_next += 1;
                    cur = Some(b as u32);
                    if enc_next >= clear_at || (random_clears && t.byte() > 250) {
                        // flush nothing: `cur` is a single byte, emit clear before it
                        emit(&mut w, 256, &mut dec_next, &mut first_after_clear);
                        dict.clear();
                        enc_next = 258;
                    }
                }
            }
        }
    }
    if let Some(c) = cur {
        emit(&mut w, c, &mut dec_next, &mut first_after_clear);
    }
    emit(&mut w, 257, &mut dec_next, &mut first_after_clear);
    w.finish()
}

pub fn lzw_decode_ref(data: &[u8], early: u32) -> Result<Vec<u8>, String> {
    let mut out: Vec<u8> = Vec::new();
    // table of (prefix index, byte) with starts
    let mut table: Vec<(u32, u8, u32)> = Vec::with_capacity(4096); // (prev code, last byte, length)
    let reset = |table: &mut Vec<(u32, u8, u32)>| {
        table.clear();
        for i in 0..256u32 {
            table.push((u32::MAX, i as u8, 1));
        }
        table.push((u32::MAX, 0, 0)); // 256
        table.push((u32::MAX, 0, 0)); // 257
    };
    reset(&mut table);
    let mut acc: u32 = 0;
    let mut nbits: u32 = 0;
    let mut pos = 0usize;
    let mut prev: Option<u32> = None;
    fn expand(table: &[(u32, u8, u32)], mut code: u32, buf: &mut Vec<u8>) {
        let start = buf.len();
        loop {
            let (p, b, _) = table[code as usize];
            buf.push(b);
            if p == u32::MAX {
                break;
            }
            code = p;
        }
        buf[start..].reverse();
    }
    loop {
        let width = lzw_width(table.len() as u32, early);
        while nbits < width {
            let Some(&b) = data.get(pos) else {
                return Err("LZW data ended without EOD".into());
            };
            pos += 1;
            acc = (acc << 8) | b as u32;
            nbits += 8;
        }
        let code = (acc >> (nbits - width)) & ((1 << width) - 1);
        nbits -= width;
        acc &= (1 << nbits) - 1;
        if code == 256 {
            reset(&mut table);
            prev = None;
            continue;
        }
        if code == 257 {
            return Ok(out);
        }
        let start = out.len();
        if (code as usize) < table.len() {
            expand(&table, code, &mut out);
        } else if code as usize == table.len() && prev.is_some() {
            let p = prev.unwrap();
            expand(&table, p, &mut out);
            let first = out[start];
            out.push(first);
        } else {
            return Err(format!("LZW code {} beyond table {}", code, table.len()));
        }
        if let Some(p) = prev {
            if table.len() < 4096 {
                let first = out[start];
                let plen = table[p as usize].2;
                table.push((p, first, plen + 1));
            }
        }
        prev = Some(code);
    }
}

// ---------------------------------------------------------------- Flate

/// mode 0 = zlib framing (what /FlateDecode specifies), 1 = raw deflate
pub fn flate_encode(data: &[u8], raw: bool, level: u32) -> Vec<u8> {
    let lvl = flate2::Compression::new(level.min(9));
    if raw {
        let mut e = flate2::write::DeflateEncoder::new(Vec::new(), lvl);
        e.write_all(data).unwrap();
        e.finish().unwrap()
    } else {
        let mut e = flate2::write::ZlibEncoder::new(Vec::new(), lvl);
        e.write_all(data).unwrap();
        e.finish().unwrap()
    }
}
pub fn zlib_decode_ref(data: &[u8]) -> Result<Vec<u8>, String> {
    let mut d = flate2::read::ZlibDecoder::new(data);
    let mut out = Vec::new();
    d.read_to_end(&mut out).map_err(|e| format!("zlib: {}", e))?;
    Ok(out)
}
pub fn deflate_decode_ref(data: &[u8]) -> Result<Vec<u8>, String> {
    let mut d = flate2::read::DeflateDecoder::new(data);
    let mut out = Vec::new();
    d.read_to_end(&mut out).map_err(|e| format!("deflate: {}", e))?;
    Ok(out)
}

// ---------------------------------------------------------------- Predictors

#[derive(Clone, Copy, Debug, PartialEq, Eq, serde::Serialize, serde::Deserialize)]
pub struct Geometry {
    pub colors: u32,
    pub bpc: u32,
    pub columns: u32,
}
impl Geometry {
    pub fn row_bytes(&self) -> usize {
        ((self.colors * self.bpc * self.columns + 7) / 8) as usize
    }
    pub fn bpp(&self) -> usize {
        (((self.colors * self.bpc) + 7) / 8).max(1) as usize
    }
}

fn paeth(a: u8, b: u8, c: u8) -> u8 {
    let (ia, ib, ic) = (a as i32, b as i32, c as i32);
    let p = ia + ib - ic;
    let (pa, pb, pc) = ((p - ia).abs(), (p - ib).abs(), (p - ic).abs());
    if pa <= pb && pa <= pc {
        a
    } else if pb <= pc {
        b
    } else {
        c
    }
}

/// PNG prediction (encode side).  `pick(row)` chooses the filter type 0..=4 for each row.
/// `data.len()` must be a multiple of the row size.
pub fn png_encode(data: &[u8], g: Geometry, mut pick: impl FnMut(usize) -> u8) -> Vec<u8> {
    let rb = g.row_bytes();
    let bpp = g.bpp();
    assert!(rb > 0 && data.len() % rb == 0);
    let rows = data.len() / rb;
    let mut out = Vec::with_capacity(data.len() + rows);
    let zero = vec![0u8; rb];
    for r in 0..rows {
        let cur = &data[r * rb..(r + 1) * rb];
        let prev = if r == 0 { &zero[..] } else { &data[(r - 1) * rb..r * rb] };
        let ft = pick(r);
        out.push(ft);
        for i in 0..rb {
            let a = if i >= bpp { cur[i - bpp] } else { 0 };
            let b = prev[i];
            let c = if i >= bpp { prev[i - bpp] } else { 0 };
            let pred = match ft {
                0 => 0,
                1 => a,
                2 => b,
                3 => ((a as u16 + b as u16) / 2) as u8,
                4 => paeth(a, b, c),
                _ => unreachable!(),
            };
            out.push(cur[i].wrapping_sub(pred));
        }
    }
    out
}

pub fn png_decode_ref(data: &[u8], g: Geometry) -> Result<Vec<u8>, String> {
    let rb = g.row_bytes();
    let bpp = g.bpp();
    let mut out: Vec<u8> = Vec::new();
    let mut prev = vec![0u8; rb];
    for row in data.chunks(rb + 1) {
        if row.len() < rb + 1 {
            break;
        }
        let ft = row[0];
        let mut cur = vec![0u8; rb];
        for i in 0..rb {
            let a = if i >= bpp { cur[i - bpp] } else { 0 };
            let b = prev[i];
            let c = if i >= bpp { prev[i - bpp] } else { 0 };
            let pred = match ft {
                0 => 0,
                1 => a,
                2 => b,
                3 => ((a as u16 + b as u16) / 2) as u8,
                4 => paeth(a, b, c),
                _ => return Err(format!("bad PNG filter type {}", ft)),
            };
            cur[i] = row[1 + i].wrapping_add(pred);
        }
        out.extend_from_slice(&cur);
        prev = cur;
    }
    Ok(out)
}

fn unpack(row: &[u8], bpc: u32, n: usize) -> Vec<u32> {
    let mut v = Vec::with_capacity(n);
    let mut bit = 0usize;
    for _ in 0..n {
        let mut x = 0u32;
        for _ in 0..bpc {
            let byte = row[bit / 8];
            x = (x << 1) | ((byte >> (7 - bit % 8)) & 1) as u32;
            bit += 1;
        }
        v.push(x);
    }
    v
}
fn pack(samples: &[u32], bpc: u32, rb: usize) -> Vec<u8> {
    let mut out = vec![0u8; rb];
    let mut bit = 0usize;
    for &s in samples {
        for k in (0..bpc).rev() {
            if (s >> k) & 1 == 1 {
                out[bit / 8] |= 1 << (7 - bit % 8);
            }
            bit += 1;
        }
    }
    out
}

/// TIFF predictor 2 (horizontal differencing of samples), encode side.
pub fn tiff_encode(data: &[u8], g: Geometry) -> Vec<u8> {
    let rb = g.row_bytes();
    assert!(rb > 0 && data.len() % rb == 0);
    let n = (g.colors * g.columns) as usize;
    let mask = if g.bpc == 32 { u32::MAX } else { (1u32 << g.bpc) - 1 };
    let mut out = Vec::with_capacity(data.len());
    for row in data.chunks(rb) {
        let s = unpack(row, g.bpc, n);
        let mut d = s.clone();
        for i in (g.colors as usize..n).rev() {
            d[i] = s[i].wrapping_sub(s[i - g.colors as usize]) & mask;
        }
        out.extend_from_slice(&pack(&d, g.bpc, rb));
    }
    out
}
pub fn tiff_decode_ref(data: &[u8], g: Geometry) -> Vec<u8> {
    let rb = g.row_bytes();
    let n = (g.colors * g.columns) as usize;
    let mask = (1u32 << g.bpc) - 1;
    let mut out = Vec::with_capacity(data.len());
    for row in data.chunks(rb) {
        if row.len() < rb {
            out.extend_from_slice(row);
            break;
        }
        let mut s = unpack(row, g.bpc, n);
        for i in g.colors as usize..n {
            s[i] = s[i].wrapping_add(s[i - g.colors as usize]) & mask;
        }
        out.extend_from_slice(&pack(&s, g.bpc, rb));
    }
    out
}

#[cfg(test)]
mod tests {
    use super::*;
    #[test]
    fn lzw_spec_example() {
        // ISO 32000-1 7.4.4.2 example: 45 45 45 45 45 65 45 45 45 66 -> 80 0B 60 50 22 0C 0C 85 01
        let enc = [0x80, 0x0B, 0x60, 0x50, 0x22, 0x0C, 0x0C, 0x85, 0x01];
        assert_eq!(lzw_decode_ref(&enc, 1).unwrap(), vec![45, 45, 45, 45, 45, 65, 45, 45, 45, 66]);
        let mut t = Tape::new(&[]);
        assert_eq!(lzw_encode(&[45, 45, 45, 45, 45, 65, 45, 45, 45, 66], 1, &mut t), enc.to_vec());
    }
    #[test]
    fn lzw_against_weezl() {
        let mut data = Vec::new();
        let mut x = 99u32;
        for i in 0..90000 {
            x = x.wrapping_mul(1103515245).wrapping_add(12345);
            data.push(if i % 11 < 6 { (x >> 16) as u8 } else { (i / 9) as u8 });
        }
        for tape in [&[][..], &[1, 2, 3, 4, 5, 6, 7, 8, 9, 200, 255, 251, 252][..], &[2, 100, 1, 40, 255, 255][..]] {
            for early in [0u32, 1] {
                let mut t = Tape::new(tape);
                let e = lzw_encode(&data, early, &mut t);
                let mut dec = if early == 1 {
                    weezl::decode::Decoder::with_tiff_size_switch(weezl::BitOrder::Msb, 8)
                } else {
                    weezl::decode::Decoder::new(weezl::BitOrder::Msb, 8)
                };
                let mut out = Vec::new();
                dec.into_stream(&mut out).decode_all(&e[..]).status.unwrap();
                assert!(out == data, "weezl disagrees early={} tape={:?}", early, tape);
                // and weezl's encoder output decodes with the reference decoder
                let mut enc = if early == 1 {
                    weezl::encode::Encoder::with_tiff_size_switch(weezl::BitOrder::Msb, 8)
                } else {
                    weezl::encode::Encoder::new(weezl::BitOrder::Msb, 8)
                };
                let mut comp = Vec::new();
                enc.into_stream(&mut comp).encode_all(&data[..]).status.unwrap();
                assert!(lzw_decode_ref(&comp, early).unwrap() == data, "ref decoder vs weezl encoder early={}", early);
            }
        }
    }
    #[test]
    fn roundtrips() {
        let mut data = Vec::new();
        let mut x = 12345u32;
        for i in 0..70000 {
            x = x.wrapping_mul(1103515245).wrapping_add(12345);
            data.push(if i % 7 < 3 { (x >> 16) as u8 } else { (i / 5) as u8 });
        }
        for tape in [&[][..], &[1, 2, 3, 4, 5, 6, 7, 8, 9, 200, 255, 251, 252][..], &[2, 100, 1, 40, 255, 255][..]] {
            for early in [0, 1] {
                let mut t = Tape::new(tape);
                let e = lzw_encode(&data, early, &mut t);
                assert_eq!(lzw_decode_ref(&e, early).unwrap(), data);
            }
            let mut t = Tape::new(tape);
            assert_eq!(rl_decode_ref(&rl_encode(&data, &mut t)).unwrap(), data);
            let mut t = Tape::new(tape);
            assert_eq!(a85_decode_ref(&a85_encode(&data, &mut t)).unwrap(), data);
            let mut t = Tape::new(tape);
            assert_eq!(hex_decode_ref(&hex_encode(&data, &mut t)).unwrap(), data);
        }
        for (c, b, col) in [(1, 8, 5), (3, 8, 7), (4, 16, 3), (1, 1, 13), (3, 2, 5), (2, 4, 9)] {
            let g = Geometry { colors: c, bpc: b, columns: col };
            let rb = g.row_bytes();
            let d = &data[..rb * 11];
            let e = png_encode(d, g, |r| (r % 5) as u8);
            assert_eq!(png_decode_ref(&e, g).unwrap(), d);
            // TIFF round trip needs padding bits zero: mask by pack(unpack)
            let n = (c * col) as usize;
            let d2: Vec<u8> = d.chunks(rb).flat_map(|r| pack(&unpack(r, b, n), b, rb)).collect();
            assert_eq!(tiff_decode_ref(&tiff_encode(&d2, g), g), d2);
        }
    }
}
