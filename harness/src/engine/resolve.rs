//! A resolver over a plain buffer: no indirect objects, but stream ranges can be read back.
use pdf::enc::StreamFilter;
use pdf::error::{PdfError, Result};
use pdf::object::{Object, ParseOptions, PlainRef, RcRef, Ref, Resolve};
use pdf::parser::ParseFlags;
use pdf::primitive::Primitive;
use std::ops::Range;
use std::sync::Arc;

pub struct BufResolve<'a> {
    pub buf: &'a [u8],
    pub options: ParseOptions,
}
impl<'a> BufResolve<'a> {
    pub fn new(buf: &'a [u8]) -> Self {
        BufResolve { buf, options: ParseOptions::strict() }
    }
}
impl<'a> Resolve for BufResolve<'a> {
    fn resolve_flags(&self, _: PlainRef, _: ParseFlags, _: usize) -> Result<Primitive> {
        Err(PdfError::Reference)
    }
    fn get<T: Object + datasize::DataSize>(&self, _r: Ref<T>) -> Result<RcRef<T>> {
        Err(PdfError::Reference)
    }
    fn options(&self) -> &ParseOptions {
        &self.options
    }
    fn stream_data(&self, _id: PlainRef, range: Range<usize>) -> Result<Arc<[u8]>> {
        self.buf.get(range).map(|s| s.into()).ok_or(PdfError::ContentReadPastBoundary)
    }
    fn get_data_or_decode(&self, _id: PlainRef, range: Range<usize>, filters: &[StreamFilter]) -> Result<Arc<[u8]>> {
        let mut data: Vec<u8> = self.buf.get(range).ok_or(PdfError::ContentReadPastBoundary)?.to_vec();
        for f in filters {
            data = pdf::enc::decode(&data, f)?;
        }
        Ok(data.into())
    }
}
