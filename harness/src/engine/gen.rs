//! Shared proptest strategies.
use proptest::collection::vec;
use proptest::prelude::*;

/// A recipe for a byte string: concatenation of segments.  Shrinks by dropping / shortening segments.
#[derive(Clone, Debug)]
pub enum Segment {
    Literal(Vec<u8>),
    Run(u8, usize),
    /// pseudo-random bytes from a 32-bit LCG (a pure function of the generated seed)
    Noise(u32, usize),
    /// text-like bytes
    Text(Vec<u8>),
    /// repeat the last `window` bytes `times` times
    Repeat(usize, usize),
    /// an ascending ramp
    Ramp(u8, usize),
}

pub fn expand(segs: &[Segment], cap: usize) -> Vec<u8> {
    let mut out = Vec::new();
    for s in segs {
        match s {
            Segment::Literal(v) | Segment::Text(v) => out.extend_from_slice(v),
            Segment::Run(b, n) => out.extend(std::iter::repeat(*b).take(*n)),
            Segment::Noise(seed, n) => {
                let mut x = *seed | 1;
                for _ in 0..*n {
                    x = x.wrapping_mul(1664525).wrapping_add(1013904223);
                    out.push((x >> 24) as u8);
                }
            }
            Segment::Repeat(w, times) => {
                let w = (*w).min(out.len());
                if w > 0 {
                    let tail = out[out.len() - w..].to_vec();
                    for _ in 0..*times {
                        out.extend_from_slice(&tail);
                    }
                }
            }
            Segment::Ramp(start, n) => {
                for i in 0..*n {
                    out.push(start.wrapping_add(i as u8));
                }
            }
        }
        if out.len() > cap {
            out.truncate(cap);
            break;
        }
    }
    out
}

fn segment(big: bool) -> impl Strategy<Value = Segment> {
    let run_max = if big { 9000usize } else { 300 };
    let noise_max = if big { 30000usize } else { 200 };
    prop_oneof![
        4 => vec(any::<u8>(), 0..40).prop_map(Segment::Literal),
        3 => (any::<u8>(), 0..run_max).prop_map(|(b, n)| Segment::Run(b, n)),
        2 => (any::<u32>(), 0..noise_max).prop_map(|(s, n)| Segment::Noise(s, n)),
        2 => vec(prop_oneof![Just(b' '), Just(b'e'), Just(b't'), Just(b'a'), Just(b'\n'), 0x20u8..0x7f], 0..120).prop_map(Segment::Text),
        2 => (1usize..40, 0usize..(if big { 400 } else { 20 })).prop_map(|(w, t)| Segment::Repeat(w, t)),
        1 => (any::<u8>(), 0usize..600).prop_map(|(s, n)| Segment::Ramp(s, n)),
        1 => (prop_oneof![Just(0u8), Just(255u8), Just(128u8), Just(b'>'), Just(b'~'), Just(b'z')], 0usize..20).prop_map(|(b, n)| Segment::Run(b, n)),
    ]
}

/// Byte strings up to `cap` bytes: mostly short, sometimes long and structured.
pub fn data(cap: usize) -> impl Strategy<Value = Vec<u8>> {
    prop_oneof![
        5 => vec(any::<u8>(), 0..24),
        5 => vec(segment(false), 0..6).prop_map(move |s| expand(&s, cap)),
        2 => vec(segment(true), 1..8).prop_map(move |s| expand(&s, cap)),
    ]
}

/// Choice tape of length up to n, biased so that about half of the entries are 0 ("canonical").
pub fn tape(n: usize) -> impl Strategy<Value = Vec<u8>> {
    vec(prop_oneof![3 => Just(0u8), 5 => any::<u8>()], 0..n)
}

/// Monotone index mapping (keeps shrinking convergent): maps x in 0..=65535 onto 0..len
pub fn pick_index(x: u16, len: usize) -> usize {
    if len == 0 {
        0
    } else {
        ((x as usize) * len) >> 16
    }
}
