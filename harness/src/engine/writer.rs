//! E1: an independent PDF file writer (shares no code with `pdf`).  Imperative API: objects, object
//! streams, classic xref tables and xref streams, incremental updates, junk prefix, encryption.
use super::bytes::Bytes;
use super::crypt::Encryptor;
use super::filters as rf;
use super::printer::Printer;
use super::tape::Tape;
use super::val::Val;
use std::collections::BTreeMap;

#[derive(Clone, Copy, Debug, PartialEq, Eq)]
pub enum XEntry {
    Free { next: u64, gen: u64 },
    InUse { off: usize, gen: u64 },
    Compressed { stm: u64, idx: usize },
}

#[derive(Clone, Debug, PartialEq, serde::Serialize, serde::Deserialize)]
pub enum FilterSpec {
    AsciiHex,
    Ascii85,
    RunLength,
    Lzw { early: u32 },
    Flate { raw: bool, level: u32 },
}
impl FilterSpec {
    pub fn name(&self) -> &'static str {
        match self {
            FilterSpec::AsciiHex => "ASCIIHexDecode",
            FilterSpec::Ascii85 => "ASCII85Decode",
            FilterSpec::RunLength => "RunLengthDecode",
            FilterSpec::Lzw { .. } => "LZWDecode",
            FilterSpec::Flate { .. } => "FlateDecode",
        }
    }
    pub fn encode(&self, data: &[u8], t: &mut Tape) -> Vec<u8> {
        match self {
            FilterSpec::AsciiHex => rf::hex_encode(data, t),
            FilterSpec::Ascii85 => rf::a85_encode(data, t),
            FilterSpec::RunLength => rf::rl_encode(data, t),
            FilterSpec::Lzw { early } => rf::lzw_encode(data, *early, t),
            FilterSpec::Flate { raw, level } => rf::flate_encode(data, *raw, *level),
        }
    }
    pub fn parms(&self) -> Option<Val> {
        match self {
            FilterSpec::Lzw { early: 0 } => Some(Val::dict(vec![("EarlyChange", Val::Int(0))])),
            _ => None,
        }
    }
}

/// Encode `data` with a filter chain (given in *decode* order, as /Filter lists it) and return the
/// encoded bytes plus the /Filter and /DecodeParms entries.
pub fn encode_chain(data: &[u8], chain: &[FilterSpec], t: &mut Tape) -> (Vec<u8>, Vec<(Bytes, Val)>) {
    let mut cur = data.to_vec();
    for f in chain.iter().rev() {
        cur = f.encode(&cur, t);
    }
    let mut entries = Vec::new();
    if chain.len() == 1 && t.choose(2) == 0 {
        entries.push((Bytes::from("Filter"), Val::name(chain[0].name())));
        if let Some(p) = chain[0].parms() {
            entries.push((Bytes::from("DecodeParms"), p));
        }
    } else if !chain.is_empty() {
        entries.push((Bytes::from("Filter"), Val::Array(chain.iter().map(|f| Val::name(f.name())).collect())));
        if chain.iter().any(|f| f.parms().is_some()) {
            entries.push((Bytes::from("DecodeParms"), Val::Array(chain.iter().map(|f| f.parms().unwrap_or(Val::Null)).collect())));
        }
    }
    (cur, entries)
}

pub struct Writer {
    pub buf: Vec<u8>,
    /// position of the header (origin of all offsets)
    pub base: usize,
    pub pending: BTreeMap<u64, XEntry>,
    pub last_xref: Option<usize>,
    pub crypt: Option<Encryptor>,
    pub tape: Tape,
    /// a second, independent choice tape for layout decisions (so that they are not starved when the
    /// spelling of values has used up the first one)
    pub layout: Tape,
    /// every object written so far: final truth (num -> entry), newest wins
    pub truth: BTreeMap<u64, XEntry>,
    /// offsets (relative to base) of every xref section written
    pub xref_offsets: Vec<usize>,
    pub eol: &'static [u8],
    /// byte-level mutations applied to the printed body of the k-th object written (k = selector % 48):
    /// the damaged object still gets a correct offset, so the file keeps loading
    pub body_muts: Vec<(u16, super::mutate::Mutation)>,
    pub ordinal: u16,
}

impl Writer {
    pub fn new(prefix: &[u8], version: &str) -> Writer {
        let mut buf = prefix.to_vec();
        let base = buf.len();
        buf.extend_from_slice(format!("%PDF-{}\n", version).as_bytes());
        buf.extend_from_slice(b"%\xE2\xE3\xCF\xD3\n");
        Writer { buf, base, pending: BTreeMap::new(), last_xref: None, crypt: None, tape: Tape::new(&[]), layout: Tape::new(&[]), truth: BTreeMap::new(), xref_offsets: Vec::new(), eol: b"\n", body_muts: Vec::new(), ordinal: 0 }
    }
    /// continue an existing file (incremental update written by the harness)
    pub fn append_to(existing: Vec<u8>, base: usize, last_xref: usize) -> Writer {
        Writer { buf: existing, base, pending: BTreeMap::new(), last_xref: Some(last_xref), crypt: None, tape: Tape::new(&[]), layout: Tape::new(&[]), truth: BTreeMap::new(), xref_offsets: Vec::new(), eol: b"\n", body_muts: Vec::new(), ordinal: 0 }
    }
    pub fn set_tape(&mut self, data: &[u8]) {
        self.tape = Tape::new(data);
        let mut rev: Vec<u8> = data.iter().rev().cloned().collect();
        // mix so that short tapes still give varied layout choices
        for (i, b) in rev.iter_mut().enumerate() {
            *b = b.wrapping_mul(31).wrapping_add((i as u8).wrapping_mul(7));
        }
        let n = rev.len();
        let mut ext = rev.clone();
        for k in 0..32 {
            ext.push(if n == 0 { 0 } else { rev[k % n].wrapping_mul(13).wrapping_add(k as u8) });
        }
        self.layout = Tape::new(&ext);
    }
    pub fn off(&self) -> usize {
        self.buf.len() - self.base
    }
    fn record(&mut self, num: u64, e: XEntry) {
        self.pending.insert(num, e);
        self.truth.insert(num, e);
    }

    fn print_val(&mut self, v: &Val) -> Vec<u8> {
        let mut p = Printer::new(&mut self.tape);
        p.val(v);
        p.out
    }

    /// Encrypt strings (recursively) and stream data for object (num, gen).
    fn encrypted(&self, num: u64, gen: u64, v: &Val) -> Val {
        match &self.crypt {
            None => v.clone(),
            Some(c) => c.encrypt_val(num, gen, v),
        }
    }

    /// Write an indirect object.  Stream values must already carry their /Length entry.
    pub fn obj(&mut self, num: u64, gen: u64, v: &Val) -> usize {
        let off = self.off();
        let v = self.encrypted(num, gen, v);
        self.buf.extend_from_slice(format!("{} {} obj", num, gen).as_bytes());
        self.buf.extend_from_slice(self.eol);
        let mut body = self.print_val(&v);
        if !self.body_muts.is_empty() {
            let k = self.ordinal % 48;
            for (sel, m) in self.body_muts.clone() {
                if sel % 48 == k {
                    super::mutate::apply(&mut body, &m, &[]);
                }
            }
        }
        self.ordinal = self.ordinal.wrapping_add(1);
        self.buf.extend_from_slice(&body);
        self.buf.extend_from_slice(self.eol);
        self.buf.extend_from_slice(b"endobj");
        self.buf.extend_from_slice(self.eol);
        self.record(num, XEntry::InUse { off, gen });
        off
    }
    /// Write an object without recording an xref entry (garbage / shadowed bodies).
    pub fn obj_unlisted(&mut self, num: u64, gen: u64, v: &Val) -> usize {
        let keep_p = self.pending.get(&num).copied();
        let keep_t = self.truth.get(&num).copied();
        let off = self.obj(num, gen, v);
        match keep_p {
            Some(e) => self.pending.insert(num, e),
            None => self.pending.remove(&num),
        };
        match keep_t {
            Some(e) => self.truth.insert(num, e),
            None => self.truth.remove(&num),
        };
        off
    }

    /// A stream object: adds /Length (direct) to `dict`.
    pub fn stream_obj(&mut self, num: u64, gen: u64, dict: &[(Bytes, Val)], data: &[u8]) -> usize {
        let mut d: Vec<(Bytes, Val)> = dict.to_vec();
        // /Length counts the bytes as stored (after encryption, which may pad)
        let stored_len = match &self.crypt {
            Some(c) if !c.is_exempt_stream(num, dict) => c.stream_len(data.len()),
            _ => data.len(),
        };
        if !d.iter().any(|(k, _)| k.as_slice() == b"Length") {
            d.push((Bytes::from("Length"), Val::Int(stored_len as i64)));
        }
        self.obj(num, gen, &Val::Stream(d, Bytes(data.to_vec())))
    }

    pub fn free(&mut self, num: u64, next: u64, gen: u64) {
        self.record(num, XEntry::Free { next, gen });
    }

    /// Body of an object stream: returns (decoded body bytes, /First).
    pub fn objstm_body(&mut self, members: &[(u64, Val)], trailing_ws: bool) -> (Vec<u8>, usize) {
        let mut texts: Vec<Vec<u8>> = Vec::new();
        for (_, v) in members {
            texts.push(self.print_val(v));
        }
        let mut offs = Vec::new();
        let mut body = Vec::new();
        for (i, t) in texts.iter().enumerate() {
            offs.push(body.len());
            body.extend_from_slice(t);
            if i + 1 < texts.len() {
                // members are separated by white-space, which may be omitted where a delimiter
                // separates the two tokens anyway (e.g. "/A/B", "12<<...>>", "(a)(b)")
                let prev_regular = t.last().map(|&b| super::printer::is_regular(b) || b == b'/').unwrap_or(false);
                let next_delim = texts[i + 1].first().map(|&b| super::printer::is_delim(b)).unwrap_or(false);
                let may_elide = !prev_regular || next_delim;
                if may_elide && self.layout.opt("objstm-members-abut", 110) {
                    // nothing
                } else {
                    body.push([b' ', b'\n', b'\r'][self.tape.choose(3)]);
                }
            } else if trailing_ws {
                body.push(b'\n');
            }
        }
        let mut head = Vec::new();
        for (i, (num, _)) in members.iter().enumerate() {
            head.extend_from_slice(format!("{} {}", num, offs[i]).as_bytes());
            head.push(if self.tape.choose(2) == 0 { b' ' } else { b'\n' });
        }
        let first = head.len();
        head.extend_from_slice(&body);
        (head, first)
    }

    /// Write an object stream holding `members` and record their compressed entries.
    pub fn objstm(&mut self, stm: u64, members: &[(u64, Val)], chain: &[FilterSpec], trailing_ws: bool, extra: &[(Bytes, Val)]) -> usize {
        let (body, first) = self.objstm_body(members, trailing_ws);
        let mut t = std::mem::replace(&mut self.tape, Tape::new(&[]));
        let (enc, fentries) = encode_chain(&body, chain, &mut t);
        self.tape = t;
        let mut d: Vec<(Bytes, Val)> = vec![(Bytes::from("Type"), Val::name("ObjStm")), (Bytes::from("N"), Val::Int(members.len() as i64)), (Bytes::from("First"), Val::Int(first as i64))];
        d.extend(fentries);
        d.extend_from_slice(extra);
        let off = self.stream_obj(stm, 0, &d, &enc);
        for (i, (num, _)) in members.iter().enumerate() {
            self.record(*num, XEntry::Compressed { stm, idx: i });
        }
        off
    }

    fn trailer_dict(&self, size: u64, extra: &[(Bytes, Val)], prev: Option<usize>) -> Vec<(Bytes, Val)> {
        let mut d = vec![(Bytes::from("Size"), Val::Int(size as i64))];
        if let Some(p) = prev {
            d.push((Bytes::from("Prev"), Val::Int(p as i64)));
        }
        d.extend_from_slice(extra);
        d
    }

    /// Split the pending entries into subsections: maximal runs, optionally split further by the tape.
    fn subsections(&mut self, extra_split: bool) -> Vec<(u64, Vec<XEntry>)> {
        let mut out: Vec<(u64, Vec<XEntry>)> = Vec::new();
        for (&num, &e) in self.pending.iter() {
            let start_new = match out.last() {
                Some((first, v)) => first + v.len() as u64 != num,
                None => true,
            };
            let split_here = extra_split && !start_new && self.tape.byte() > 170;
            if start_new || split_here {
                out.push((num, vec![e]));
            } else {
                out.last_mut().unwrap().1.push(e);
            }
        }
        out
    }

    /// Classic cross-reference table + trailer + startxref/EOF for the pending entries.
    pub fn xref_table(&mut self, size: u64, trailer_extra: &[(Bytes, Val)], extra_split: bool) -> usize {
        let xoff = self.off();
        let subs = self.subsections(extra_split);
        self.buf.extend_from_slice(b"xref");
        self.buf.extend_from_slice(self.eol);
        for (first, entries) in subs {
            self.buf.extend_from_slice(format!("{} {}", first, entries.len()).as_bytes());
            self.buf.extend_from_slice(self.eol);
            for e in entries {
                let line = match e {
                    XEntry::InUse { off, gen } => format!("{:010} {:05} n", off, gen),
                    XEntry::Free { next, gen } => format!("{:010} {:05} f", next, gen),
                    XEntry::Compressed { .. } => panic!("harness: compressed entry in a classic table"),
                };
                self.buf.extend_from_slice(line.as_bytes());
                // 20-byte entries: two-character end-of-line
                self.buf.extend_from_slice(if self.tape.choose(2) == 0 { b" \n" } else { b"\r\n" });
            }
        }
        self.buf.extend_from_slice(b"trailer");
        self.buf.extend_from_slice(self.eol);
        let d = self.trailer_dict(size, trailer_extra, self.last_xref);
        let t = self.print_val(&Val::Dict(d));
        self.buf.extend_from_slice(&t);
        self.buf.extend_from_slice(self.eol);
        self.finish_section(xoff);
        xoff
    }

    /// Cross-reference stream (object `xnum`) for the pending entries (includes itself).
    pub fn xref_stream(&mut self, xnum: u64, size: u64, trailer_extra: &[(Bytes, Val)], extra_split: bool, chain: &[FilterSpec], wide: bool) -> usize {
        let xoff = self.off();
        self.pending.insert(xnum, XEntry::InUse { off: xoff, gen: 0 });
        self.truth.insert(xnum, XEntry::InUse { off: xoff, gen: 0 });
        let subs = self.subsections(extra_split);
        // field widths
        let mut max2: u64 = 0;
        let mut max3: u64 = 0;
        for (_, es) in &subs {
            for e in es {
                let (a, b) = match *e {
                    XEntry::Free { next, gen } => (next, gen),
                    XEntry::InUse { off, gen } => (off as u64, gen),
                    XEntry::Compressed { stm, idx } => (stm, idx as u64),
                };
                max2 = max2.max(a);
                max3 = max3.max(b);
            }
        }
        let bytes_for = |n: u64| -> usize {
            let mut k = 1;
            while k < 8 && (n >> (8 * k)) != 0 {
                k += 1;
            }
            k
        };
        let (mut w1, mut w2, mut w3) = (1usize, bytes_for(max2), bytes_for(max3));
        // a zero width means the field is absent and its default applies: type 1 (in use), third field 0
        let all_in_use = subs.iter().all(|(_, es)| es.iter().all(|e| matches!(e, XEntry::InUse { .. })));
        if all_in_use && self.layout.opt("xref-w-type-omitted", 128) {
            w1 = 0;
        }
        let third_all_zero = max3 == 0;
        if wide {
            w2 = (w2 + 1 + self.tape.choose(3)).min(8);
            w3 = (w3 + self.tape.choose(2)).min(8);
        } else if third_all_zero && self.layout.opt("xref-w-third-omitted", 100) {
            w3 = 0;
        }
        let mut data = Vec::new();
        let mut index = Vec::new();
        for (first, es) in &subs {
            index.push(Val::Int(*first as i64));
            index.push(Val::Int(es.len() as i64));
            for e in es {
                let (t, a, b) = match *e {
                    XEntry::Free { next, gen } => (0u8, next, gen),
                    XEntry::InUse { off, gen } => (1, off as u64, gen),
                    XEntry::Compressed { stm, idx } => (2, stm, idx as u64),
                };
                if w1 == 1 {
                    data.push(t);
                }
                data.extend_from_slice(&a.to_be_bytes()[8 - w2..]);
                data.extend_from_slice(&b.to_be_bytes()[8 - w3..]);
            }
        }
        let mut t = std::mem::replace(&mut self.tape, Tape::new(&[]));
        let (enc, fentries) = encode_chain(&data, chain, &mut t);
        self.tape = t;
        let mut d: Vec<(Bytes, Val)> = vec![(Bytes::from("Type"), Val::name("XRef"))];
        d.extend(self.trailer_dict(size, trailer_extra, self.last_xref));
        d.push((Bytes::from("W"), Val::Array(vec![Val::Int(w1 as i64), Val::Int(w2 as i64), Val::Int(w3 as i64)])));
        // /Index may be omitted when it equals [0 Size]
        let default_index = index.len() == 2 && index[0] == Val::Int(0) && index[1] == Val::Int(size as i64);
        if !(default_index && self.tape.choose(2) == 0) {
            d.push((Bytes::from("Index"), Val::Array(index)));
        }
        d.extend(fentries);
        d.push((Bytes::from("Length"), Val::Int(enc.len() as i64)));
        // xref streams are never encrypted
        let saved = self.crypt.take();
        let keep_pending = self.pending.clone();
        self.obj(xnum, 0, &Val::Stream(d, Bytes(enc)));
        self.crypt = saved;
        self.pending = keep_pending;
        self.finish_section(xoff);
        xoff
    }

    fn finish_section(&mut self, xoff: usize) {
        self.buf.extend_from_slice(b"startxref");
        self.buf.extend_from_slice(self.eol);
        self.buf.extend_from_slice(xoff.to_string().as_bytes());
        self.buf.extend_from_slice(self.eol);
        self.buf.extend_from_slice(b"%%EOF");
        self.buf.extend_from_slice(self.eol);
        self.last_xref = Some(xoff);
        self.xref_offsets.push(xoff);
        self.pending.clear();
    }

    pub fn finish(self) -> Vec<u8> {
        self.buf
    }
}

/// Convenience: a minimal valid catalog / page tree / page at objects (cat, pages, page).
pub fn minimal_catalog(cat: u64, pages: u64, page: u64, tag: i64) -> Vec<(u64, Val)> {
    vec![
        (cat, Val::dict(vec![("Type", Val::name("Catalog")), ("Pages", Val::Ref(pages, 0)), ("Tag", Val::Int(tag))])),
        (pages, Val::dict(vec![("Type", Val::name("Pages")), ("Kids", Val::Array(vec![Val::Ref(page, 0)])), ("Count", Val::Int(1)), ("Tag", Val::Int(tag))])),
        (page, Val::dict(vec![("Type", Val::name("Page")), ("Parent", Val::Ref(pages, 0)), ("MediaBox", Val::Array(vec![Val::Int(0), Val::Int(0), Val::Int(612), Val::Int(792)])), ("Tag", Val::Int(tag))])),
    ]
}
