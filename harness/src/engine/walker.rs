//! E4: the deep read walk of an opened document.  Produces a transcript of (call, outcome) pairs where the
//! outcome is a canonical digest of the value or the root-cause error kind.  The walker bounds itself
//! (visited sets, caps) so that harness cost is proportional to the file.
use super::errs;
use super::panics;
use super::val::{canon, from_primitive, Val};
use pdf::content::Op;
use pdf::error::PdfError;
use pdf::file::{Cache, File, Log, ScanItem};
use pdf::font::Font;
use pdf::object::*;
use pdf::primitive::{PdfString, Primitive};
use pdf::any::AnySync;
use std::collections::hash_map::DefaultHasher;
use std::collections::HashSet;
use std::hash::{Hash, Hasher};
use std::sync::Arc;

#[derive(Clone, Debug, PartialEq, Eq, serde::Serialize, serde::Deserialize)]
pub enum Out {
    Ok(String),
    Err(String),
    Panic(String),
}

#[derive(Clone, Debug, Default, serde::Serialize, serde::Deserialize)]
pub struct Transcript {
    pub entries: Vec<(String, Out)>,
}
impl Transcript {
    pub fn panics(&self) -> Vec<(String, String)> {
        self.entries.iter().filter_map(|(c, o)| if let Out::Panic(k) = o { Some((c.clone(), k.clone())) } else { None }).collect()
    }
    pub fn count_ok(&self) -> usize {
        self.entries.iter().filter(|(_, o)| matches!(o, Out::Ok(_))).count()
    }
    /// First difference between two transcripts, if any.
    pub fn diff(&self, other: &Transcript) -> Option<String> {
        for (i, (a, b)) in self.entries.iter().zip(other.entries.iter()).enumerate() {
            if a != b {
                return Some(format!("entry {}: {:?} vs {:?}", i, a, b));
            }
        }
        if self.entries.len() != other.entries.len() {
            return Some(format!("lengths differ: {} vs {} (next: {:?})", self.entries.len(), other.entries.len(), self.entries.get(other.entries.len()).or(other.entries.get(self.entries.len()))));
        }
        None
    }
}

#[derive(Clone, Debug)]
pub struct WalkOpts {
    pub deep: bool,
    pub raw_objects: bool,
    pub scan: bool,
    pub max_objects: u64,
    pub max_pages: u32,
    pub max_items: usize,
    /// include short value text in digests (handy for diagnostics; digests stay comparable)
    pub verbose: bool,
}
impl Default for WalkOpts {
    fn default() -> Self {
        WalkOpts { deep: true, raw_objects: true, scan: true, max_objects: 3000, max_pages: 40, max_items: 4000, verbose: false }
    }
}

pub fn h64(x: impl Hash) -> u64 {
    let mut s = DefaultHasher::new();
    x.hash(&mut s);
    s.finish()
}
fn hs(x: impl Hash) -> String {
    format!("{:016x}", h64(x))
}
fn bytes_digest(b: &[u8]) -> String {
    format!("{}B:{:016x}", b.len(), h64(b))
}

pub struct Walker<'a, R: Resolve> {
    pub r: &'a R,
    pub t: Transcript,
    pub opts: WalkOpts,
    seen_fonts: HashSet<u64>,
    seen_xobjects: HashSet<u64>,
    seen_resources: HashSet<u64>,
    items: usize,
    pub visited_objects: HashSet<u64>,
}

impl<'a, R: Resolve> Walker<'a, R> {
    pub fn new(r: &'a R, opts: WalkOpts) -> Self {
        Walker { r, t: Transcript::default(), opts, seen_fonts: HashSet::new(), seen_xobjects: HashSet::new(), seen_resources: HashSet::new(), items: 0, visited_objects: HashSet::new() }
    }

    fn budget(&mut self) -> bool {
        self.items += 1;
        self.items <= self.opts.max_items
    }

    /// Record one call; `f` returns a digest or an error.
    pub fn call<T>(&mut self, name: impl Into<String>, f: impl FnOnce() -> Result<(String, T), PdfError>) -> Option<T> {
        let name = name.into();
        let trace = std::env::var("VH_ALLOC_TRACE").is_ok();
        let region = if trace { Some(super::alloc::Region::start()) } else { None };
        let res = panics::catch(f);
        if let Some(r) = region {
            let (total, peak) = r.stop();
            if total > (4 << 20) {
                eprintln!("ALLOC {} total={} peak={}", name, total, peak);
            }
        }
        match res {
            Ok(Ok((d, v))) => {
                self.t.entries.push((name, Out::Ok(d)));
                Some(v)
            }
            Ok(Err(e)) => {
                self.t.entries.push((name, Out::Err(errs::root_kind(&e))));
                None
            }
            Err(p) => {
                let key = if p.in_lib { p.key() } else { format!("harness-{}", p.key()) };
                self.t.entries.push((name, Out::Panic(key)));
                None
            }
        }
    }
    fn note(&mut self, name: impl Into<String>, digest: String) {
        self.t.entries.push((name.into(), Out::Ok(digest)));
    }

    pub fn prim_digest(&self, p: &Primitive) -> Result<String, PdfError> {
        let v = from_primitive(p, Some(self.r)).map_err(|m| PdfError::Other { msg: m })?;
        Ok(self.val_digest(&v))
    }
    fn val_digest(&self, v: &Val) -> String {
        let c = canon(v);
        let text = format!("{:?}", c);
        if self.opts.verbose {
            format!("{}:{}", hs(&text), super::runner::truncate(&text, 80))
        } else {
            hs(&text)
        }
    }

    // ------------------------------------------------------------------ raw objects
    pub fn raw_object(&mut self, n: u64) {
        let r = self.r;
        let got = self.call(format!("resolve({})", n), || {
            let p = r.resolve(PlainRef { id: n, gen: 0 })?;
            let v = from_primitive(&p, Some(r)).map_err(|m| PdfError::Other { msg: m })?;
            Ok((hs(format!("{:?}", canon(&v))), p))
        });
        if let Some(p) = got {
            if let Primitive::Stream(_) = p {
                self.call(format!("stream-data({})", n), || {
                    let s = Stream::<()>::from_primitive(p.clone(), r)?;
                    let d = s.data(r)?;
                    Ok((bytes_digest(&d), ()))
                });
            }
            // typed load by /Type
            let ty = match &p {
                Primitive::Dictionary(d) => d.get("Type").and_then(|t| t.as_name().ok()).map(|s| s.to_string()),
                Primitive::Stream(s) => s.info.get("Type").and_then(|t| t.as_name().ok()).map(|s| s.to_string()),
                _ => None,
            };
            match ty.as_deref() {
                Some("Page") | Some("Pages") => {
                    self.call(format!("get<PagesNode>({})", n), || {
                        let node = r.get(Ref::<PagesNode>::from_id(n))?;
                        Ok((match *node { PagesNode::Leaf(_) => "leaf".into(), PagesNode::Tree(ref t) => format!("tree:{}:{}", t.count, t.kids.len()) }, ()))
                    });
                }
                Some("Font") => {
                    if let Some(f) = self.call(format!("get<Font>({})", n), || {
                        let f = r.get(Ref::<Font>::from_id(n))?;
                        Ok((format!("{:?}", f.subtype), f))
                    }) {
                        if self.opts.deep {
                            self.font(&format!("obj{}", n), &f, n);
                        }
                    }
                }
                Some("XObject") => {
                    self.xobject(&format!("obj{}", n), Ref::<XObject>::from_id(n), 2);
                }
                Some("Annot") => {
                    self.call(format!("get<Annot>({})", n), || {
                        let a = r.get(Ref::<Annot>::from_id(n))?;
                        Ok((format!("{}:{:?}", a.subtype.as_str(), a.rect.map(|r| (r.left.to_bits(), r.top.to_bits()))), ()))
                    });
                }
                Some("ObjStm") => {
                    self.call(format!("get<ObjectStream>({})", n), || {
                        let s = r.get(Ref::<ObjectStream>::from_id(n))?;
                        Ok((format!("{}", s.n_objects()), ()))
                    });
                }
                _ => {}
            }
        }
    }

    // ------------------------------------------------------------------ fonts
    pub fn font(&mut self, ctx: &str, f: &Font, id: u64) {
        if id != 0 && !self.seen_fonts.insert(id) {
            return;
        }
        if !self.budget() {
            return;
        }
        let r = self.r;
        self.note(format!("{}.font.subtype", ctx), format!("{:?}:{:?}:cid={}", f.subtype, f.name.as_ref().map(|n| n.as_str().to_string()), f.is_cid()));
        self.call(format!("{}.font.widths", ctx), || {
            let w = f.widths(r)?;
            let d = match w {
                None => "none".to_string(),
                Some(w) => {
                    let probes = [0usize, 1, 31, 32, 65, 97, 127, 128, 255, 256, 257, 1000, 4095, 65535, 65536, 1 << 20];
                    hs(probes.iter().map(|&c| w.get(c).to_bits()).collect::<Vec<u32>>())
                }
            };
            Ok((d, ()))
        });
        self.call(format!("{}.font.to_unicode", ctx), || match f.to_unicode(r) {
            None => Ok(("none".into(), ())),
            Some(m) => {
                let m = m?;
                let mut items: Vec<(u16, String)> = m.iter().map(|(k, v)| (k, v.to_string())).collect();
                items.sort();
                Ok((format!("{}:{}", m.len(), hs(&items)), ()))
            }
        });
        self.call(format!("{}.font.embedded_data", ctx), || match f.embedded_data(r) {
            None => Ok(("none".into(), ())),
            Some(d) => Ok((bytes_digest(&d?), ())),
        });
        self.call(format!("{}.font.encoding", ctx), || {
            let d = match f.encoding() {
                None => "none".to_string(),
                Some(e) => {
                    let mut diffs: Vec<(u32, String)> = e.differences.iter().map(|(k, v)| (*k, v.to_string())).collect();
                    diffs.sort();
                    format!("{:?}:{}", e.base, hs(&diffs))
                }
            };
            Ok((d, ()))
        });
        self.call(format!("{}.font.cid_to_gid", ctx), || {
            Ok((match f.cid_to_gid_map() { None => "none".into(), Some(pdf::font::CidToGidMap::Identity) => "identity".into(), Some(pdf::font::CidToGidMap::Table(t)) => format!("table:{}", hs(t)) }, ()))
        });
        self.note(format!("{}.font.info", ctx), match f.info() { None => "none".into(), Some(i) => format!("{:?}:{:?}:{:?}", i.first_char, i.last_char, i.widths.as_ref().map(|w| w.len())) });
    }

    // ------------------------------------------------------------------ xobjects
    pub fn xobject(&mut self, ctx: &str, x: Ref<XObject>, depth: usize) {
        let id = x.get_inner().id;
        if !self.seen_xobjects.insert(id) || !self.budget() {
            return;
        }
        let r = self.r;
        let Some(xo) = self.call(format!("{}.get<XObject>({})", ctx, id), || {
            let xo = r.get(x)?;
            let kind = match *xo {
                XObject::Image(_) => "image",
                XObject::Form(_) => "form",
                XObject::Postscript(_) => "ps",
            };
            Ok((kind.to_string(), xo))
        }) else {
            return;
        };
        match *xo {
            XObject::Image(ref im) => self.image(&format!("{}.x{}", ctx, id), im),
            XObject::Form(ref form) => {
                let c = format!("{}.x{}", ctx, id);
                self.note(format!("{}.form.bbox", c), format!("{:?}", (form.dict().bbox.left.to_bits(), form.dict().bbox.right.to_bits(), form.dict().form_type)));
                self.call(format!("{}.form.operations", c), || {
                    let ops = form.operations(r)?;
                    Ok((ops_digest(&ops), ()))
                });
                if depth > 0 {
                    if let Some(res) = form.dict().resources.as_ref() {
                        let rid = res.as_ref().map(|r| r.get_inner().id).unwrap_or(0);
                        self.resources(&c, res, rid, depth - 1);
                    }
                }
            }
            XObject::Postscript(ref ps) => {
                self.call(format!("{}.x{}.ps.data", ctx, id), || Ok((bytes_digest(&ps.data(r)?), ())));
            }
        }
    }

    pub fn image(&mut self, ctx: &str, im: &ImageXObject) {
        let r = self.r;
        self.note(format!("{}.image.dims", ctx), format!("{}x{}:{:?}:mask={}", im.width, im.height, im.bits_per_component, im.image_mask));
        self.call(format!("{}.image.raw_image_data", ctx), || {
            let (d, f) = im.raw_image_data(r)?;
            Ok((format!("{}:{}", bytes_digest(&d), f.map(filter_name).unwrap_or("none")), ()))
        });
        self.call(format!("{}.image.image_data", ctx), || Ok((bytes_digest(&im.image_data(r)?), ())));
        self.call(format!("{}.image.stream_data", ctx), || Ok((bytes_digest(&im.inner.data(r)?), ())));
        if let Some(cs) = im.color_space.as_ref() {
            self.color_space(&format!("{}.image.cs", ctx), cs);
        }
        if let Some(sm) = im.smask {
            self.call(format!("{}.image.smask", ctx), || {
                let s = r.get(sm)?;
                Ok((format!("{}x{}:{}", s.info.width, s.info.height, bytes_digest(&Stream::data(&s, r)?)), ()))
            });
        }
    }

    pub fn color_space(&mut self, ctx: &str, cs: &ColorSpace) {
        let r = self.r;
        let d = match cs {
            ColorSpace::DeviceGray => "gray".to_string(),
            ColorSpace::DeviceRGB => "rgb".into(),
            ColorSpace::DeviceCMYK => "cmyk".into(),
            ColorSpace::Pattern => "pattern".into(),
            ColorSpace::Named(n) => format!("named:{}", n.as_str()),
            ColorSpace::CalGray(d) | ColorSpace::CalRGB(d) | ColorSpace::CalCMYK(d) => format!("cal:{}", self.prim_digest(&Primitive::Dictionary(d.clone())).unwrap_or_else(|_| "?".into())),
            ColorSpace::Other(v) => format!("other:{}", v.len()),
            ColorSpace::Indexed(base, hival, lookup) => {
                let d = format!("indexed:{}:{}", hival, bytes_digest(lookup));
                self.color_space(&format!("{}.base", ctx), base);
                d
            }
            ColorSpace::Separation(name, alt, f) => {
                self.color_space(&format!("{}.alt", ctx), alt);
                self.function(&format!("{}.tint", ctx), f);
                format!("separation:{}", name.as_str())
            }
            ColorSpace::DeviceN { names, alt, tint, .. } => {
                self.color_space(&format!("{}.alt", ctx), alt);
                self.function(&format!("{}.tint", ctx), tint);
                format!("devicen:{}", names.len())
            }
            ColorSpace::Icc(s) => {
                let s = s.clone();
                self.call(format!("{}.icc.data", ctx), || Ok((format!("n={}:{}", s.info.components, bytes_digest(&Stream::data(&s, r)?)), ())));
                if let Some(alt) = s.info.alternate.as_ref() {
                    self.color_space(&format!("{}.icc.alt", ctx), alt);
                }
                "icc".into()
            }
        };
        self.note(ctx.to_string(), d);
    }

    pub fn function(&mut self, ctx: &str, f: &Function) {
        // apply only on the variants whose dimension accessors are defined
        let dims = match f {
            Function::Sampled(_) | Function::PostScript { .. } => Some((f.input_dim(), f.output_dim())),
            Function::Interpolated(parts) => Some((1, parts.len())),
            _ => None,
        };
        let Some((i, o)) = dims else {
            self.note(format!("{}.fn", ctx), "unsupported-kind".into());
            return;
        };
        if i > 32 || o > 32 {
            self.note(format!("{}.fn", ctx), format!("dims {}x{}", i, o));
            return;
        }
        for x in [0.0f32, 0.5, 1.0, -1.0, 2.0] {
            self.call(format!("{}.fn.apply({})", ctx, x), || {
                let inp = vec![x; i];
                let mut out = vec![0.0f32; o];
                f.apply(&inp, &mut out)?;
                Ok((hs(out.iter().map(|v| v.to_bits()).collect::<Vec<_>>()), ()))
            });
        }
    }

    // ------------------------------------------------------------------ resources
    pub fn resources(&mut self, ctx: &str, res: &Resources, id: u64, depth: usize) {
        if id != 0 && !self.seen_resources.insert(id) {
            return;
        }
        if !self.budget() {
            return;
        }
        let r = self.r;
        let mut keys: Vec<String> = Vec::new();
        let mut gs: Vec<_> = res.graphics_states.iter().collect();
        gs.sort_by(|a, b| a.0.as_str().cmp(b.0.as_str()));
        for (name, g) in gs {
            keys.push(format!("gs:{}", name.as_str()));
            self.note(format!("{}.gs[{}]", ctx, name.as_str()), format!("{:?}:{:?}:{:?}", g.line_width.map(|f| f.to_bits()), g.stroke_alpha.map(|f| f.to_bits()), g.font.map(|(r, s)| (r.get_inner().id, s.to_bits()))));
            if let Some((fr, _)) = g.font {
                let fid = fr.get_inner().id;
                if let Some(f) = self.call(format!("{}.gs[{}].font", ctx, name.as_str()), || {
                    let f = r.get(fr)?;
                    Ok((format!("{:?}", f.subtype), f))
                }) {
                    self.font(&format!("{}.gs[{}]", ctx, name.as_str()), &f, fid);
                }
            }
        }
        let mut css: Vec<_> = res.color_spaces.iter().collect();
        css.sort_by(|a, b| a.0.as_str().cmp(b.0.as_str()));
        for (name, cs) in css {
            keys.push(format!("cs:{}", name.as_str()));
            self.color_space(&format!("{}.cs[{}]", ctx, name.as_str()), cs);
        }
        let mut pats: Vec<_> = res.pattern.iter().collect();
        pats.sort_by(|a, b| a.0.as_str().cmp(b.0.as_str()));
        for (name, p) in pats {
            keys.push(format!("pat:{}", name.as_str()));
            let p = *p;
            self.call(format!("{}.pattern[{}]", ctx, name.as_str()), || {
                let pat = r.get(p)?;
                let d = pat.dict();
                let ops = match *pat {
                    Pattern::Stream(_, ref ops) => ops.len(),
                    Pattern::Dict(_) => 0,
                };
                Ok((format!("{:?}:{:?}:{}:{}", d.paint_type, d.tiling_type, d.x_step.to_bits(), ops), ()))
            });
        }
        let mut xos: Vec<_> = res.xobjects.iter().collect();
        xos.sort_by(|a, b| a.0.as_str().cmp(b.0.as_str()));
        for (name, x) in xos {
            keys.push(format!("xo:{}", name.as_str()));
            self.xobject(&format!("{}.xo[{}]", ctx, name.as_str()), *x, depth);
        }
        let mut fonts: Vec<_> = res.fonts.iter().collect();
        fonts.sort_by(|a, b| a.0.as_str().cmp(b.0.as_str()));
        for (name, lf) in fonts {
            keys.push(format!("font:{}", name.as_str()));
            if let Some(f) = self.call(format!("{}.font[{}].load", ctx, name.as_str()), || {
                let f = lf.load(r)?;
                Ok((format!("{:?}", f.subtype), f))
            }) {
                let fid = f.as_ref().map(|r| r.get_inner().id).unwrap_or(0);
                self.font(&format!("{}.font[{}]", ctx, name.as_str()), &f, fid);
            }
        }
        let mut props: Vec<_> = res.properties.iter().collect();
        props.sort_by(|a, b| a.0.as_str().cmp(b.0.as_str()));
        for (name, d) in props {
            keys.push(format!("prop:{}", name.as_str()));
            let dd = self.prim_digest(&Primitive::Dictionary((**d).clone())).unwrap_or_else(|e| format!("err:{}", errs::root_kind(&e)));
            self.note(format!("{}.prop[{}]", ctx, name.as_str()), dd);
        }
        self.note(format!("{}.resource-keys", ctx), keys.join(","));
    }

    // ------------------------------------------------------------------ pages
    pub fn page(&mut self, i: u32, page: &PageRc, deep: bool) {
        let r = self.r;
        let ctx = format!("page[{}]", i);
        self.note(format!("{}.id", ctx), format!("{}", page.get_ref().get_inner().id));
        self.call(format!("{}.media_box", ctx), || page.media_box().map(|b| (rect_digest(&b), ())));
        self.call(format!("{}.crop_box", ctx), || page.crop_box().map(|b| (rect_digest(&b), ())));
        self.note(format!("{}.trim_rotate", ctx), format!("{:?}:{}", page.trim_box.as_ref().map(rect_digest), page.rotate));
        let other = self.prim_digest(&Primitive::Dictionary(page.other.clone())).unwrap_or_else(|e| format!("err:{}", errs::root_kind(&e)));
        self.note(format!("{}.other", ctx), other);
        if !deep {
            return;
        }
        let res = self.call(format!("{}.resources", ctx), || {
            let res = page.resources()?;
            Ok(("present".into(), res.clone()))
        });
        if let Some(res) = res {
            let rid = res.as_ref().map(|r| r.get_inner().id).unwrap_or(0);
            self.resources(&ctx, &res, rid, 3);
        }
        if let Some(c) = page.contents.as_ref() {
            self.call(format!("{}.operations", ctx), || {
                let ops = c.operations(r)?;
                Ok((ops_digest(&ops), ()))
            });
        }
        let annots = self.call(format!("{}.annotations", ctx), || {
            let a = page.annotations.load(r)?;
            Ok((format!("{}", a.len()), a))
        });
        if let Some(annots) = annots {
            for (k, a) in annots.iter().enumerate().take(50) {
                self.note(format!("{}.annot[{}]", ctx, k), format!("{}:{:?}:{}", a.subtype.as_str(), a.rect.as_ref().map(rect_digest), a.annot_flags));
                if let Some(ap) = a.appearance_streams.as_ref() {
                    let n = ap.normal;
                    self.call(format!("{}.annot[{}].ap.normal", ctx, k), || {
                        let e = r.get(n)?;
                        Ok((ap_digest(&e, r)?, ()))
                    });
                }
            }
        }
    }

    // ------------------------------------------------------------------ catalog
    pub fn catalog(&mut self, cat: &Catalog) {
        let r = self.r;
        self.note("catalog.version", format!("{:?}", cat.version.as_ref().map(|v| v.as_str().to_string())));
        if let Some(pl) = cat.page_labels.as_ref() {
            self.call("catalog.page_labels.walk", || {
                let mut items = Vec::new();
                pl.walk(r, &mut |i, l| {
                    // (bounded: a hostile tree may call back without end, which must show as time, not as harness memory)
                    if items.len() < 100_000 {
                        items.push((i, l.prefix.as_ref().map(|p| p.as_bytes().to_vec()), l.start))
                    }
                })?;
                Ok((format!("{}:{}", items.len(), hs(&items)), ()))
            });
        }
        if let Some(names) = cat.names.as_ref() {
            macro_rules! tree {
                ($field:ident, $name:expr, $val:expr) => {
                    if let Some(t) = names.$field.as_ref() {
                        self.call(format!("catalog.names.{}.walk", $name), || {
                            let mut items: Vec<(Vec<u8>, String)> = Vec::new();
                            t.walk(r, &mut |k: &PdfString, v| {
                                if items.len() < 100_000 {
                                    items.push((k.as_bytes().to_vec(), $val(v)))
                                }
                            })?;
                            Ok((format!("{}:{}", items.len(), hs(&items)), ()))
                        });
                    }
                };
            }
            let pd = |p: &Primitive| format!("{:?}", canon(&super::val::from_primitive_nr(p)));
            tree!(pages, "pages", pd);
            tree!(dests, "dests", |d: &Option<Dest>| format!("{:?}", d.as_ref().map(|d| d.page.map(|p| p.get_inner().id))));
            tree!(ap, "ap", pd);
            tree!(javascript, "javascript", pd);
            tree!(templates, "templates", pd);
            tree!(ids, "ids", pd);
            tree!(urls, "urls", pd);
            if let Some(t) = names.embedded_files.as_ref() {
                let files = self.call("catalog.names.embedded_files.walk", || {
                    let mut items: Vec<(Vec<u8>, Option<Ref<Stream<EmbeddedFile>>>)> = Vec::new();
                    t.walk(r, &mut |k: &PdfString, v: &FileSpec| {
                        if items.len() < 100_000 {
                            items.push((k.as_bytes().to_vec(), v.ef.as_ref().and_then(|e| e.f.or(e.uf))))
                        }
                    })?;
                    Ok((format!("{}", items.len()), items))
                });
                for (k, (name, sref)) in files.unwrap_or_default().into_iter().enumerate().take(20) {
                    if let Some(sref) = sref {
                        self.call(format!("catalog.names.embedded_files[{}].data", k), || {
                            let s = r.get(sref)?;
                            Ok((format!("{}:{}", hs(&name), bytes_digest(&Stream::data(&s, r)?)), ()))
                        });
                    }
                }
            }
        }
        if let Some(d) = cat.dests.as_ref() {
            let dd = self.prim_digest(&Primitive::Dictionary((**d).clone())).unwrap_or_else(|e| format!("err:{}", errs::root_kind(&e)));
            self.note("catalog.dests", dd);
        }
        if let Some(o) = cat.outlines.as_ref() {
            self.note("catalog.outlines", format!("{}:{:?}", o.count, o.first.map(|f| f.get_inner().id)));
            let mut seen = HashSet::new();
            let mut stack: Vec<Ref<OutlineItem>> = o.first.into_iter().collect();
            let mut n = 0;
            while let Some(item) = stack.pop() {
                if !seen.insert(item.get_inner().id) || n > 500 {
                    continue;
                }
                n += 1;
                let got = self.call(format!("outline({})", item.get_inner().id), || {
                    let it = r.get(item)?;
                    Ok((format!("{:?}:{}", it.title.as_ref().map(|t| t.as_bytes().to_vec()), it.count), it))
                });
                if let Some(it) = got {
                    if let Some(nx) = it.next {
                        stack.push(nx);
                    }
                    if let Some(f) = it.first {
                        stack.push(f);
                    }
                }
            }
        }
        if let Some(forms) = cat.forms.as_ref() {
            self.note("catalog.forms", format!("{}:{}", forms.fields.len(), forms.sig_flags));
            let mut seen = HashSet::new();
            let mut stack: Vec<Ref<FieldDictionary>> = forms.fields.iter().map(|f| f.get_ref()).collect();
            let mut n = 0;
            while let Some(fr) = stack.pop() {
                if !seen.insert(fr.get_inner().id) || n > 500 {
                    continue;
                }
                n += 1;
                let got = self.call(format!("field({})", fr.get_inner().id), || {
                    let f = r.get(fr)?;
                    Ok((format!("{:?}:{:?}:{}", f.typ, f.name.as_ref().map(|t| t.as_bytes().to_vec()), f.flags), f))
                });
                if let Some(f) = got {
                    stack.extend(f.kids.iter().cloned());
                }
            }
            if let Some(dr) = forms.dr.as_ref() {
                let rid = dr.as_ref().map(|r| r.get_inner().id).unwrap_or(0);
                self.resources("catalog.forms.dr", dr, rid, 2);
            }
        }
        if let Some(m) = cat.metadata {
            self.call("catalog.metadata.data", || {
                let s = r.get(m)?;
                Ok((bytes_digest(&Stream::data(&s, r)?), ()))
            });
        }
        if let Some(st) = cat.struct_tree_root.as_ref() {
            self.note("catalog.struct_tree_root", format!("{}", st.children.len()));
        }
    }

    pub fn finish(self) -> Transcript {
        self.t
    }
}

fn filter_name(f: &pdf::enc::StreamFilter) -> &'static str {
    use pdf::enc::StreamFilter::*;
    match f {
        ASCIIHexDecode => "AHx",
        ASCII85Decode => "A85",
        LZWDecode(_) => "LZW",
        FlateDecode(_) => "Fl",
        JPXDecode => "JPX",
        DCTDecode(_) => "DCT",
        CCITTFaxDecode(_) => "CCF",
        JBIG2Decode(_) => "JBIG2",
        Crypt => "Crypt",
        RunLengthDecode => "RL",
    }
}

fn rect_digest(b: &Rectangle) -> String {
    format!("[{} {} {} {}]", b.left, b.bottom, b.right, b.top)
}

fn ap_digest<R: Resolve>(e: &AppearanceStreamEntry, r: &R) -> Result<String, PdfError> {
    match e {
        AppearanceStreamEntry::Single(f) => Ok(format!("single:{}", ops_digest(&f.operations(r)?))),
        AppearanceStreamEntry::Dict(d) => {
            let mut keys: Vec<_> = d.keys().map(|k| k.as_str().to_string()).collect();
            keys.sort();
            Ok(format!("dict:{}", keys.join(",")))
        }
    }
}

/// Digest of an operation list (Debug of Op is deterministic except for inline images, which are summarised).
pub fn ops_digest(ops: &[Op]) -> String {
    let mut h = DefaultHasher::new();
    for op in ops {
        match op {
            Op::InlineImage { image } => {
                format!("inline:{}x{}", image.width, image.height).hash(&mut h);
            }
            op => format!("{:?}", op).hash(&mut h),
        }
    }
    format!("{}ops:{:016x}", ops.len(), h.finish())
}

/// Walk an opened file completely.
pub fn walk_file<OC, SC, L>(file: &File<Vec<u8>, OC, SC, L>, opts: &WalkOpts) -> Transcript
where
    OC: Cache<Result<AnySync, Arc<PdfError>>>,
    SC: Cache<Result<Arc<[u8]>, Arc<PdfError>>>,
    L: Log,
{
    let resolver = file.resolver();
    let mut w = Walker::new(&resolver, opts.clone());
    // trailer
    let tr = &file.trailer;
    w.note("trailer.size", format!("{}", tr.size));
    w.note("trailer.id", hs(tr.id.iter().map(|s| s.as_bytes().to_vec()).collect::<Vec<_>>()));
    w.note("trailer.info", match tr.info_dict.as_ref() {
        None => "none".into(),
        Some(i) => hs(format!("{:?}{:?}{:?}{:?}", i.title.as_ref().map(|s| s.as_bytes().to_vec()), i.author.as_ref().map(|s| s.as_bytes().to_vec()), i.producer.as_ref().map(|s| s.as_bytes().to_vec()), i.creator.as_ref().map(|s| s.as_bytes().to_vec()))),
    });
    w.note("trailer.encrypt", format!("{}", tr.encrypt_dict.is_some()));
    w.call("version", || file.version().map(|v| (v, ())));
    if opts.deep {
        w.catalog(file.get_root());
    }
    // pages
    let n = file.num_pages();
    w.note("num_pages", format!("{}", n));
    let mut idx: Vec<u32> = (0..n.min(opts.max_pages)).collect();
    if n > opts.max_pages {
        idx.push(n - 1);
    }
    idx.push(n);
    for i in idx {
        let p = w.call(format!("get_page({})", i), || {
            let p = file.get_page(i)?;
            Ok((format!("{}", p.get_ref().get_inner().id), p))
        });
        if let Some(p) = p {
            w.page(i, &p, opts.deep);
        }
    }
    // raw objects
    if opts.raw_objects {
        let size = (tr.size.max(0) as u64 + 2).min(opts.max_objects);
        for nr in 0..size {
            w.raw_object(nr);
        }
    }
    let mut t = w.finish();
    // recovery scan
    if opts.scan {
        let mut items: Vec<(String, Out)> = Vec::new();
        let res = panics::catch(|| {
            let mut k = 0usize;
            for item in file.scan() {
                k += 1;
                if k > 20000 {
                    break;
                }
                match item {
                    Ok(ScanItem::Object(r, p)) => {
                        let d = match from_primitive(&p, Some(&resolver)) {
                            Ok(v) => hs(format!("{:?}", canon(&v))),
                            Err(m) => format!("err:{}", m.chars().take(40).collect::<String>()),
                        };
                        items.push((format!("scan.object({},{})", r.id, r.gen), Out::Ok(d)));
                    }
                    Ok(ScanItem::Trailer(d)) => {
                        let v = super::val::from_primitive_nr(&Primitive::Dictionary(d));
                        items.push(("scan.trailer".into(), Out::Ok(hs(format!("{:?}", canon(&v))))));
                    }
                    Err(e) => {
                        items.push(("scan.error".into(), Out::Err(errs::root_kind(&e))));
                        break;
                    }
                }
            }
        });
        t.entries.extend(items);
        if let Err(p) = res {
            let key = if p.in_lib { p.key() } else { format!("harness-{}", p.key()) };
            t.entries.push(("scan".into(), Out::Panic(key)));
        }
    }
    t
}
