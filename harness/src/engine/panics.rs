//! Panic capture: a quiet hook that records (file, function, message) and a `catch` helper.
use std::cell::RefCell;
use std::panic::{catch_unwind, AssertUnwindSafe};
use std::sync::Once;

#[derive(Clone, Debug)]
pub struct PanicSig {
    pub file: String,
    pub func: String,
    pub msg: String,
    pub line: u32,
    /// true when a frame of the `pdf` crate is nearer to the panic than any harness frame
    pub in_lib: bool,
}
impl PanicSig {
    /// Stable signature: no line numbers, digits in the message collapsed.
    pub fn key(&self) -> String {
        let mut m = String::new();
        let mut last_digit = false;
        for c in self.msg.chars().take(80) {
            if c.is_ascii_digit() {
                if !last_digit {
                    m.push('N');
                }
                last_digit = true;
            } else {
                last_digit = false;
                m.push(c);
            }
        }
        format!("panic:{}:{}:{}", self.file, self.func, m)
    }
}

thread_local! {
    static LAST: RefCell<Option<PanicSig>> = RefCell::new(None);
    static QUIET: RefCell<bool> = RefCell::new(true);
}

static INSTALL: Once = Once::new();

fn short_file(f: &str) -> String {
    if let Some(i) = f.find("pdf/src/") {
        f[i..].to_string()
    } else if let Some(i) = f.find("pdf_derive/src/") {
        f[i..].to_string()
    } else if let Some(i) = f.rfind("/src/") {
        // dependency crate: keep crate dir name + file
        let head = &f[..i];
        let krate = head.rsplit('/').next().unwrap_or("");
        format!("{}{}", krate, &f[i..])
    } else {
        f.to_string()
    }
}

fn enclosing_function(file: &str) -> (String, bool) {
    // Find the first backtrace frame that belongs to the `pdf` crate.
    let bt = std::backtrace::Backtrace::force_capture().to_string();
    let in_pdf = file.starts_with("pdf/src/") || file.starts_with("pdf_derive");
    // skip the hook's own frames: everything up to rust_begin_unwind
    let text: &str = match bt.find("rust_begin_unwind") {
        Some(i) => &bt[i..],
        None => &bt,
    };
    let mut lines = text.lines().peekable();
    while let Some(l) = lines.next() {
        let l = l.trim();
        // frame lines look like "12: pdf::enc::run_length_decode"
        if let Some(pos) = l.find(": ") {
            let name = &l[pos + 2..];
            let is_pdf = name.starts_with("pdf::") || name.starts_with("<pdf::") || name.starts_with("pdf_derive::");
            if name.starts_with("vh::") || name.starts_with("<vh::") {
                return (String::from("?"), false);
            }
            if is_pdf {
                if in_pdf {
                    // check the "at" line matches the file, if available
                    if let Some(at) = lines.peek() {
                        if !at.contains(file) {
                            continue;
                        }
                    }
                }
                // strip generic hashes
                let mut n = name.to_string();
                if let Some(i) = n.rfind("::h") {
                    if n.len() - i == 19 {
                        n.truncate(i);
                    }
                }
                n = n.replace("::{{closure}}", "");
                return (n, true);
            }
        }
    }
    (String::from("?"), false)
}

pub fn install() {
    INSTALL.call_once(|| {
        let default = std::panic::take_hook();
        std::panic::set_hook(Box::new(move |info| {
            let (file, line) = info.location().map(|l| (short_file(l.file()), l.line())).unwrap_or_default();
            let msg = if let Some(s) = info.payload().downcast_ref::<&str>() {
                s.to_string()
            } else if let Some(s) = info.payload().downcast_ref::<String>() {
                s.clone()
            } else {
                String::from("<non-string panic>")
            };
            let (func, in_lib) = enclosing_function(&file);
            let quiet = QUIET.with(|q| *q.borrow());
            LAST.with(|l| *l.borrow_mut() = Some(PanicSig { file, func, msg, line, in_lib }));
            if !quiet {
                default(info);
            }
        }));
    });
}

pub fn set_quiet(q: bool) {
    QUIET.with(|c| *c.borrow_mut() = q);
}

/// Run `f`, turning a panic into `Err(PanicSig)`.
pub fn catch<R>(f: impl FnOnce() -> R) -> Result<R, PanicSig> {
    install();
    LAST.with(|l| *l.borrow_mut() = None);
    match catch_unwind(AssertUnwindSafe(f)) {
        Ok(r) => Ok(r),
        Err(_) => Err(LAST.with(|l| l.borrow_mut().take()).unwrap_or(PanicSig {
            file: "?".into(),
            func: "?".into(),
            msg: "panic without hook info".into(),
            line: 0,
            in_lib: false,
        })),
    }
}

pub fn last() -> Option<PanicSig> {
    LAST.with(|l| l.borrow().clone())
}
