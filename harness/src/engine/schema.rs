//! E9 — typed-model inventory: a "zoo" document of support objects, one full instance (template) per model,
//! and the dispatch from a model name to the library's reader and writer.  Drives C15 and C18.
use crate::engine::bytes::Bytes;
use crate::engine::open::UncachedFile;
use crate::engine::reader::Lex;
use crate::engine::val::Val;
use crate::engine::writer::Writer;
use pdf::error::PdfError;
use pdf::object::*;
use pdf::primitive::{Date, Dictionary, Name, PdfString, Primitive};

/// Parse one object written in PDF syntax (harness tables only).
pub fn parse(text: &str) -> Val {
    Lex::new(text.as_bytes(), 0).object(0).unwrap_or_else(|e| panic!("schema text {:?}: {}", text, e))
}

/// Object number of the instance under test in a case file; auxiliary objects of the case follow it.
pub const SUBJECT: u64 = 100;
/// First object number that is not in the zoo (dangling "gap" references use numbers between the zoo and SUBJECT).
pub const ZOO_END: u64 = 40;

/// (number, dictionary or other value, stream data)
pub fn zoo() -> Vec<(u64, Val, Option<Vec<u8>>)> {
    let t: Vec<(u64, &str, Option<&[u8]>)> = vec![
        (1, "<< /Type /Catalog /Pages 2 0 R >>", None),
        (2, "<< /Type /Pages /Kids [3 0 R] /Count 1 /MediaBox [0 0 612 792] >>", None),
        (3, "<< /Type /Page /Parent 2 0 R /Resources 8 0 R /Contents 4 0 R >>", None),
        (4, "<< >>", Some(b"q 1 0 0 1 10 10 cm 0 0 m 10 10 l S Q")),
        (5, "<< /Type /Font /Subtype /Type1 /BaseFont /Helvetica /FirstChar 32 /LastChar 34 /Widths [278 278 355] /FontDescriptor 6 0 R /Encoding /WinAnsiEncoding >>", None),
        (6, "<< /Type /FontDescriptor /FontName /Helvetica /Flags 32 /FontBBox [-166 -225 1000 931] /ItalicAngle 0 /Ascent 718 /Descent -207 /CapHeight 718 /StemV 88 >>", None),
        (7, "<< /Length1 6 >>", Some(b"%!PS-x")),
        (8, "<< /Font << /F1 5 0 R >> /XObject << /Im1 9 0 R /Fm1 10 0 R >> /ExtGState << /GS1 << /Type /ExtGState /LW 2 >> >> >>", None),
        (9, "<< /Type /XObject /Subtype /Image /Width 2 /Height 2 /ColorSpace /DeviceRGB /BitsPerComponent 8 >>", Some(b"abcdefghijkl")),
        (10, "<< /Type /XObject /Subtype /Form /BBox [0 0 10 10] >>", Some(b"0 0 5 5 re f")),
        (11, "<< /FT /Tx /T (name) /Kids [12 0 R] >>", None),
        (12, "<< /FT /Tx /Parent 11 0 R /T (kid) /V (value) >>", None),
        (13, "<< /Title (a) /Parent 28 0 R /Next 14 0 R /Dest [3 0 R /Fit] >>", None),
        (14, "<< /Title (b) /Parent 28 0 R /Prev 13 0 R /A << /S /GoTo /D [3 0 R /XYZ null null 0] >> >>", None),
        (15, "<< /Type /Metadata /Subtype /XML >>", Some(b"<x/>")),
        (16, "<< /Type /EmbeddedFile /Subtype /text#2Fplain /Params << /Size 3 >> >>", Some(b"abc")),
        (17, "<< /Type /XObject /Subtype /Form /BBox [0 0 4 4] >>", Some(b"0 0 4 4 re S")),
        (18, "<< /S /P /P 18 0 R >>", None),
        (19, "<< /Type /Font /Subtype /CIDFontType2 /BaseFont /Test /CIDSystemInfo << /Registry (Adobe) /Ordering (Identity) /Supplement 0 >> /FontDescriptor 6 0 R /DW 500 /W [1 [500 600]] /CIDToGIDMap /Identity >>", None),
        (20, "<< >>", Some(b"/CIDInit /ProcSet findresource begin 12 dict begin begincmap 1 begincodespacerange <00> <FF> endcodespacerange 1 beginbfchar <41> <0041> endbfchar endcmap end end")),
        (21, "<< /PatternType 1 /PaintType 1 /TilingType 1 /BBox [0 0 5 5] /XStep 5 /YStep 5 /Resources 8 0 R >>", Some(b"0 0 5 5 re f")),
        (22, "<< /Type /XObject /Subtype /Image /Width 2 /Height 2 /ColorSpace /DeviceRGB /BitsPerComponent 8 >>", Some(b"ABCDEFGHIJKL")),
        (23, "<< /N 3 /Alternate /DeviceRGB >>", Some(b"icc-profile-bytes")),
        (24, "<< /Limits [0 5] /Nums [0 << /S /D >> 5 << /S /r /St 2 >>] >>", None),
        (25, "<< /Title (t) /CreationDate (D:20200101000000Z) >>", None),
        (26, "<< /Type /Annot /Subtype /Text /Rect [0 0 10 10] /Contents (hi) >>", None),
        (27, "<< >>", Some(b"\x00\x01\x00\x02")),
        (28, "<< /Type /Outlines /First 13 0 R /Last 14 0 R /Count 2 >>", None),
        (29, "<< /N 17 0 R >>", None),
        (30, "<< /FunctionType 2 /Domain [0 1] /C0 [0] /C1 [1] /N 1 >>", None),
        (31, "<< /Type /Font /Subtype /Type0 /BaseFont /Test-Identity-H /Encoding /Identity-H /DescendantFonts [19 0 R] /ToUnicode 20 0 R >>", None),
        (32, "<< /Type /Filespec /F (a.txt) /EF << /F 16 0 R >> >>", None),
        (33, "<< /Subtype /Type1C >>", Some(b"cff-bytes")),
        (34, "<< /Filter /Standard /V 1 /R 2 /O (01234567890123456789012345678901) /U (01234567890123456789012345678901) /P -4 >>", None),
        (35, "[0 0 612 792]", None),
        (36, "<< /Title (t2) /Author (a2) >>", None),
        (37, "<< /Nums [7 << /S /A >>] >>", None),
    ];
    t.into_iter().map(|(n, s, d)| (n, parse(s), d.map(|d| d.to_vec()))).collect()
}

#[derive(Clone, Copy, Debug, PartialEq, Eq)]
pub enum Shape {
    /// the instance is a dictionary (edited key by key)
    Dict,
    /// the instance is a stream: dictionary edited key by key, data attached
    Stream(&'static [u8]),
    /// array / name / string / number: only whole-value alternatives
    Scalar,
}

pub struct Model {
    pub name: &'static str,
    pub shape: Shape,
    /// full instance, every field present
    pub template: &'static str,
    /// keys whose absence makes the reader fail (verified against the library by the self-check)
    pub required: &'static [&'static str],
    /// derived `#[pdf(other)]` catch-all: unknown entries must survive
    pub catch_all: bool,
    /// key → alternative values (for Scalar models: key "" → alternative whole values)
    pub alts: &'static [(&'static str, &'static [&'static str])],
    /// key → the default the specification / field attribute gives (an entry stating it may be omitted on write)
    pub defaults: &'static [(&'static str, &'static str)],
    /// the library has a writer for it (C15); reader-only models serve C18
    pub writable: bool,
    /// template keys a model without catch-all does not recognise (legitimately dropped by its writer)
    pub unrecognised: &'static [&'static str],
}

const fn m(name: &'static str, shape: Shape, template: &'static str, required: &'static [&'static str], catch_all: bool, alts: &'static [(&'static str, &'static [&'static str])], defaults: &'static [(&'static str, &'static str)]) -> Model {
    Model { name, shape, template, required, catch_all, alts, defaults, writable: true, unrecognised: &["Type"] }
}
const fn ro(name: &'static str, shape: Shape, template: &'static str, required: &'static [&'static str]) -> Model {
    Model { name, shape, template, required, catch_all: false, alts: &[], defaults: &[], writable: false, unrecognised: &[] }
}

const FORM_OPS: &[u8] = b"q 0 0 5 5 re f Q";
const DATES: &[&str] = &["(D:2020)", "(D:202011)", "(D:20201130)", "(D:2020113023)", "(D:202011302359)", "(D:20201130235958)", "(D:20201130235958Z)", "(D:20201130235958+01'30')", "(D:20201130235958-11'00')", "(D:20201130235958+05)", "(D:19991231235959Z00'00')", "(D:00010101000000Z)"];

pub static MODELS: &[Model] = &[
    m("Catalog", Shape::Dict,
      "<< /Type /Catalog /Version /1.7 /Pages 2 0 R /PageLabels << /Nums [0 << /S /D >> 3 << /S /r /P (p) /St 2 >>] >> /Dests << /d1 [3 0 R /Fit] >> /Outlines 28 0 R /AcroForm << /Fields [11 0 R] /DA (/F1 12 Tf) >> /Metadata 15 0 R /StructTreeRoot << /Type /StructTreeRoot /K [18 0 R] >> >>",
      &["Pages"], false,
      &[("PageLabels", &["24 0 R", "<< /Kids [24 0 R 37 0 R] >>", "<< /Nums [] >>"]), ("Dests", &["<< >>"]), ("Outlines", &["<< /Count 0 >>", "<< /Type /Outlines /Count -2 /First 13 0 R /Last 14 0 R >>"]), ("AcroForm", &["<< /Fields [] >>", "<< /Fields [11 0 R 12 0 R] /NeedAppearances true /SigFlags 3 /Q 2 >>"]), ("StructTreeRoot", &["<< /Type /StructTreeRoot /K 18 0 R >>", "<< /Type /StructTreeRoot >>"])],
      &[]),
    m("PageTree", Shape::Dict,
      "<< /Type /Pages /Parent 2 0 R /Kids [3 0 R] /Count 1 /Resources 8 0 R /MediaBox [0 0 612 792] /CropBox [0 0 600 700] >>",
      &["Count"], false,
      &[("Kids", &["[]", "[3 0 R 3 0 R]", "3 0 R"]), ("Count", &["0", "7"]), ("Resources", &["<< >>", "<< /Font << /F1 5 0 R >> >>"]), ("MediaBox", &["[0.5 0.25 612.5 792]", "35 0 R"])],
      &[]),
    m("Page", Shape::Dict,
      "<< /Type /Page /Parent 2 0 R /Resources 8 0 R /MediaBox [0 0 612 792] /CropBox [10 10 600 700] /TrimBox [20 20 500 600] /Contents 4 0 R /Rotate 90 /Metadata 15 0 R /LGIDict << /A 1 >> /VP [<< /B 2 >>] /Annots [26 0 R] >>",
      &["Parent"], true,
      &[("Resources", &["<< >>", "<< /Font << /F1 5 0 R >> /ExtGState << /G << /LW 1 >> >> >>"]), ("Contents", &["[4 0 R]", "[4 0 R 4 0 R]", "[]"]), ("Rotate", &["0", "270", "-90", "360"]), ("Annots", &["[]", "[26 0 R 26 0 R]", "[<< /Subtype /Link /Rect [0 0 1 1] >>]", "26 0 R"]), ("Metadata", &["(m)", "null"]), ("MediaBox", &["35 0 R", "[0 0 1.5 2.5]"])],
      &[("Rotate", "0")]),
    m("PagesNode", Shape::Dict,
      "<< /Type /Page /Parent 2 0 R /Resources 8 0 R /MediaBox [0 0 612 792] /Contents 4 0 R /Rotate 180 /Annots [26 0 R] >>",
      &["Type", "Parent"], true,
      &[("Type", &["/Pages"]), ("Contents", &["[4 0 R 4 0 R]"])],
      &[("Rotate", "0")]),
    m("PageLabel", Shape::Dict, "<< /S /D /P (pre) /St 3 >>", &[], false, &[("S", &["/r", "/R", "/a", "/A"]), ("St", &["0", "1", "100000"])], &[]),
    m("Resources", Shape::Dict,
      "<< /ExtGState << /GS1 << /LW 2 >> /GS2 << /Type /ExtGState /CA 0.5 >> >> /ColorSpace << /CS1 /DeviceRGB /CS2 [/Indexed /DeviceRGB 1 (abcdef)] >> /Pattern << /P1 21 0 R >> /XObject << /Im1 9 0 R /Fm1 10 0 R >> /Font << /F1 5 0 R /F2 31 0 R >> /Properties << /MC1 << /X 1 >> >> >>",
      &[], false,
      &[("ColorSpace", &["<< /CS1 /DeviceCMYK >>", "<< >>"]), ("Font", &["<< >>", "<< /F1 << /Type /Font /Subtype /Type1 /BaseFont /Courier >> >>"]), ("Properties", &["<< /MC1 36 0 R >>"]), ("ExtGState", &["<< >>"])],
      &[]),
    m("PatternDict", Shape::Dict, "<< /PaintType 1 /TilingType 2 /BBox [0 0 5 5] /XStep 5 /YStep 6.5 /Resources 8 0 R /Matrix [1 0 0 1 2 3] >>", &["BBox", "XStep", "YStep", "Resources"], false, &[("XStep", &["5.5", "-5"]), ("Matrix", &["[0.5 0 0 0.5 0 0]"])], &[]),
    m("Pattern", Shape::Stream(FORM_OPS), "<< /PatternType 1 /PaintType 1 /TilingType 1 /BBox [0 0 5 5] /XStep 5 /YStep 5 /Resources 8 0 R /Matrix [1 0 0 1 0 0] >>", &["BBox", "XStep", "YStep", "Resources"], false, &[], &[]),
    m("GraphicsStateParameters", Shape::Dict,
      "<< /Type /ExtGState /LW 2 /LC 1 /LJ 2 /ML 4 /D [[3 1] 0] /RI /Perceptual /OP true /op false /OPM 1 /Font [5 0 R 12] /BM /Multiply /SMask /None /CA 0.5 /ca 0.25 /AIS false /TK true >>",
      &[], true,
      &[("LC", &["0", "2"]), ("LJ", &["0", "1"]), ("LW", &["0", "2.5"]), ("Font", &["[5 0 R 12.5]", "[31 0 R 0]"]), ("BM", &["[/Multiply /Normal]"]), ("SMask", &["<< /S /Alpha /G 10 0 R >>"]), ("D", &["[[] 0]"])],
      &[]),
    m("ImageXObject", Shape::Stream(b"abcdefghijkl"),
      "<< /Type /XObject /Subtype /Image /Width 2 /Height 2 /ColorSpace /DeviceRGB /BitsPerComponent 8 /Intent /Perceptual /ImageMask false /Mask [0 1] /Decode [0 1 0 1 0 1] /Interpolate true /StructParent 1 /ID (id) /SMask 22 0 R >>",
      &["Subtype", "Width", "Height"], true,
      &[("ColorSpace", &["/DeviceCMYK", "[/Indexed /DeviceRGB 1 (abcdef)]", "[/Indexed /DeviceCMYK 0 <00112233>]"]), ("Intent", &["/AbsoluteColorimetric", "/RelativeColorimetric", "/Saturation"]), ("ImageMask", &["true"]), ("Mask", &["22 0 R"]), ("Decode", &["[1 0]", "[0.5 1]"]), ("Interpolate", &["false"]), ("BitsPerComponent", &["1", "16"])],
      &[("ImageMask", "false"), ("Interpolate", "false")]),
    m("XObject", Shape::Stream(b"abcdefghijkl"),
      "<< /Type /XObject /Subtype /Image /Width 2 /Height 2 /ColorSpace /DeviceRGB /BitsPerComponent 8 /Interpolate true >>",
      &["Subtype", "Width", "Height"], true, &[], &[("ImageMask", "false"), ("Interpolate", "false")]),
    m("XObject:Form", Shape::Stream(FORM_OPS),
      "<< /Type /XObject /Subtype /Form /BBox [0 0 10 10] /Matrix [1 0 0 1 0 0] /Resources 8 0 R >>",
      &["Subtype", "BBox"], true, &[], &[("FormType", "1")]),
    m("XObject:PS", Shape::Stream(b"%!PS\nshowpage"), "<< /Type /XObject /Subtype /PS /Level1 16 0 R >>", &["Type", "Subtype"], true, &[], &[]),
    m("FormXObject", Shape::Stream(FORM_OPS),
      "<< /Type /XObject /Subtype /Form /FormType 1 /Name /Fm /LastModified (D:2020) /BBox [0 0 10 10] /Matrix [1 0 0 1 0 0] /Resources 8 0 R /Group << /S /Transparency >> /Ref << /X 1 >> /Metadata 15 0 R /PieceInfo << /App << >> >> /StructParent 2 /OPI << /Y 2 >> >>",
      &["Subtype", "BBox"], true,
      &[("Resources", &["<< >>", "<< /Font << /F1 5 0 R >> >>"]), ("Matrix", &["[2 0 0 2 1 1]", "(not-a-matrix)"]), ("BBox", &["[0.5 0.5 10 10]"])],
      &[("FormType", "1")]),
    m("InteractiveFormDictionary", Shape::Dict,
      "<< /Fields [11 0 R] /NeedAppearances true /SigFlags 3 /CO [12 0 R] /DR 8 0 R /DA (/F1 12 Tf) /Q 1 /XFA 15 0 R >>",
      &[], false,
      &[("Fields", &["[]", "[11 0 R 12 0 R]", "11 0 R"]), ("CO", &["[]", "12 0 R"]), ("DR", &["<< >>"]), ("XFA", &["[(a) 15 0 R]"]), ("NeedAppearances", &["false"]), ("SigFlags", &["0", "1"])],
      &[("NeedAppearances", "false"), ("SigFlags", "0")]),
    m("SeedValueDictionary", Shape::Dict, "<< /Type /SV /Ff 1 /Filter /Adobe.PPKLite /SubFilter [/adbe.pkcs7.detached] /V 1 /DigestMethod [(SHA256)] >>", &["Type"], true,
      &[("SubFilter", &["[/a /b]", "/a", "[]"]), ("DigestMethod", &["[(SHA1) (SHA256)]", "(SHA1)", "[]"]), ("Ff", &["0"]), ("V", &["1.5", "(v)", "null"])], &[("Ff", "0")]),
    m("SignatureDictionary", Shape::Dict,
      "<< /Type /Sig /Filter /Adobe.PPKLite /SubFilter /adbe.pkcs7.detached /ByteRange [0 10 20 30] /Contents <00ff> /Cert [(c)] /Reference [<< /TransformMethod /DocMDP >>] /Name (n) /M (D:2020) /Location (l) /Reason (r) /ContactInfo (c) /V 1 /R 2 /Prop_Build << /A 1 >> /Prop_AuthTime 3 /Prop_AuthType /PIN >>",
      &["Filter", "SubFilter", "Contents", "V", "R", "Prop_Build", "Prop_AuthTime", "Prop_AuthType"], true,
      &[("ByteRange", &["[]", "[0 1]", "5"]), ("Cert", &["(c)", "[(a) (b)]", "[]"])], &[]),
    m("SignatureReferenceDictionary", Shape::Dict, "<< /Type /SigRef /TransformMethod /DocMDP /TransformParams << /P 2 >> /Data 1 0 R /DigestMethod /SHA256 >>", &["TransformMethod"], true, &[("Data", &["(d)", "[1 2]"])], &[]),
    m("Annot", Shape::Dict,
      "<< /Type /Annot /Subtype /Text /Rect [0 0 10 10] /Contents (hi) /P 3 0 R /NM (nm) /M (D:20200101000000Z) /F 4 /AP 29 0 R /AS /On /Border [0 0 1] /C [1 0 0] /InkList [[1 2 3 4]] >>",
      &["Subtype"], true,
      &[("AP", &["<< /N 17 0 R >>", "<< /N 17 0 R /R 17 0 R /D 17 0 R >>"]), ("M", DATES), ("F", &["0", "64"]), ("Subtype", &["/Link", "/Widget", "/Ink"]), ("Rect", &["[0.5 0.5 10.25 10]"])],
      &[("F", "0")]),
    m("FieldDictionary", Shape::Dict,
      "<< /FT /Tx /Parent 11 0 R /Kids [12 0 R] /T (t) /TU (tu) /TM (tm) /Ff 2 /SigFlags 1 /V (v) /DV (dv) /DR 8 0 R /AA << /K 1 >> /Rect [0 0 1 1] /MaxLen 10 /Subtype /Widget >>",
      &[], true,
      &[("FT", &["/Btn", "/Ch", "/Sig", "/SigRef"]), ("Kids", &["[]", "[12 0 R 12 0 R]", "12 0 R"]), ("V", &["1", "/Yes", "[(a) (b)]", "12 0 R", "<< /Type /Sig /Filter /F >>"]), ("DV", &["null", "true"]), ("Ff", &["0"]), ("SigFlags", &["0"]), ("DR", &["<< >>"])],
      &[("Ff", "0"), ("SigFlags", "0")]),
    m("AppearanceStreams", Shape::Dict, "<< /N 17 0 R /R 17 0 R /D 17 0 R >>", &["N"], false, &[("N", &["10 0 R"])], &[]),
    m("AppearanceStreamEntry", Shape::Dict, "<< /On 17 0 R /Off 10 0 R >>", &[], false, &[("On", &["<< /A 17 0 R /B 10 0 R >>"])], &[]),
    m("AppearanceStreamEntry:Stream", Shape::Stream(FORM_OPS), "<< /Type /XObject /Subtype /Form /BBox [0 0 4 4] >>", &["Subtype", "BBox"], true, &[], &[("FormType", "1")]),
    m("LageLabel", Shape::Dict, "<< /S /r /P (p) /St -1 >>", &[], false, &[("S", &["/D", "/R", "/a", "/A"])], &[]),
    m("FileSpec", Shape::Dict, "<< /EF << /F 16 0 R /UF 16 0 R /DOS 16 0 R /Mac 16 0 R /Unix 16 0 R >> >>", &[], false, &[("EF", &["<< >>", "<< /F 16 0 R >>"])], &[]),
    m("Stream<EmbeddedFile>", Shape::Stream(b"abc"), "<< /Subtype /text#2Fplain /Params << /Size 3 /CreationDate (D:20200102030405+01'00') /ModDate (D:20200102030405Z) /Mac (D:2020) /CheckSum <00ff> >> >>", &[], false,
      &[("Params", &["<< >>", "<< /Size 0 >>", "<< /ModDate (D:20201130235958-11'00') >>"])], &[]),
    m("EmbeddedFileParamDict", Shape::Dict, "<< /Size 3 /CreationDate (D:20200102030405+01'00') /ModDate (D:20200102030405Z) /Mac (D:2020) /CheckSum <00ff> >>", &[], false, &[("CreationDate", DATES), ("ModDate", DATES)], &[]),
    m("Outlines", Shape::Dict, "<< /Type /Outlines /Count 2 /First 13 0 R /Last 14 0 R >>", &[], false, &[("Count", &["0", "-2"])], &[("Count", "0")]),
    m("MarkInformation", Shape::Dict, "<< /Marked true /UserProperties true /Suspects true >>", &[], false, &[("Marked", &["false"]), ("Suspects", &["false"])], &[("Marked", "false"), ("UserProperties", "false"), ("Suspects", "false")]),
    m("StructTreeRoot", Shape::Dict, "<< /Type /StructTreeRoot /K [18 0 R] >>", &["Type"], false, &[("K", &["[]", "18 0 R", "[18 0 R << /S /Span /P 18 0 R >>]"])], &[]),
    m("StructElem", Shape::Dict, "<< /S /P /P 18 0 R /ID (id) /Pg 3 0 R >>", &["S", "P"], false, &[("S", &["/Document", "/Part", "/Span", "/H1", "/Custom", "/Figure", "/Table", "/L"])], &[]),
    m("InfoDict", Shape::Dict,
      "<< /Title (t) /Author (a) /Subject (s) /Keywords (k) /Creator (c) /Producer (p) /CreationDate (D:20200102030405+01'00') /ModDate (D:20200102030405Z) /Trapped /True >>",
      &[], false, &[("Trapped", &["/False", "/Unknown"]), ("CreationDate", DATES), ("ModDate", DATES), ("Title", &["<FEFF0041>", "()"])], &[]),
    m("Font", Shape::Dict,
      "<< /Type /Font /Subtype /Type1 /BaseFont /Helvetica /FirstChar 32 /LastChar 34 /Widths [278 278 355] /FontDescriptor 6 0 R /Encoding << /BaseEncoding /WinAnsiEncoding /Differences [65 /A /B 70 /F] >> /ToUnicode 20 0 R >>",
      &["Type", "Subtype", "BaseFont"], false,
      &[("Subtype", &["/TrueType", "/MMType1", "/Type3"]), ("Encoding", &["/WinAnsiEncoding", "/MacRomanEncoding", "/StandardEncoding", "/MacExpertEncoding", "/Identity-H", "/Custom-Enc", "<< /Differences [1 /one /two] >>", "<< /BaseEncoding /MacRomanEncoding >>", "<< /BaseEncoding /StandardEncoding /Differences [0 /a 0 /b 255 /c /d 10 /e] >>"]), ("Widths", &["[]", "[278.5 0 -1]", "500"]), ("FontDescriptor", &["<< /FontName /H /Flags 4 /FontBBox [0 0 1 1] /ItalicAngle -12.5 >>"])],
      &[]),
    m("Font:Type0", Shape::Dict, "<< /Type /Font /Subtype /Type0 /BaseFont /Test-Identity-H /Encoding /Identity-H /DescendantFonts [19 0 R] /ToUnicode 20 0 R >>", &["Type", "Subtype", "BaseFont"], false,
      &[("DescendantFonts", &["19 0 R", "[]", "[<< /Type /Font /Subtype /CIDFontType0 /BaseFont /T /CIDSystemInfo << >> /FontDescriptor 6 0 R >>]"]), ("Encoding", &["/Identity-V", "/UniJIS-UCS2-H"])], &[]),
    m("Font:CID", Shape::Dict,
      "<< /Type /Font /Subtype /CIDFontType2 /BaseFont /Test /CIDSystemInfo << /Registry (Adobe) /Ordering (Identity) /Supplement 0 >> /FontDescriptor 6 0 R /DW 500 /W [1 [500 600] 10 12 700] /CIDToGIDMap /Identity >>",
      &["Type", "Subtype", "BaseFont", "CIDSystemInfo", "FontDescriptor"], false,
      &[("Subtype", &["/CIDFontType0"]), ("CIDToGIDMap", &["27 0 R"]), ("W", &["[]", "[0 [1.5]]"]), ("DW", &["1000", "0"])],
      &[("DW", "1000")]),
    m("FontDescriptor", Shape::Dict,
      "<< /Type /FontDescriptor /FontName /Helvetica /FontFamily (Helvetica) /FontStretch /Normal /FontWeight 400 /Flags 32 /FontBBox [-166 -225 1000 931] /ItalicAngle 0 /Ascent 718 /Descent -207 /Leading 10 /CapHeight 718 /XHeight 500 /StemV 88 /StemH 80 /AvgWidth 500 /MaxWidth 1000 /MissingWidth 250 /FontFile 7 0 R /FontFile2 7 0 R /FontFile3 33 0 R /CharSet (/A/B) >>",
      &["FontName", "Flags", "FontBBox", "ItalicAngle"], false,
      &[("FontStretch", &["/UltraCondensed", "/ExtraCondensed", "/Condensed", "/SemiCondensed", "/SemiExpanded", "/Expanded", "/ExtraExpanded", "/UltraExpanded"]), ("ItalicAngle", &["-12.5"]), ("Leading", &["0"]), ("StemV", &["0"]), ("Flags", &["0", "262178"])],
      &[("Leading", "0"), ("XHeight", "0"), ("StemV", "0"), ("StemH", "0"), ("AvgWidth", "0"), ("MaxWidth", "0"), ("MissingWidth", "0")]),
    m("LZWFlateParams", Shape::Dict, "<< /Predictor 12 /Colors 3 /BitsPerComponent 8 /Columns 4 /EarlyChange 0 >>", &[], false, &[("Predictor", &["1", "2", "10", "15"]), ("BitsPerComponent", &["1", "16"])],
      &[("Predictor", "1"), ("Colors", "1"), ("BitsPerComponent", "8"), ("Columns", "1"), ("EarlyChange", "1")]),
    m("DCTDecodeParams", Shape::Dict, "<< /ColorTransform 1 >>", &[], false, &[("ColorTransform", &["0"])], &[]),
    m("CCITTFaxDecodeParams", Shape::Dict, "<< /K -1 /EndOfLine true /EncodedByteAlign true /Columns 100 /Rows 10 /EndOfBlock false /BlackIs1 true /DamagedRowsBeforeError 2 >>", &[], false, &[("K", &["0", "4"])],
      &[("K", "0"), ("EndOfLine", "false"), ("EncodedByteAlign", "false"), ("Columns", "1728"), ("Rows", "0"), ("EndOfBlock", "true"), ("BlackIs1", "false"), ("DamagedRowsBeforeError", "0")]),
    m("JBIG2DecodeParams", Shape::Dict, "<< /JBIG2Globals 7 0 R >>", &[], false, &[], &[]),
    m("XRefInfo", Shape::Dict, "<< /Type /XRef /Size 10 /Index [0 5 7 3] /Prev 100 /W [1 2 1] >>", &["Type", "Size"], false, &[("Index", &["[0 10]", "[]"]), ("W", &["[1 0 0]", "[]", "1"])], &[]),
    m("Trailer", Shape::Dict, "<< /Size 40 /Prev 100 /Root 1 0 R /Encrypt 34 0 R /Info 25 0 R /ID [<00> <01>] >>", &["Size", "Root"], false, &[("Info", &["<< /Title (direct) >>", "36 0 R"]), ("ID", &["[]", "<00>"])], &[]),
    m("Stream<IccInfo>", Shape::Stream(b"icc-profile-bytes"), "<< /N 3 /Alternate /DeviceRGB /Range [0 1 0 1 0 1] /Metadata 15 0 R >>", &["N"], false, &[("Alternate", &["/DeviceCMYK", "[/Indexed /DeviceRGB 0 (abc)]"]), ("N", &["1", "4"]), ("Range", &["[0.5 1]", "[]"])], &[]),
    m("Stream<()>", Shape::Stream(b"some stream data"), "<< >>", &[], false, &[], &[]),
    m("Content", Shape::Stream(b"q 1 0 0 1 10 10 cm 0 0 m 10 10 l S Q BT /F1 12 Tf (x) Tj ET"), "<< >>", &[], false, &[], &[]),
    m("Content:Array", Shape::Scalar, "[4 0 R 4 0 R]", &[], false, &[("", &["[4 0 R]", "[]", "4 0 R", "[4 0 R 10 0 R 17 0 R]"])], &[]),
    m("NumberTree<PageLabel>", Shape::Dict, "<< /Limits [0 3] /Nums [0 << /S /D >> 3 << /S /r /P (p) /St 2 >>] >>", &[], false,
      &[("Nums", &["[]", "[5 << >>]", "[-1 << /St 1 >> 2147483647 << /P () >>]"]), ("Limits", &["[-5 5]"])], &[]),
    m("NumberTree<PageLabel>:Kids", Shape::Dict, "<< /Kids [24 0 R 37 0 R] >>", &[], false, &[("Kids", &["[]", "[24 0 R]"])], &[]),
    m("NumberTree<Primitive>", Shape::Dict, "<< /Nums [0 (a) 1 /b 2 [1 2] 3 << /x 1 >> 4 3 0 R 5 1.5 6 true] >>", &[], false, &[], &[]),
    m("Rectangle", Shape::Scalar, "[0 0 612 792]", &[], false, &[("", &["[0.5 -0.25 612.5 792]", "[612 792 0 0]", "[0 0 0 0]", "[-1 -2 -3 -4]", "35 0 R", "[1000.5 2 3 4]", "[16777216 16777217 -16777217 0.000001]"])], &[]),
    m("Matrix", Shape::Scalar, "[1 0 0 1 0 0]", &[], false, &[("", &["[0.5 0.25 -0.5 2 100 200]", "[1 2 3 4 5 6]", "[0 0 0 0 0 0]", "[1.5 0 0 1.5 -10.25 3]"])], &[]),
    m("Date", Shape::Scalar, "(D:20200102030405+01'00')", &[], false, &[("", DATES)], &[]),
    m("Dest", Shape::Scalar, "[3 0 R /XYZ 10 20 1.5]", &[], false,
      &[("", &["[3 0 R /XYZ null null 0]", "[3 0 R /XYZ null 20 null]", "[3 0 R /XYZ 10 20]", "[3 0 R /Fit]", "[3 0 R /FitH 5]", "[3 0 R /FitV 5.5]", "[3 0 R /FitR 1 2 3 4]", "[3 0 R /FitB]", "[3 0 R /FitBH 7]", "[null /Fit]", "<< /D [3 0 R /Fit] >>", "[0 /Fit]"])], &[]),
    m("MaybeNamedDest", Shape::Scalar, "(named)", &[], false, &[("", &["[3 0 R /Fit]", "()", "<< /D [3 0 R /FitH 5] >>", "[3 0 R /XYZ 1 2 3]"])], &[]),
    m("Action", Shape::Dict, "<< /S /GoTo /D [3 0 R /Fit] >>", &["S", "D"], false,
      &[("D", &["(named)", "[3 0 R /XYZ null null 0]"]), ("S", &["/URI", "/Named", "/GoToR"])], &[]),
    m("Action:Other", Shape::Dict, "<< /Type /Action /S /URI /URI (http://example.org) /Next << /S /Named /N /NextPage >> >>", &["S"], false, &[], &[]),
    m("Encoding", Shape::Dict, "<< /Type /Encoding /BaseEncoding /WinAnsiEncoding /Differences [65 /A /B 70 /F] >>", &[], false,
      &[("BaseEncoding", &["/MacRomanEncoding", "/StandardEncoding", "/MacExpertEncoding", "/SymbolEncoding", "/Whatever"]), ("Differences", &["[]", "[0 /a]", "[1 /one /two 1 /uno]", "[255 /x /y]", "[10 /a 12 /c 11 /b]", "[/noindex]", "[5 6 /six]"])], &[]),
    m("Encoding:Name", Shape::Scalar, "/WinAnsiEncoding", &[], false, &[("", &["/MacRomanEncoding", "/StandardEncoding", "/MacExpertEncoding", "/SymbolEncoding", "/Identity-H", "/Identity-V", "/Something"])], &[]),
    m("ColorSpace", Shape::Scalar, "/DeviceRGB", &[], false,
      &[("", &["/DeviceCMYK", "/DeviceGray", "/Pattern", "/Other", "[/Indexed /DeviceRGB 1 (abcdef)]", "[/Indexed /DeviceCMYK 0 <00112233>]", "[/Indexed /DeviceRGB 255 27 0 R]", "[/Indexed [/Indexed /DeviceRGB 1 (abcdef)] 1 (ab)]", "[/ICCBased 23 0 R]", "[/Separation /Spot /DeviceRGB 30 0 R]", "[/CalRGB << /WhitePoint [1 1 1] >>]", "[/DeviceRGB]", "[/Pattern /DeviceRGB]", "[/Indexed /DeviceRGB 40 (0123456789012345678901234567890123456789012345678901234567890123456789012345678901234567890123456789012345678901234567890123)]"])], &[]),
    m("CidToGidMap", Shape::Scalar, "/Identity", &[], false, &[("", &["27 0 R", "4 0 R"])], &[]),
    m("Counter", Shape::Scalar, "/D", &[], false, &[("", &["/r", "/R", "/a", "/A"])], &[]),
    m("FieldType", Shape::Scalar, "/Tx", &[], false, &[("", &["/Btn", "/Ch", "/Sig", "/SigRef"])], &[]),
    m("Trapped", Shape::Scalar, "/True", &[], false, &[("", &["/False", "/Unknown"])], &[]),
    m("StructType", Shape::Scalar, "/P", &[], false, &[("", &["/Document", "/Part", "/Art", "/Sect", "/Div", "/BlockQuote", "/Caption", "/TOC", "/TOCI", "/Index", "/NonStruct", "/Private", "/Book", "/H", "/H1", "/H2", "/H3", "/H4", "/H5", "/H6", "/L", "/LI", "/Lbl", "/LBody", "/Table", "/TR", "/TH", "/TD", "/THead", "/TBody", "/TFoot", "/Span", "/Quote", "/Note", "/Reference", "/BibEntry", "/Code", "/Link", "/Annot", "/Ruby", "/RB", "/RT", "/RP", "/Warichu", "/WT", "/WP", "/Figure", "/Formula", "/Form", "/MyOwnType"])], &[]),
    m("FontType", Shape::Scalar, "/Type1", &[], false, &[("", &["/Type0", "/Type1C", "/MMType1", "/Type3", "/TrueType", "/CIDFontType0", "/CIDFontType2"])], &[]),
    m("FontStretch", Shape::Scalar, "/Normal", &[], false, &[("", &["/UltraCondensed", "/ExtraCondensed", "/Condensed", "/SemiCondensed", "/SemiExpanded", "/Expanded", "/ExtraExpanded", "/UltraExpanded"])], &[]),
    m("BaseEncoding", Shape::Scalar, "/WinAnsiEncoding", &[], false, &[("", &["/StandardEncoding", "/SymbolEncoding", "/MacRomanEncoding", "/MacExpertEncoding", "/Identity-H", "/Anything"])], &[]),
    m("RenderingIntent", Shape::Scalar, "/Perceptual", &[], false, &[("", &["/AbsoluteColorimetric", "/RelativeColorimetric", "/Saturation"])], &[]),
    m("LineCap", Shape::Scalar, "0", &[], false, &[("", &["1", "2"])], &[]),
    m("LineJoin", Shape::Scalar, "0", &[], false, &[("", &["1", "2"])], &[]),
    m("FontTypeExt", Shape::Scalar, "/Type1C", &[], false, &[("", &["/CIDFontType0C", "/OpenType"])], &[]),
    m("Vec<i32>", Shape::Scalar, "[1 2 3]", &[], false, &[("", &["[]", "[5]", "5", "null", "[-2147483648 2147483647]"])], &[]),
    m("Vec<Name>", Shape::Scalar, "[/a /b]", &[], false, &[("", &["/a", "[/a]", "[]", "null"])], &[]),
    m("Vec<PdfString>", Shape::Scalar, "[(a) <00ff>]", &[], false, &[("", &["(a)", "[]", "[()]"])], &[]),
    m("Vec<f32>", Shape::Scalar, "[1 2.5 -3]", &[], false, &[("", &["1", "2.5", "[]", "[16777217]"])], &[]),
    m("Option<Vec<Name>>", Shape::Scalar, "[/a /b]", &[], false, &[("", &["null", "/a", "[]"])], &[]),
    m("Option<i32>", Shape::Scalar, "5", &[], false, &[("", &["null", "0", "-1"])], &[]),
    m("HashMap<Name,i32>", Shape::Dict, "<< /a 1 /b 2 /c -3 >>", &[], false, &[], &[]),
    m("HashMap<Name,Rectangle>", Shape::Dict, "<< /a [0 0 1 1] /b 35 0 R >>", &[], false, &[], &[]),
    m("(i32,f32)", Shape::Scalar, "[1 2.5]", &[], false, &[("", &["[0 0]", "[-1 3]"])], &[]),
    m("(Ref<Font>,f32)", Shape::Scalar, "[5 0 R 12]", &[], false, &[("", &["[31 0 R 0.5]"])], &[]),
    m("Box<Rectangle>", Shape::Scalar, "[0 0 1 1]", &[], false, &[], &[]),
    m("MaybeRef<InfoDict>", Shape::Scalar, "25 0 R", &[], false, &[("", &["<< /Title (direct) >>", "36 0 R"])], &[]),
    m("Lazy<InfoDict>", Shape::Scalar, "25 0 R", &[], false, &[("", &["<< /Title (direct) >>", "36 0 R"])], &[]),
    m("RcRef<InfoDict>", Shape::Scalar, "25 0 R", &[], false, &[("", &["36 0 R"])], &[]),
    m("Ref<Page>", Shape::Scalar, "3 0 R", &[], false, &[("", &["2 0 R"])], &[]),
    m("Primitive", Shape::Scalar, "[1 2.5 (s) /n true null << /k [3 0 R] >>]", &[], false, &[("", &["null", "1", "1.5", "(s)", "/n", "false", "<< >>", "[]", "3 0 R"])], &[]),
    m("Dictionary", Shape::Dict, "<< /a 1 /b (s) /c [1 2] /d << /e /f >> /g 3 0 R >>", &[], true, &[], &[]),
    m("PdfString", Shape::Scalar, "(hello)", &[], false, &[("", &["()", "<00ff80>", "<FEFF00480069>", "(a\\(b\\)c)"])], &[]),
    m("Name", Shape::Scalar, "/Name", &[], false, &[("", &["/A#20B", "/", "/a.b-c"])], &[]),
    m("i32", Shape::Scalar, "5", &[], false, &[("", &["0", "-1", "2147483647", "-2147483648"])], &[]),
    m("u32", Shape::Scalar, "5", &[], false, &[("", &["0", "2147483647"])], &[]),
    m("usize", Shape::Scalar, "5", &[], false, &[("", &["0", "2147483647"])], &[]),
    m("f32", Shape::Scalar, "1.5", &[], false, &[("", &["0", "-1", "5", "16777216", "16777217", "0.000001", "-123456.789", "340000000000000000000000000000000000000.0"])], &[]),
    m("bool", Shape::Scalar, "true", &[], false, &[("", &["false"])], &[]),
    // reader-only models (C18)
    ro("OutlineItem", Shape::Dict, "<< /Title (a) /Prev 13 0 R /Next 14 0 R /First 13 0 R /Last 14 0 R /Count 2 /Dest [3 0 R /Fit] /A << /S /GoTo /D [3 0 R /Fit] >> /SE << /X 1 >> /C [1 0 0] /F 1 >>", &[]),
    ro("CryptDict", Shape::Dict, "<< /Filter /Standard /V 4 /R 4 /Length 128 /O (01234567890123456789012345678901) /U (01234567890123456789012345678901) /P -4 /CF << /StdCF << /Type /CryptFilter /CFM /AESV2 /AuthEvent /DocOpen /Length 16 >> >> /StmF /StdCF /StrF /StdCF /EncryptMetadata false >>", &["V", "R", "O", "U", "P"]),
    ro("ObjStmInfo", Shape::Dict, "<< /Type /ObjStm /N 1 /First 4 /Extends 4 0 R >>", &["Type", "N", "First"]),
    ro("NameDictionary", Shape::Dict, "<< /Dests << /Names [(a) [3 0 R /Fit]] >> /EmbeddedFiles << /Names [(f) 32 0 R] >> /JavaScript << /Names [(j) << /S /JavaScript /JS (x) >>] >> /AlternativePresentations << /Names [] >> /Renditions << /Names [] >> >>", &[]),
];

pub fn model(name: &str) -> Option<&'static Model> {
    MODELS.iter().find(|m| m.name == name)
}
/// Template keys that a model without catch-all does not recognise.
pub fn unrecognised(m: &Model, key: &str) -> bool {
    m.unrecognised.contains(&key) || matches!((m.name, key), ("Pattern", "PatternType"))
}

/// Build a case file: the zoo, the subject (object SUBJECT) and auxiliary objects; classic cross-reference table
/// with free entries for the gap, /Size right after the last object.
pub fn case_file(subject: &Val, aux: &[(u64, Val)], freed: &[u64]) -> (Vec<u8>, u64) {
    case_file_with(subject, aux, freed, &[])
}
/// `overrides` replace zoo objects (same number).
pub fn case_file_with(subject: &Val, aux: &[(u64, Val)], freed: &[u64], overrides: &[(u64, Val)]) -> (Vec<u8>, u64) {
    case_file_full(subject, aux, freed, overrides, &[])
}
/// `freed_later`: numbers that hold an object in the first section and are freed (generation bumped) by an
/// incremental update appended to the file.
pub fn case_file_full(subject: &Val, aux: &[(u64, Val)], freed: &[u64], overrides: &[(u64, Val)], freed_later: &[u64]) -> (Vec<u8>, u64) {
    let mut w = Writer::new(b"", "1.7");
    for n in freed_later {
        w.obj(*n, 0, &Val::dict(vec![("Stale", Val::Bool(true))]));
    }
    for (n, v, data) in zoo() {
        let (v, data) = match overrides.iter().find(|(k, _)| *k == n) {
            Some((_, Val::Stream(d, bytes))) => (Val::Dict(d.clone()), Some(bytes.0.clone())),
            Some((_, o)) => (o.clone(), None),
            None => (v, data),
        };
        match (v, data) {
            (Val::Dict(d), Some(data)) => {
                w.stream_obj(n, 0, &d, &data);
            }
            (v, _) => {
                w.obj(n, 0, &v);
            }
        }
    }
    let mut put = |w: &mut Writer, n: u64, v: &Val| match v {
        Val::Stream(d, data) => {
            w.stream_obj(n, 0, d, data);
        }
        v => {
            w.obj(n, 0, v);
        }
    };
    put(&mut w, SUBJECT, subject);
    let mut max = SUBJECT;
    for (n, v) in aux {
        put(&mut w, *n, v);
        max = max.max(*n);
    }
    // free list: 0 -> freed... -> 0
    let mut next = 0u64;
    for f in freed.iter().rev() {
        w.free(*f, next, 1);
        next = *f;
        max = max.max(*f);
    }
    w.free(0, next, 65535);
    let size = max + 1;
    w.xref_table(size, &[(Bytes::from("Root"), Val::Ref(1, 0))], false);
    if !freed_later.is_empty() {
        // the update frees them: 0 -> later... -> (old free list)
        let mut nxt = next;
        for f in freed_later.iter().rev() {
            w.free(*f, nxt, 1);
            nxt = *f;
        }
        w.free(0, nxt, 65535);
        w.xref_table(size, &[(Bytes::from("Root"), Val::Ref(1, 0))], false);
    }
    (w.finish(), size)
}

pub type RtOut = Result<Primitive, RtErr>;
#[derive(Debug)]
pub enum RtErr {
    Read(PdfError),
    Write(PdfError),
}

fn rt<T: Object + ObjectWrite>(file: &mut UncachedFile, p: Primitive) -> RtOut {
    let t = {
        let r = file.resolver();
        T::from_primitive(p, &r)
    }
    .map_err(RtErr::Read)?;
    t.to_primitive(file).map_err(RtErr::Write)
}
fn rd<T: Object + std::fmt::Debug>(file: &UncachedFile, p: Primitive) -> Result<String, PdfError> {
    let r = file.resolver();
    T::from_primitive(p, &r).map(|t| format!("{:?}", t))
}

macro_rules! dispatch {
    ($( $name:literal => $t:ty ),* $(,)?) => {
        /// read `p` as the model, write it back through the file's updater
        pub fn roundtrip(name: &str, file: &mut UncachedFile, p: Primitive) -> Option<RtOut> {
            let base = name.split(':').next().unwrap();
            match base {
                $( $name => Some(rt::<$t>(file, p)), )*
                _ => None,
            }
        }
    };
}
dispatch! {
    "Catalog" => Catalog, "PageTree" => PageTree, "Page" => Page, "PagesNode" => PagesNode, "PageLabel" => PageLabel,
    "Resources" => Resources, "PatternDict" => PatternDict, "Pattern" => Pattern, "GraphicsStateParameters" => GraphicsStateParameters,
    "ImageXObject" => ImageXObject, "XObject" => XObject, "FormXObject" => pdf::content::FormXObject,
    "InteractiveFormDictionary" => InteractiveFormDictionary, "SeedValueDictionary" => SeedValueDictionary,
    "SignatureDictionary" => SignatureDictionary, "SignatureReferenceDictionary" => SignatureReferenceDictionary,
    "Annot" => Annot, "FieldDictionary" => FieldDictionary, "AppearanceStreams" => AppearanceStreams, "AppearanceStreamEntry" => AppearanceStreamEntry,
    "LageLabel" => LageLabel, "FileSpec" => FileSpec, "Stream<EmbeddedFile>" => Stream<EmbeddedFile>, "EmbeddedFileParamDict" => EmbeddedFileParamDict,
    "Outlines" => Outlines, "MarkInformation" => MarkInformation, "StructTreeRoot" => StructTreeRoot, "StructElem" => StructElem, "InfoDict" => InfoDict,
    "Font" => pdf::font::Font, "FontDescriptor" => pdf::font::FontDescriptor,
    "LZWFlateParams" => pdf::enc::LZWFlateParams, "DCTDecodeParams" => pdf::enc::DCTDecodeParams, "CCITTFaxDecodeParams" => pdf::enc::CCITTFaxDecodeParams, "JBIG2DecodeParams" => pdf::enc::JBIG2DecodeParams,
    "XRefInfo" => pdf::xref::XRefInfo, "Trailer" => pdf::file::Trailer, "Stream<IccInfo>" => Stream<IccInfo>, "Stream<()>" => Stream<()>, "Content" => pdf::content::Content,
    "NumberTree<PageLabel>" => NumberTree<PageLabel>, "NumberTree<Primitive>" => NumberTree<Primitive>,
    "Rectangle" => Rectangle, "Matrix" => pdf::content::Matrix, "Date" => Date, "Dest" => Dest, "MaybeNamedDest" => MaybeNamedDest, "Action" => Action,
    "Encoding" => pdf::encoding::Encoding, "ColorSpace" => ColorSpace, "CidToGidMap" => pdf::font::CidToGidMap,
    "Counter" => Counter, "FieldType" => FieldType, "Trapped" => Trapped, "StructType" => StructType, "FontType" => pdf::font::FontType, "FontStretch" => pdf::font::FontStretch,
    "BaseEncoding" => pdf::encoding::BaseEncoding, "RenderingIntent" => RenderingIntent, "LineCap" => LineCap, "LineJoin" => LineJoin, "FontTypeExt" => pdf::font::FontTypeExt,
    "Vec<i32>" => Vec<i32>, "Vec<Name>" => Vec<Name>, "Vec<PdfString>" => Vec<PdfString>, "Vec<f32>" => Vec<f32>, "Option<Vec<Name>>" => Option<Vec<Name>>, "Option<i32>" => Option<i32>,
    "HashMap<Name,i32>" => std::collections::HashMap<Name, i32>, "HashMap<Name,Rectangle>" => std::collections::HashMap<Name, Rectangle>,
    "(i32,f32)" => (i32, f32), "(Ref<Font>,f32)" => (Ref<pdf::font::Font>, f32), "Box<Rectangle>" => Box<Rectangle>,
    "MaybeRef<InfoDict>" => MaybeRef<InfoDict>, "Lazy<InfoDict>" => Lazy<InfoDict>, "RcRef<InfoDict>" => RcRef<InfoDict>, "Ref<Page>" => Ref<Page>,
    "Primitive" => Primitive, "Dictionary" => Dictionary, "PdfString" => PdfString, "Name" => Name,
    "i32" => i32, "u32" => u32, "usize" => usize, "f32" => f32, "bool" => bool,
}

/// Reader-only access (C18): the Debug rendering of the value read.
pub fn read_debug(name: &str, file: &UncachedFile, p: Primitive) -> Option<Result<String, PdfError>> {
    let base = name.split(':').next().unwrap();
    Some(match base {
        "OutlineItem" => rd::<OutlineItem>(file, p),
        "CryptDict" => rd::<pdf::crypt::CryptDict>(file, p),
        "ObjStmInfo" => rd::<ObjStmInfo>(file, p),
        "NameDictionary" => rd::<NameDictionary>(file, p),
        _ => return None,
    })
}
