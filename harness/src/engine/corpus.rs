//! The seed corpus (copied from /repo/files into /verif/corpus/files so checks do not depend on test data in /repo).
pub struct CorpusFile {
    pub name: String,
    pub data: Vec<u8>,
    pub password: Vec<u8>,
}

pub fn load(verif_dir: &str, include_invalid: bool) -> Vec<CorpusFile> {
    let mut out = Vec::new();
    let base = format!("{}/corpus/files", verif_dir);
    let mut dirs = vec![(base.clone(), b"".to_vec()), (format!("{}/password_protected", base), b"userpassword".to_vec())];
    if include_invalid {
        dirs.push((format!("{}/invalid", base), b"".to_vec()));
    }
    for (dir, pw) in dirs {
        let Ok(rd) = std::fs::read_dir(&dir) else { continue };
        let mut names: Vec<_> = rd.filter_map(|e| e.ok()).map(|e| e.path()).filter(|p| p.extension().map(|e| e == "pdf").unwrap_or(false)).collect();
        names.sort();
        for p in names {
            if let Ok(data) = std::fs::read(&p) {
                out.push(CorpusFile { name: p.strip_prefix(&base).map(|q| q.to_string_lossy().to_string()).unwrap_or_default(), data, password: pw.clone() });
            }
        }
    }
    out
}
