//! proptest strategies for `Val` trees.
use super::bytes::Bytes;
use super::val::Val;
use proptest::collection::vec;
use proptest::prelude::*;

pub fn int() -> impl Strategy<Value = i64> {
    prop_oneof![
        4 => -1000i64..1000,
        2 => any::<i32>().prop_map(|i| i as i64),
        1 => prop_oneof![Just(0i64), Just(-1), Just(i32::MAX as i64), Just(i32::MIN as i64), Just(65535), Just(65536), Just(2147483646), Just(-2147483647)],
    ]
}

/// finite f32 values (as f64)
pub fn real() -> impl Strategy<Value = f64> {
    use proptest::num::f32 as pf;
    prop_oneof![
        4 => (-100000i32..100000, 0u32..6).prop_map(|(m, k)| ((m as f64) / 10f64.powi(k as i32)) as f32 as f64),
        3 => (pf::NORMAL | pf::POSITIVE | pf::NEGATIVE).prop_map(|f| f as f64),
        1 => (pf::SUBNORMAL | pf::ZERO | pf::POSITIVE | pf::NEGATIVE).prop_map(|f| f as f64),
        1 => prop_oneof![
            Just(0.0f64), Just(-0.0f64), Just(f32::MAX as f64), Just(f32::MIN as f64), Just(f32::MIN_POSITIVE as f64),
            Just(2147483648.0f64), Just(-2147483648.0f64), Just(4294967296.0f64), Just(16777217.0f32 as f64), Just(1e-7f32 as f64),
            Just(0.5), Just(-0.5), Just(1.0), Just(100.0), Just(1e10f32 as f64), Just(123456.79f32 as f64)
        ],
    ]
}

fn string_byte() -> impl Strategy<Value = u8> {
    prop_oneof![
        6 => any::<u8>(),
        4 => 0x20u8..0x7f,
        2 => prop_oneof![Just(b'('), Just(b')'), Just(b'\\')],
        2 => prop_oneof![Just(b'\n'), Just(b'\r'), Just(b'\t'), Just(8u8), Just(12u8), Just(0u8)],
        2 => b'0'..=b'9',
        1 => prop_oneof![Just(0x80u8), Just(0xffu8), Just(b'<'), Just(b'>'), Just(b'%'), Just(b'/')],
    ]
}
pub fn string_bytes(max: usize) -> impl Strategy<Value = Vec<u8>> {
    prop_oneof![
        8 => vec(string_byte(), 0..max),
        1 => Just(Vec::new()),
        1 => vec(prop_oneof![Just(b'('), Just(b')'), Just(b'a'), Just(b'\\')], 0..12),
    ]
}

fn name_char() -> impl Strategy<Value = char> {
    prop_oneof![
        10 => proptest::char::range('a', 'z'),
        4 => proptest::char::range('A', 'Z'),
        3 => proptest::char::range('0', '9'),
        3 => prop_oneof![Just('.'), Just('-'), Just('_'), Just('+'), Just('*'), Just('!'), Just('~'), Just('@'), Just('$'), Just('&'), Just('\''), Just('"'), Just('^'), Just('|'), Just(':'), Just(';'), Just('='), Just('?'), Just(','), Just('`')],
        3 => prop_oneof![Just(' '), Just('#'), Just('/'), Just('('), Just(')'), Just('<'), Just('>'), Just('['), Just(']'), Just('{'), Just('}'), Just('%'), Just('\\')],
        1 => prop_oneof![Just('\n'), Just('\r'), Just('\t'), Just('\u{c}'), Just('\u{1}'), Just('\u{7f}')],
        2 => prop_oneof![Just('é'), Just('ß'), Just('漢'), Just('😀'), Just('\u{80}'), Just('\u{ff}'), Just('\u{100}'), Just('\u{ffff}'), Just('\u{10ffff}')],
        1 => proptest::char::range('\u{1}', '\u{10ffff}'),
    ]
}
/// names the object model can hold: Unicode strings without NUL
pub fn name_string(max: usize) -> impl Strategy<Value = String> {
    prop_oneof![
        6 => vec(name_char(), 0..max).prop_map(|v| v.into_iter().collect::<String>()),
        2 => prop_oneof![Just("Type".to_string()), Just("Length".to_string()), Just("F1".to_string()), Just("A#42".to_string()), Just("".to_string()), Just("Name With Spaces".to_string())],
    ]
}
pub fn name_bytes(max: usize) -> impl Strategy<Value = Bytes> {
    name_string(max).prop_map(|s| Bytes(s.into_bytes()))
}

pub fn reference() -> impl Strategy<Value = (u64, u64)> {
    (prop_oneof![5 => 0u64..2000, 2 => 0u64..10_000_000, 1 => Just(u32::MAX as u64)], prop_oneof![5 => Just(0u64), 2 => 0u64..65536])
}

pub fn leaf() -> impl Strategy<Value = Val> {
    prop_oneof![
        1 => Just(Val::Null),
        1 => any::<bool>().prop_map(Val::Bool),
        4 => int().prop_map(Val::Int),
        4 => real().prop_map(Val::Real),
        4 => string_bytes(24).prop_map(|b| Val::Str(Bytes(b))),
        4 => name_bytes(10).prop_map(Val::Name),
        2 => reference().prop_map(|(a, b)| Val::Ref(a, b)),
    ]
}

fn dedup_keys(mut d: Vec<(Bytes, Val)>) -> Vec<(Bytes, Val)> {
    let mut seen = std::collections::HashSet::new();
    d.retain(|(k, _)| seen.insert(k.clone()));
    d
}

/// value trees of nesting depth <= `depth`
pub fn val(depth: u32) -> impl Strategy<Value = Val> {
    leaf().prop_recursive(depth, 48, 6, |inner| {
        prop_oneof![
            3 => vec(inner.clone(), 0..6).prop_map(Val::Array),
            3 => vec((name_bytes(8), inner), 0..5).prop_map(|d| Val::Dict(dedup_keys(d))),
        ]
    })
}

/// a thin chain `depth` levels deep (arrays and dictionaries alternating by the bits of `shape`)
pub fn chain(depth: usize, shape: u32, leaf: Val) -> Val {
    let mut v = leaf;
    for i in 0..depth {
        if (shape >> (i % 32)) & 1 == 0 {
            v = Val::Array(vec![v]);
        } else {
            v = Val::Dict(vec![(Bytes::from("K"), v)]);
        }
    }
    v
}
