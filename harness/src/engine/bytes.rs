//! Byte strings that serialise readably to JSON ("t:text" when printable ASCII, "h:hex" otherwise).
use serde::{Deserialize, Deserializer, Serialize, Serializer};
use std::fmt;

#[derive(Clone, PartialEq, Eq, Hash, PartialOrd, Ord, Default)]
pub struct Bytes(pub Vec<u8>);

impl Bytes {
    pub fn new(v: impl Into<Vec<u8>>) -> Self {
        Bytes(v.into())
    }
    pub fn as_slice(&self) -> &[u8] {
        &self.0
    }
}
impl std::ops::Deref for Bytes {
    type Target = Vec<u8>;
    fn deref(&self) -> &Vec<u8> {
        &self.0
    }
}
impl std::ops::DerefMut for Bytes {
    fn deref_mut(&mut self) -> &mut Vec<u8> {
        &mut self.0
    }
}
impl From<Vec<u8>> for Bytes {
    fn from(v: Vec<u8>) -> Self {
        Bytes(v)
    }
}
impl From<&[u8]> for Bytes {
    fn from(v: &[u8]) -> Self {
        Bytes(v.to_vec())
    }
}
impl From<&str> for Bytes {
    fn from(v: &str) -> Self {
        Bytes(v.as_bytes().to_vec())
    }
}

pub fn show(b: &[u8]) -> String {
    let mut s = String::new();
    for &c in b {
        match c {
            b'\\' => s.push_str("\\\\"),
            0x20..=0x7e => s.push(c as char),
            b'\n' => s.push_str("\\n"),
            b'\r' => s.push_str("\\r"),
            b'\t' => s.push_str("\\t"),
            _ => s.push_str(&format!("\\x{:02x}", c)),
        }
    }
    s
}

pub fn to_hex(b: &[u8]) -> String {
    let mut s = String::with_capacity(b.len() * 2);
    for &c in b {
        s.push_str(&format!("{:02x}", c));
    }
    s
}
pub fn from_hex(s: &str) -> Option<Vec<u8>> {
    let b = s.as_bytes();
    if b.len() % 2 != 0 {
        return None;
    }
    let nib = |c: u8| -> Option<u8> {
        match c {
            b'0'..=b'9' => Some(c - b'0'),
            b'a'..=b'f' => Some(c - b'a' + 10),
            b'A'..=b'F' => Some(c - b'A' + 10),
            _ => None,
        }
    };
    let mut out = Vec::with_capacity(b.len() / 2);
    for p in b.chunks(2) {
        out.push(nib(p[0])? << 4 | nib(p[1])?);
    }
    Some(out)
}

impl fmt::Debug for Bytes {
    fn fmt(&self, f: &mut fmt::Formatter) -> fmt::Result {
        if self.0.len() > 96 {
            write!(f, "b\"{}\"…(+{} bytes)", show(&self.0[..96]), self.0.len() - 96)
        } else {
            write!(f, "b\"{}\"", show(&self.0))
        }
    }
}

impl Serialize for Bytes {
    fn serialize<S: Serializer>(&self, s: S) -> Result<S::Ok, S::Error> {
        if self.0.iter().all(|&c| (0x20..=0x7e).contains(&c)) {
            s.serialize_str(&format!("t:{}", std::str::from_utf8(&self.0).unwrap()))
        } else {
            s.serialize_str(&format!("h:{}", to_hex(&self.0)))
        }
    }
}
impl<'de> Deserialize<'de> for Bytes {
    fn deserialize<D: Deserializer<'de>>(d: D) -> Result<Self, D::Error> {
        let s = String::deserialize(d)?;
        if let Some(t) = s.strip_prefix("t:") {
            Ok(Bytes(t.as_bytes().to_vec()))
        } else if let Some(h) = s.strip_prefix("h:") {
            from_hex(h).map(Bytes).ok_or_else(|| serde::de::Error::custom("bad hex"))
        } else {
            Err(serde::de::Error::custom("bytes need t: or h: prefix"))
        }
    }
}
