pub mod bytes;
pub mod filters;
pub mod known;
pub mod panics;
pub mod runner;
pub mod tape;
pub mod val;
pub mod gen;
