//! Opening documents in the four configurations (cached / uncached × strict / tolerant).
use pdf::file::{CachedFile, File, FileOptions, NoCache, NoLog};
use pdf::object::ParseOptions;

pub type UncachedFile = File<Vec<u8>, NoCache, NoCache, NoLog>;

pub enum AnyFile {
    Cached(CachedFile<Vec<u8>>),
    Uncached(UncachedFile),
}

pub fn open(data: &[u8], cached: bool, tolerant: bool, password: &[u8]) -> Result<AnyFile, pdf::error::PdfError> {
    let opts = if tolerant { ParseOptions::tolerant() } else { ParseOptions::strict() };
    if cached {
        FileOptions::cached().parse_options(opts).password(password).load(data.to_vec()).map(AnyFile::Cached)
    } else {
        FileOptions::uncached().parse_options(opts).password(password).load(data.to_vec()).map(AnyFile::Uncached)
    }
}

/// `with_file!(anyfile, f => expr)` evaluates `expr` with `f` bound to the concrete `&File<..>`.
#[macro_export]
macro_rules! with_file {
    ($any:expr, $f:ident => $body:expr) => {
        match $any {
            $crate::engine::open::AnyFile::Cached(ref $f) => $body,
            $crate::engine::open::AnyFile::Uncached(ref $f) => $body,
        }
    };
}
#[macro_export]
macro_rules! with_file_mut {
    ($any:expr, $f:ident => $body:expr) => {
        match $any {
            $crate::engine::open::AnyFile::Cached(ref mut $f) => $body,
            $crate::engine::open::AnyFile::Uncached(ref mut $f) => $body,
        }
    };
}
