//! Requests executed inside worker processes.
use super::alloc;
use super::errs;
use super::open::open;
use super::panics;
use super::walker::{walk_file, Out, WalkOpts};
use crate::with_file;
use serde_json::{json, Value};

pub fn handle(h: &Value, blob: &[u8]) -> Value {
    match h["kind"].as_str().unwrap_or("") {
        "walk" => walk_job(h, blob),
        "ping" => json!({"pong": true}),
        "import" => crate::props::c20::import_job(h, blob),
        "threads" => crate::props::c13::threads_job(h, blob),
        other => json!({"harness_error": format!("unknown job kind {}", other)}),
    }
}

pub fn walk_job(h: &Value, blob: &[u8]) -> Value {
    let cached = h["cached"].as_bool().unwrap_or(false);
    let tolerant = h["tolerant"].as_bool().unwrap_or(false);
    let pw = h["password"].as_str().and_then(super::bytes::from_hex).unwrap_or_default();
    let opts = WalkOpts {
        deep: h["deep"].as_bool().unwrap_or(true),
        raw_objects: h["raw_objects"].as_bool().unwrap_or(true),
        scan: h["scan"].as_bool().unwrap_or(true),
        max_objects: h["max_objects"].as_u64().unwrap_or(3000),
        max_pages: h["max_pages"].as_u64().unwrap_or(40) as u32,
        max_items: h["max_items"].as_u64().unwrap_or(4000) as usize,
        verbose: false,
    };
    let _ = pdf::verif::take_decoded();
    let region = alloc::Region::start();
    let cpu0 = alloc::thread_cpu_ms();
    let t0 = std::time::Instant::now();
    let mut reply = json!({});
    let opened = panics::catch(|| open(blob, cached, tolerant, &pw));
    match opened {
        Err(p) => {
            reply["loaded"] = json!(false);
            reply["panics"] = json!([["load", if p.in_lib { p.key() } else { format!("harness-{}", p.key()) }, format!("{}:{} {}", p.file, p.line, p.msg)]]);
        }
        Ok(Err(e)) => {
            reply["loaded"] = json!(false);
            reply["load_error"] = json!(errs::root_kind(&e));
            reply["load_error_text"] = json!(format!("{:?}", e).chars().take(300).collect::<String>());
            reply["panics"] = json!([]);
        }
        Ok(Ok(f)) => {
            let t = with_file!(f, file => walk_file(file, &opts));
            reply["loaded"] = json!(true);
            reply["entries"] = json!(t.entries.len());
            reply["ok_entries"] = json!(t.count_ok());
            let panics: Vec<Value> = t.entries.iter().filter_map(|(c, o)| if let Out::Panic(k) = o { Some(json!([c, k, ""])) } else { None }).collect();
            reply["panics"] = json!(panics);
            // coverage labels: which entry points produced a value
            let mut reached: std::collections::BTreeSet<String> = Default::default();
            for (c, o) in &t.entries {
                if let Out::Ok(_) = o {
                    let head: String = c.split(|ch: char| ch == '(' || ch == '[').next().unwrap_or("").to_string();
                    let tail = c.rsplit('.').next().unwrap_or("");
                    let tag = if c.starts_with("page[") { format!("page.{}", tail.split(|ch: char| ch == '(' || ch == '[').next().unwrap_or("")) } else { head };
                    reached.insert(tag);
                }
            }
            reply["reached"] = json!(reached.into_iter().collect::<Vec<_>>());
            if h["want_transcript"].as_bool().unwrap_or(false) {
                reply["transcript"] = serde_json::to_value(&t).unwrap_or(json!(null));
            }
        }
    }
    let (total, peak) = region.stop();
    reply["alloc_total"] = json!(total);
    reply["alloc_peak"] = json!(peak);
    reply["cpu_ms"] = json!(alloc::thread_cpu_ms() - cpu0);
    reply["wall_ms"] = json!(t0.elapsed().as_millis() as u64);
    reply["decoded"] = json!(pdf::verif::take_decoded());
    reply["input_len"] = json!(blob.len());
    reply
}
