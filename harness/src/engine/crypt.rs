//! Independent implementation of the standard security handler (ISO 32000-1 §7.6, ISO 32000-2 §7.6.4):
//! Algorithms 1, 1.A, 2, 2.B, 3, 4, 5, 8, 9, 10.  RC4 and all key schedules are written here; MD5, SHA-2 and
//! the AES block cipher come from crates (trusted primitives).
use super::bytes::Bytes;
use super::val::Val;
use aes::cipher::{block_padding::NoPadding, block_padding::Pkcs7, BlockEncryptMut, KeyIvInit};
use sha2::{Digest, Sha256, Sha384, Sha512};

pub const PAD: [u8; 32] = [
    0x28, 0xBF, 0x4E, 0x5E, 0x4E, 0x75, 0x8A, 0x41, 0x64, 0x00, 0x4E, 0x56, 0xFF, 0xFA, 0x01, 0x08, 0x2E, 0x2E, 0x00, 0xB6, 0xD0, 0x68, 0x3E, 0x80, 0x2F, 0x0C, 0xA9, 0xFE, 0x64, 0x53, 0x69, 0x7A,
];

pub fn rc4(key: &[u8], data: &[u8]) -> Vec<u8> {
    let mut s: Vec<u8> = (0..=255u8).collect();
    let mut j = 0usize;
    for i in 0..256 {
        j = (j + s[i] as usize + key[i % key.len()] as usize) & 255;
        s.swap(i, j);
    }
    let (mut i, mut j) = (0usize, 0usize);
    data.iter()
        .map(|&b| {
            i = (i + 1) & 255;
            j = (j + s[i] as usize) & 255;
            s.swap(i, j);
            b ^ s[(s[i] as usize + s[j] as usize) & 255]
        })
        .collect()
}

fn md5(parts: &[&[u8]]) -> [u8; 16] {
    let mut c = md5::Context::new();
    for p in parts {
        c.consume(p);
    }
    *c.compute()
}

fn pad_pw(pw: &[u8]) -> [u8; 32] {
    let mut out = [0u8; 32];
    let n = pw.len().min(32);
    out[..n].copy_from_slice(&pw[..n]);
    out[n..].copy_from_slice(&PAD[..32 - n]);
    out
}

fn aes_cbc_encrypt(key: &[u8], iv: &[u8; 16], data: &[u8], pad: bool) -> Vec<u8> {
    let mut buf = data.to_vec();
    let len = data.len();
    buf.resize(len + 16, 0);
    let out_len = match key.len() {
        16 => {
            let e = cbc::Encryptor::<aes::Aes128>::new_from_slices(key, iv).unwrap();
            if pad {
                e.encrypt_padded_mut::<Pkcs7>(&mut buf, len).unwrap().len()
            } else {
                e.encrypt_padded_mut::<NoPadding>(&mut buf, len).unwrap().len()
            }
        }
        32 => {
            let e = cbc::Encryptor::<aes::Aes256>::new_from_slices(key, iv).unwrap();
            if pad {
                e.encrypt_padded_mut::<Pkcs7>(&mut buf, len).unwrap().len()
            } else {
                e.encrypt_padded_mut::<NoPadding>(&mut buf, len).unwrap().len()
            }
        }
        n => panic!("harness: AES key of {} bytes", n),
    };
    buf.truncate(out_len);
    buf
}

/// AES-256 ECB of a single block (Perms entry): CBC with zero IV on one block is the same thing.
fn aes256_ecb_block(key: &[u8], block: &[u8; 16]) -> Vec<u8> {
    aes_cbc_encrypt(key, &[0u8; 16], block, false)
}

/// Algorithm 2.B (revision 6 hash).
pub fn hash_2b(password: &[u8], salt: &[u8], udata: &[u8]) -> [u8; 32] {
    let mut k: Vec<u8> = Sha256::new().chain_update(password).chain_update(salt).chain_update(udata).finalize().to_vec();
    let mut i = 0usize;
    let mut last_e: u8 = 0;
    while i < 64 || (last_e as usize) > i - 32 {
        let mut k1 = Vec::with_capacity((password.len() + k.len() + udata.len()) * 64);
        for _ in 0..64 {
            k1.extend_from_slice(password);
            k1.extend_from_slice(&k);
            k1.extend_from_slice(udata);
        }
        let mut iv = [0u8; 16];
        iv.copy_from_slice(&k[16..32]);
        let e = aes_cbc_encrypt(&k[..16], &iv, &k1, false);
        let m: u32 = e[..16].iter().map(|&b| b as u32).sum::<u32>() % 3;
        k = match m {
            0 => Sha256::digest(&e).to_vec(),
            1 => Sha384::digest(&e).to_vec(),
            _ => Sha512::digest(&e).to_vec(),
        };
        last_e = *e.last().unwrap();
        i += 1;
    }
    let mut out = [0u8; 32];
    out.copy_from_slice(&k[..32]);
    out
}

fn hash_r5(password: &[u8], salt: &[u8], udata: &[u8]) -> [u8; 32] {
    let mut out = [0u8; 32];
    out.copy_from_slice(&Sha256::new().chain_update(password).chain_update(salt).chain_update(udata).finalize());
    out
}

#[derive(Clone, Copy, Debug, PartialEq, Eq, serde::Serialize, serde::Deserialize)]
pub enum Method {
    Rc4,
    AesV2,
    AesV3,
}

#[derive(Clone, Debug, serde::Serialize, serde::Deserialize)]
pub struct CryptSpec {
    /// revision 2..=6
    pub r: u32,
    /// /V
    pub v: u32,
    /// key length in bits (40..=128 step 8 for RC4/AESV2, 256 for AESV3)
    pub bits: u32,
    pub method: Method,
    pub user_pw: Bytes,
    pub owner_pw: Bytes,
    pub p: i32,
    pub id0: Bytes,
    pub encrypt_metadata: bool,
    /// 40 bytes of salt material / file key seed for R5/R6 (generated, any values are valid)
    pub seed: Bytes,
    /// write /Length in the Encrypt dictionary (optional where the default applies)
    pub write_length: bool,
}

#[derive(Clone, Debug)]
pub struct Encryptor {
    pub spec: CryptSpec,
    pub file_key: Vec<u8>,
    pub o: Vec<u8>,
    pub u: Vec<u8>,
    pub oe: Vec<u8>,
    pub ue: Vec<u8>,
    pub perms: Vec<u8>,
    /// object number of the /Encrypt dictionary when it is an indirect object
    pub encrypt_obj: Option<u64>,
    /// object number of the catalog's /Metadata stream
    pub metadata_obj: Option<u64>,
}

/// UTF-8 password as the R5/R6 algorithms see it (SASLprep, at most 127 bytes).
pub fn prep_password(pw: &[u8]) -> Vec<u8> {
    let s = String::from_utf8_lossy(pw).to_string();
    let prepped = stringprep::saslprep(&s).map(|c| c.to_string()).unwrap_or(s);
    let mut b = prepped.into_bytes();
    b.truncate(127);
    b
}

impl Encryptor {
    pub fn new(spec: &CryptSpec) -> Encryptor {
        let n = (spec.bits / 8) as usize;
        if spec.r <= 4 {
            // Algorithm 3: O
            let owner_src: &[u8] = if spec.owner_pw.is_empty() { &spec.user_pw } else { &spec.owner_pw };
            let mut h = md5(&[&pad_pw(owner_src)]);
            if spec.r >= 3 {
                for _ in 0..50 {
                    h = md5(&[&h]);
                }
            }
            let okey = &h[..n.min(16)];
            let mut o = rc4(okey, &pad_pw(&spec.user_pw));
            if spec.r >= 3 {
                for i in 1u8..=19 {
                    let k: Vec<u8> = okey.iter().map(|b| b ^ i).collect();
                    o = rc4(&k, &o);
                }
            }
            // Algorithm 2: file key
            let mut parts: Vec<Vec<u8>> = vec![pad_pw(&spec.user_pw).to_vec(), o.clone(), spec.p.to_le_bytes().to_vec(), spec.id0.0.clone()];
            if spec.r >= 4 && !spec.encrypt_metadata {
                parts.push(vec![0xff; 4]);
            }
            let refs: Vec<&[u8]> = parts.iter().map(|v| v.as_slice()).collect();
            let mut k = md5(&refs);
            if spec.r >= 3 {
                for _ in 0..50 {
                    k = md5(&[&k[..n]]);
                }
            }
            let file_key = k[..n].to_vec();
            // Algorithm 4 / 5: U
            let u = if spec.r == 2 {
                rc4(&file_key, &PAD)
            } else {
                let h = md5(&[&PAD, &spec.id0.0]);
                let mut x = rc4(&file_key, &h);
                for i in 1u8..=19 {
                    let k: Vec<u8> = file_key.iter().map(|b| b ^ i).collect();
                    x = rc4(&k, &x);
                }
                // 16 bytes of arbitrary padding
                let mut u = x;
                u.extend_from_slice(&spec.seed.0.iter().cycle().take(16).cloned().collect::<Vec<u8>>());
                if u.len() < 32 {
                    u.resize(32, 0);
                }
                u
            };
            Encryptor { spec: spec.clone(), file_key, o, u, oe: vec![], ue: vec![], perms: vec![], encrypt_obj: None, metadata_obj: None }
        } else {
            // Algorithms 8, 9, 10 (R6) and their R5 forms
            let seed: Vec<u8> = spec.seed.0.iter().cycle().take(64).cloned().collect();
            let file_key: Vec<u8> = seed[..32].to_vec();
            let (uvs, uks, ovs, oks) = (&seed[32..40], &seed[40..48], &seed[48..56], &seed[56..64]);
            let hash = |pw: &[u8], salt: &[u8], ud: &[u8]| if spec.r == 6 { hash_2b(pw, salt, ud) } else { hash_r5(pw, salt, ud) };
            let upw = prep_password(&spec.user_pw);
            let opw = prep_password(&spec.owner_pw);
            let mut u = hash(&upw, uvs, &[]).to_vec();
            u.extend_from_slice(uvs);
            u.extend_from_slice(uks);
            let ue = aes_cbc_encrypt(&hash(&upw, uks, &[]), &[0; 16], &file_key, false);
            let mut o = hash(&opw, ovs, &u).to_vec();
            o.extend_from_slice(ovs);
            o.extend_from_slice(oks);
            let oe = aes_cbc_encrypt(&hash(&opw, oks, &u), &[0; 16], &file_key, false);
            let mut pb = [0u8; 16];
            pb[..4].copy_from_slice(&spec.p.to_le_bytes());
            pb[4..8].copy_from_slice(&[0xff; 4]);
            pb[8] = if spec.encrypt_metadata { b'T' } else { b'F' };
            pb[9..12].copy_from_slice(b"adb");
            pb[12..16].copy_from_slice(&seed[..4]);
            let perms = aes256_ecb_block(&file_key, &pb);
            Encryptor { spec: spec.clone(), file_key, o, u, oe, ue, perms, encrypt_obj: None, metadata_obj: None }
        }
    }

    /// The /Encrypt dictionary.
    pub fn dict(&self) -> Val {
        let s = &self.spec;
        let mut d: Vec<(Bytes, Val)> = vec![
            (Bytes::from("Filter"), Val::name("Standard")),
            (Bytes::from("V"), Val::Int(s.v as i64)),
            (Bytes::from("R"), Val::Int(s.r as i64)),
            (Bytes::from("O"), Val::Str(Bytes(self.o.clone()))),
            (Bytes::from("U"), Val::Str(Bytes(self.u.clone()))),
            (Bytes::from("P"), Val::Int(s.p as i64)),
        ];
        if s.write_length || (s.v >= 2 && s.bits != 40) {
            d.push((Bytes::from("Length"), Val::Int(s.bits as i64)));
        }
        if s.v >= 4 {
            let cfm = match s.method {
                Method::Rc4 => "V2",
                Method::AesV2 => "AESV2",
                Method::AesV3 => "AESV3",
            };
            let mut cf = vec![("Type", Val::name("CryptFilter")), ("CFM", Val::name(cfm)), ("AuthEvent", Val::name("DocOpen"))];
            cf.push(("Length", Val::Int((s.bits / 8) as i64)));
            d.push((Bytes::from("CF"), Val::dict(vec![("StdCF", Val::dict(cf))])));
            d.push((Bytes::from("StmF"), Val::name("StdCF")));
            d.push((Bytes::from("StrF"), Val::name("StdCF")));
            if !s.encrypt_metadata || s.write_length {
                d.push((Bytes::from("EncryptMetadata"), Val::Bool(s.encrypt_metadata)));
            }
        }
        if s.r >= 5 {
            d.push((Bytes::from("OE"), Val::Str(Bytes(self.oe.clone()))));
            d.push((Bytes::from("UE"), Val::Str(Bytes(self.ue.clone()))));
            d.push((Bytes::from("Perms"), Val::Str(Bytes(self.perms.clone()))));
        }
        Val::Dict(d)
    }

    fn iv(&self, num: u64, gen: u64, salt: usize) -> [u8; 16] {
        let h = md5(&[&num.to_le_bytes(), &gen.to_le_bytes(), &(salt as u64).to_le_bytes(), &self.spec.seed.0]);
        h
    }

    /// Algorithm 1 / 1.A
    pub fn encrypt_bytes(&self, num: u64, gen: u64, data: &[u8], salt: usize) -> Vec<u8> {
        match self.spec.method {
            Method::AesV3 => {
                let iv = self.iv(num, gen, salt);
                let mut out = iv.to_vec();
                out.extend_from_slice(&aes_cbc_encrypt(&self.file_key, &iv, data, true));
                out
            }
            m => {
                let mut k = self.file_key.clone();
                k.extend_from_slice(&(num as u32).to_le_bytes()[..3]);
                k.extend_from_slice(&(gen as u32).to_le_bytes()[..2]);
                if m == Method::AesV2 {
                    k.extend_from_slice(b"sAlT");
                }
                let h = md5(&[&k]);
                let okey = &h[..(self.file_key.len() + 5).min(16)];
                if m == Method::Rc4 {
                    rc4(okey, data)
                } else {
                    let iv = self.iv(num, gen, salt);
                    let mut out = iv.to_vec();
                    out.extend_from_slice(&aes_cbc_encrypt(okey, &iv, data, true));
                    out
                }
            }
        }
    }

    pub fn stream_len(&self, plain: usize) -> usize {
        match self.spec.method {
            Method::Rc4 => plain,
            _ => 16 + (plain / 16 + 1) * 16,
        }
    }

    fn exempt_object(&self, num: u64) -> bool {
        self.encrypt_obj == Some(num) || (!self.spec.encrypt_metadata && self.metadata_obj == Some(num))
    }

    pub fn is_exempt_stream(&self, num: u64, dict: &[(Bytes, Val)]) -> bool {
        if self.exempt_object(num) {
            return true;
        }
        // cross-reference streams are never encrypted
        dict.iter().any(|(k, v)| k.as_slice() == b"Type" && *v == Val::name("XRef"))
    }

    /// Encrypt every string and the stream data of indirect object (num, gen).
    pub fn encrypt_val(&self, num: u64, gen: u64, v: &Val) -> Val {
        if self.exempt_object(num) {
            return v.clone();
        }
        let mut counter = 0usize;
        self.enc_rec(num, gen, v, &mut counter, true)
    }

    fn enc_rec(&self, num: u64, gen: u64, v: &Val, counter: &mut usize, top: bool) -> Val {
        match v {
            Val::Str(s) => {
                *counter += 1;
                Val::Str(Bytes(self.encrypt_bytes(num, gen, s, *counter)))
            }
            Val::Array(a) => Val::Array(a.iter().map(|x| self.enc_rec(num, gen, x, counter, false)).collect()),
            Val::Dict(d) => Val::Dict(d.iter().map(|(k, x)| (k.clone(), self.enc_rec(num, gen, x, counter, false))).collect()),
            Val::Stream(d, data) => {
                let _ = top;
                if self.is_exempt_stream(num, d) {
                    return v.clone();
                }
                let nd: Vec<(Bytes, Val)> = d.iter().map(|(k, x)| (k.clone(), self.enc_rec(num, gen, x, counter, false))).collect();
                Val::Stream(nd, Bytes(self.encrypt_bytes(num, gen, data, 0)))
            }
            other => other.clone(),
        }
    }
}
