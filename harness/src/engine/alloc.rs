//! Counting global allocator: total bytes allocated and peak live bytes, per measured region.
use std::alloc::{GlobalAlloc, Layout, System};
use std::sync::atomic::{AtomicI64, AtomicU64, Ordering};

pub struct Counting;

static TOTAL: AtomicU64 = AtomicU64::new(0);
static LIVE: AtomicI64 = AtomicI64::new(0);
static PEAK: AtomicI64 = AtomicI64::new(0);
/// allocations above this size fail (simulates a bounded address space without RLIMIT_AS games)
static LIMIT: AtomicU64 = AtomicU64::new(u64::MAX);

unsafe impl GlobalAlloc for Counting {
    unsafe fn alloc(&self, layout: Layout) -> *mut u8 {
        let size = layout.size() as u64;
        if size > LIMIT.load(Ordering::Relaxed) {
            return std::ptr::null_mut();
        }
        let p = System.alloc(layout);
        if !p.is_null() {
            TOTAL.fetch_add(size, Ordering::Relaxed);
            let live = LIVE.fetch_add(size as i64, Ordering::Relaxed) + size as i64;
            PEAK.fetch_max(live, Ordering::Relaxed);
        }
        p
    }
    unsafe fn dealloc(&self, ptr: *mut u8, layout: Layout) {
        System.dealloc(ptr, layout);
        LIVE.fetch_sub(layout.size() as i64, Ordering::Relaxed);
    }
    unsafe fn alloc_zeroed(&self, layout: Layout) -> *mut u8 {
        let size = layout.size() as u64;
        if size > LIMIT.load(Ordering::Relaxed) {
            return std::ptr::null_mut();
        }
        let p = System.alloc_zeroed(layout);
        if !p.is_null() {
            TOTAL.fetch_add(size, Ordering::Relaxed);
            let live = LIVE.fetch_add(size as i64, Ordering::Relaxed) + size as i64;
            PEAK.fetch_max(live, Ordering::Relaxed);
        }
        p
    }
    unsafe fn realloc(&self, ptr: *mut u8, layout: Layout, new_size: usize) -> *mut u8 {
        if new_size as u64 > LIMIT.load(Ordering::Relaxed) {
            return std::ptr::null_mut();
        }
        let p = System.realloc(ptr, layout, new_size);
        if !p.is_null() {
            let old = layout.size() as i64;
            let new = new_size as i64;
            if new > old {
                TOTAL.fetch_add((new - old) as u64, Ordering::Relaxed);
            }
            let live = LIVE.fetch_add(new - old, Ordering::Relaxed) + (new - old);
            PEAK.fetch_max(live, Ordering::Relaxed);
        }
        p
    }
}

pub struct Region {
    total0: u64,
    live0: i64,
}
impl Region {
    /// Start measuring (single measured region at a time per process).
    pub fn start() -> Region {
        let live0 = LIVE.load(Ordering::Relaxed);
        PEAK.store(live0, Ordering::Relaxed);
        Region { total0: TOTAL.load(Ordering::Relaxed), live0 }
    }
    /// (total bytes allocated, peak live bytes above the starting level)
    pub fn stop(&self) -> (u64, u64) {
        let total = TOTAL.load(Ordering::Relaxed) - self.total0;
        let peak = (PEAK.load(Ordering::Relaxed) - self.live0).max(0) as u64;
        (total, peak)
    }
}

pub fn set_single_allocation_limit(bytes: u64) {
    LIMIT.store(bytes, Ordering::Relaxed);
}

pub fn thread_cpu_ms() -> u64 {
    let mut ts = libc::timespec { tv_sec: 0, tv_nsec: 0 };
    unsafe {
        libc::clock_gettime(libc::CLOCK_THREAD_CPUTIME_ID, &mut ts);
    }
    ts.tv_sec as u64 * 1000 + ts.tv_nsec as u64 / 1_000_000
}
