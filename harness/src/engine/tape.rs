//! A choice tape: every optional construct a printer/encoder can use is one read; 0 means "canonical".
//! Tapes are produced by proptest strategies, so shrinking the tape shrinks towards the plain spelling.
#[derive(Clone, Debug)]
pub struct Tape {
    data: Vec<u8>,
    pos: usize,
    pub used: std::collections::BTreeSet<&'static str>,
    /// constructs that are switched off (open-finding gates)
    pub disabled: std::collections::BTreeSet<String>,
    pub excluded: Vec<String>,
}
impl Tape {
    pub fn new(data: &[u8]) -> Tape {
        Tape { data: data.to_vec(), pos: 0, used: Default::default(), disabled: Default::default(), excluded: Vec::new() }
    }
    pub fn byte(&mut self) -> u8 {
        let b = self.data.get(self.pos).copied().unwrap_or(0);
        self.pos += 1;
        b
    }
    /// choose in 0..n (0 = canonical)
    pub fn choose(&mut self, n: usize) -> usize {
        if n <= 1 {
            return 0;
        }
        (self.byte() as usize) % n
    }
    /// A named optional construct; returns true when the tape selects it (probability num/256) and it is not gated off.
    pub fn opt(&mut self, name: &'static str, num: u32) -> bool {
        let b = self.byte() as u32;
        if b != 0 && b <= num {
            if self.disabled.contains(name) {
                self.excluded.push(name.to_string());
                return false;
            }
            self.used.insert(name);
            true
        } else {
            false
        }
    }
    pub fn mark(&mut self, name: &'static str) {
        self.used.insert(name);
    }
    pub fn exhausted(&self) -> bool {
        self.pos >= self.data.len()
    }
}
