//! E6: process isolation.  Cases that may take the process down (stack overflow, abort, allocation
//! failure, runaway loops) are executed in worker child processes (`vh worker`); the parent pins a death or a
//! time-out on the one request that was in flight.
use serde_json::{json, Value};
use std::cell::RefCell;
use std::io::{BufReader, Read, Write};
use std::process::{Child, ChildStdin, ChildStdout, Command, Stdio};
use std::sync::atomic::{AtomicBool, AtomicU64, Ordering};
use std::sync::Arc;
use std::time::{Duration, Instant};

pub enum Reply {
    Ok(Value),
    Died { signal: Option<i32>, code: Option<i32>, stderr_tail: String },
    Timeout { seconds: u64 },
}

pub struct Worker {
    child: Child,
    stdin: ChildStdin,
    stdout: BufReader<ChildStdout>,
    stderr_path: String,
    /// deadline in ms since `epoch` (0 = none), watched by the monitor thread
    deadline: Arc<AtomicU64>,
    killed: Arc<AtomicBool>,
    alive: Arc<AtomicBool>,
    epoch: Instant,
}

fn work_dir() -> String {
    let d = format!("{}/work", std::env::var("VERIF_DIR").unwrap_or_else(|_| "/verif".into()));
    let _ = std::fs::create_dir_all(&d);
    d
}

static COUNTER: AtomicU64 = AtomicU64::new(0);

impl Worker {
    pub fn spawn() -> std::io::Result<Worker> {
        let exe = std::env::current_exe()?;
        let id = COUNTER.fetch_add(1, Ordering::Relaxed);
        let stderr_path = format!("{}/worker-{}-{}.err", work_dir(), std::process::id(), id);
        let errf = std::fs::File::create(&stderr_path)?;
        let mut child = Command::new(exe).arg("worker").stdin(Stdio::piped()).stdout(Stdio::piped()).stderr(Stdio::from(errf)).env("RUST_BACKTRACE", "0").spawn()?;
        let stdin = child.stdin.take().unwrap();
        let stdout = BufReader::new(child.stdout.take().unwrap());
        let deadline = Arc::new(AtomicU64::new(0));
        let killed = Arc::new(AtomicBool::new(false));
        let alive = Arc::new(AtomicBool::new(true));
        let epoch = Instant::now();
        let pid = child.id() as i32;
        {
            let deadline = deadline.clone();
            let killed = killed.clone();
            let alive = alive.clone();
            std::thread::spawn(move || {
                while alive.load(Ordering::Relaxed) {
                    let d = deadline.load(Ordering::Relaxed);
                    if d != 0 && epoch.elapsed().as_millis() as u64 > d {
                        killed.store(true, Ordering::SeqCst);
                        unsafe {
                            libc::kill(pid, libc::SIGKILL);
                        }
                        break;
                    }
                    std::thread::sleep(Duration::from_millis(50));
                }
            });
        }
        Ok(Worker { child, stdin, stdout, stderr_path, deadline, killed, alive, epoch })
    }

    fn read_frame(&mut self) -> std::io::Result<Vec<u8>> {
        let mut len = [0u8; 4];
        self.stdout.read_exact(&mut len)?;
        let n = u32::from_le_bytes(len) as usize;
        let mut buf = vec![0u8; n];
        self.stdout.read_exact(&mut buf)?;
        Ok(buf)
    }

    pub fn request(&mut self, header: &Value, blob: &[u8], timeout: Duration) -> Reply {
        let h = serde_json::to_vec(header).unwrap();
        let send = (|| -> std::io::Result<()> {
            self.stdin.write_all(&(h.len() as u32).to_le_bytes())?;
            self.stdin.write_all(&h)?;
            self.stdin.write_all(&(blob.len() as u32).to_le_bytes())?;
            self.stdin.write_all(blob)?;
            self.stdin.flush()
        })();
        self.deadline.store(self.epoch.elapsed().as_millis() as u64 + timeout.as_millis() as u64, Ordering::SeqCst);
        let got = if send.is_ok() { self.read_frame() } else { Err(std::io::Error::new(std::io::ErrorKind::BrokenPipe, "send failed")) };
        self.deadline.store(0, Ordering::SeqCst);
        match got {
            Ok(buf) => match serde_json::from_slice::<Value>(&buf) {
                Ok(v) => Reply::Ok(v),
                Err(e) => Reply::Died { signal: None, code: None, stderr_tail: format!("bad reply frame: {}", e) },
            },
            Err(_) => {
                let status = self.child.wait().ok();
                self.alive.store(false, Ordering::Relaxed);
                if self.killed.load(Ordering::SeqCst) {
                    return Reply::Timeout { seconds: timeout.as_secs() };
                }
                use std::os::unix::process::ExitStatusExt;
                let signal = status.and_then(|s| s.signal());
                let code = status.and_then(|s| s.code());
                let tail = std::fs::read_to_string(&self.stderr_path).unwrap_or_default();
                let tail: String = tail.lines().rev().take(6).collect::<Vec<_>>().into_iter().rev().collect::<Vec<_>>().join(" | ");
                Reply::Died { signal, code, stderr_tail: tail }
            }
        }
    }

    pub fn is_alive(&self) -> bool {
        self.alive.load(Ordering::Relaxed) && !self.killed.load(Ordering::Relaxed)
    }
}

impl Drop for Worker {
    fn drop(&mut self) {
        self.alive.store(false, Ordering::Relaxed);
        let _ = self.child.kill();
        let _ = self.child.wait();
        let _ = std::fs::remove_file(&self.stderr_path);
    }
}

thread_local! {
    static WORKER: RefCell<Option<Worker>> = RefCell::new(None);
}

/// Send one request through this thread's worker (spawned on demand, respawned after a death).
pub fn request(header: &Value, blob: &[u8], timeout: Duration) -> Reply {
    WORKER.with(|w| {
        let mut w = w.borrow_mut();
        if w.as_ref().map(|x| !x.is_alive()).unwrap_or(true) {
            *w = None;
            match Worker::spawn() {
                Ok(n) => *w = Some(n),
                Err(e) => return Reply::Died { signal: None, code: None, stderr_tail: format!("harness: cannot spawn worker: {}", e) },
            }
        }
        let r = w.as_mut().unwrap().request(header, blob, timeout);
        let exiting = matches!(&r, Reply::Ok(v) if v.get("_exiting").is_some());
        if !matches!(r, Reply::Ok(_)) || exiting {
            *w = None;
        }
        r
    })
}

pub fn drop_thread_worker() {
    WORKER.with(|w| *w.borrow_mut() = None);
}

// ------------------------------------------------------------------ child side

fn read_exact_stdin(n: usize) -> Option<Vec<u8>> {
    let mut buf = vec![0u8; n];
    std::io::stdin().lock().read_exact(&mut buf).ok()?;
    Some(buf)
}

/// The worker main loop: `handler(header, blob) -> reply`.
pub fn worker_main(handler: impl Fn(&Value, &[u8]) -> Value) -> ! {
    // one oversized allocation aborts the worker (reported as a crash) instead of exhausting the machine
    super::alloc::set_single_allocation_limit(1 << 30);
    unsafe {
        let lim = libc::rlimit { rlim_cur: 24 << 30, rlim_max: 24 << 30 };
        libc::setrlimit(libc::RLIMIT_AS, &lim);
    }
    loop {
        let Some(l) = read_exact_stdin(4) else { std::process::exit(0) };
        let n = u32::from_le_bytes([l[0], l[1], l[2], l[3]]) as usize;
        let Some(h) = read_exact_stdin(n) else { std::process::exit(0) };
        let Some(l) = read_exact_stdin(4) else { std::process::exit(0) };
        let n = u32::from_le_bytes([l[0], l[1], l[2], l[3]]) as usize;
        let Some(blob) = read_exact_stdin(n) else { std::process::exit(0) };
        let header: Value = serde_json::from_slice(&h).unwrap_or(json!({}));
        let reply = handler(&header, &blob);
        let out = serde_json::to_vec(&reply).unwrap();
        let mut so = std::io::stdout().lock();
        let _ = so.write_all(&(out.len() as u32).to_le_bytes());
        let _ = so.write_all(&out);
        let _ = so.flush();
    }
}

/// Child side: answer the current request and leave the process at once (used when threads of the job are blocked
/// for good and cannot be joined).  The parent discards the worker on seeing `_exiting`.
pub fn reply_and_exit(mut reply: Value) -> ! {
    reply["_exiting"] = json!(true);
    let out = serde_json::to_vec(&reply).unwrap();
    {
        let mut so = std::io::stdout().lock();
        let _ = so.write_all(&(out.len() as u32).to_le_bytes());
        let _ = so.write_all(&out);
        let _ = so.flush();
    }
    unsafe { libc::_exit(0) }
}
