//! E5: drives proptest strategies (and plain enumerations) in parallel, classifies cases, handles known
//! findings, saves shrunk failures as replay files and writes the evidence file.
use super::known::Known;
use super::panics;
use proptest::strategy::{Strategy, ValueTree};
use proptest::test_runner::{Config, RngSeed, TestCaseError, TestError, TestRunner};
use serde_json::{json, Value};
use std::collections::hash_map::DefaultHasher;
use std::collections::{BTreeMap, HashSet};
use std::hash::{Hash, Hasher};
use std::sync::atomic::{AtomicBool, AtomicU64, Ordering};
use std::sync::Mutex;
use std::time::Instant;

#[derive(Clone, Copy, PartialEq, Eq, Debug)]
pub enum Tier {
    Quick,
    Thorough,
}
impl Tier {
    pub fn name(&self) -> &'static str {
        match self {
            Tier::Quick => "quick",
            Tier::Thorough => "thorough",
        }
    }
    /// pick a count by tier
    pub fn pick(&self, quick: u64, thorough: u64) -> u64 {
        match self {
            Tier::Quick => quick,
            Tier::Thorough => thorough,
        }
    }
}

/// What a test reports about one case.
#[derive(Default)]
pub struct CaseInfo {
    pub labels: Vec<String>,
    pub nontrivial: bool,
    /// hash identifying the case for the distinct count (set by `distinct`)
    pub hash: u64,
    pub sample: Option<Value>,
    /// constructs excluded by an open-finding gate while generating this case
    pub excluded: Vec<String>,
}
impl CaseInfo {
    pub fn label(&mut self, l: impl Into<String>) {
        self.labels.push(l.into());
    }
    pub fn distinct(&mut self, h: impl Hash) {
        let mut s = DefaultHasher::new();
        h.hash(&mut s);
        self.hash = s.finish();
    }
    pub fn nontrivial(&mut self, b: bool) {
        self.nontrivial = b;
    }
}

#[derive(Clone, Debug)]
pub struct Failure {
    /// specific signature of what failed (matched against known_findings.json)
    pub key: String,
    pub msg: String,
    /// JSON artifact sufficient to re-run the oracle without the generator
    pub artifact: Value,
}
impl Failure {
    pub fn new(key: impl Into<String>, msg: impl Into<String>, artifact: Value) -> Failure {
        Failure { key: key.into(), msg: msg.into(), artifact }
    }
}

#[derive(Default)]
pub struct Report {
    pub evaluations: u64,
    pub nontrivial: HashSet<u64>,
    pub classes: BTreeMap<String, u64>,
    pub samples: Vec<Value>,
    pub excluded: BTreeMap<String, u64>,
    pub sections: Vec<Value>,
    pub violations: Vec<(String, String)>, // (key, replay path)
    pub harness_errors: Vec<String>,
    pub known_samples: BTreeMap<String, Value>,
    pub exhaustive_sections: Vec<String>,
    pub replayed: u64,
    pub extra: BTreeMap<String, Value>,
}

pub struct Ctx {
    pub prop: String,
    pub tier: Tier,
    pub seed: u64,
    pub known: Known,
    pub report: Mutex<Report>,
    pub start: Instant,
    pub threads: usize,
    pub verif_dir: String,
    pub stop: AtomicBool,
}

fn hash_str(s: &str) -> u64 {
    let mut h = DefaultHasher::new();
    s.hash(&mut h);
    h.finish()
}

const MAX_SAMPLES_PER_SECTION: usize = 3;

impl Ctx {
    pub fn new(prop: &str, tier: Tier, seed: u64, verif_dir: &str) -> Ctx {
        let threads = std::env::var("VERIF_THREADS")
            .ok()
            .and_then(|s| s.parse().ok())
            .unwrap_or_else(|| std::thread::available_parallelism().map(|n| n.get()).unwrap_or(4).min(16));
        Ctx {
            prop: prop.to_string(),
            tier,
            seed,
            known: Known::load(&format!("{}/known_findings.json", verif_dir)),
            report: Mutex::new(Report::default()),
            start: Instant::now(),
            threads,
            verif_dir: verif_dir.to_string(),
            stop: AtomicBool::new(false),
        }
    }

    pub fn harness_error(&self, msg: impl Into<String>) {
        let m = msg.into();
        eprintln!("HARNESS-ERROR property={} {}", self.prop, m);
        self.report.lock().unwrap().harness_errors.push(m);
    }

    pub fn has_violation(&self) -> bool {
        !self.report.lock().unwrap().violations.is_empty()
    }

    /// Handle a failure: known finding → count and continue (returns false); otherwise returns true.
    fn is_new(&self, f: &Failure) -> bool {
        if std::env::var("VH_SURVEY").is_ok() && !f.key.starts_with("harness-") {
            // development aid: list every distinct failure key instead of stopping at the first
            let mut r = self.report.lock().unwrap();
            let n = r.extra.entry("survey".to_string()).or_insert_with(|| json!({}));
            if n.get(&f.key).is_none() {
                n[&f.key] = json!(truncate(&f.msg, 300));
                println!("SURVEY key={} msg={}", f.key, truncate(&f.msg, 300));
            }
            return false;
        }
        if self.known.is_open(&self.prop, &f.key) {
            self.known.hit(&self.prop, &f.key);
            let mut r = self.report.lock().unwrap();
            r.known_samples.entry(f.key.clone()).or_insert_with(|| json!({"msg": f.msg, "artifact": f.artifact}));
            false
        } else {
            true
        }
    }

    pub fn save_violation(&self, section: &str, f: &Failure, case_debug: &str) -> String {
        if f.key.starts_with("harness-") {
            self.harness_error(format!("section {}: {} {} case={}", section, f.key, f.msg, truncate(case_debug, 600)));
            return String::new();
        }
        let dir = format!("{}/replays/{}", self.verif_dir, self.prop);
        let _ = std::fs::create_dir_all(&dir);
        let body = json!({
            "property": self.prop,
            "check": section,
            "key": f.key,
            "msg": f.msg,
            "artifact": f.artifact,
            "case_debug": case_debug,
            "seed": self.seed,
            "tier": self.tier.name(),
        });
        let text = serde_json::to_string_pretty(&body).unwrap();
        let clean: String = section.chars().map(|c| if c.is_ascii_alphanumeric() || c == '-' || c == '.' { c } else { '_' }).collect();
        let path = format!("{}/{}-{:016x}.json", dir, clean, hash_str(&format!("{}{}", f.key, f.artifact)));
        let mut r = self.report.lock().unwrap();
        if r.violations.iter().any(|(_, p)| p == &path) {
            return path;
        }
        if let Err(e) = std::fs::write(&path, text) {
            r.harness_errors.push(format!("cannot write replay {}: {}", path, e));
        }
        println!("VIOLATION property={} replay={}", self.prop, path);
        println!("  check={} key={} msg={}", section, f.key, truncate(&f.msg, 600));
        r.violations.push((f.key.clone(), path.clone()));
        path
    }

    fn merge_local(&self, section: &str, local: LocalStats) {
        let mut r = self.report.lock().unwrap();
        r.evaluations += local.evaluations;
        for h in local.nontrivial {
            r.nontrivial.insert(h);
        }
        for (k, v) in local.classes {
            *r.classes.entry(format!("{}/{}", section, k)).or_insert(0) += v;
        }
        for (k, v) in local.excluded {
            *r.excluded.entry(k).or_insert(0) += v;
        }
        let have = r.samples.iter().filter(|s| s.get("check").and_then(|c| c.as_str()) == Some(section)).count();
        for s in local.samples.into_iter().take(MAX_SAMPLES_PER_SECTION.saturating_sub(have)) {
            r.samples.push(json!({"check": section, "case": s}));
        }
    }

    /// Run `cases` generated cases of `mk()` through `test`, split over worker threads.
    /// Each worker has its own deterministic RNG derived from (seed, section, worker).
    pub fn run_cases<S, F, M>(&self, section: &str, cases: u64, mk: M, test: F)
    where
        S: Strategy,
        S::Value: std::fmt::Debug + Clone,
        M: Fn() -> S + Sync,
        F: Fn(&S::Value, &mut CaseInfo) -> Result<(), Failure> + Sync,
    {
        let t0 = Instant::now();
        let workers = (self.threads as u64).min(cases.max(1)) as usize;
        let per = (cases + workers as u64 - 1) / workers as u64;
        let section_evals = AtomicU64::new(0);
        let found = AtomicBool::new(false);
        let nt_before = self.report.lock().unwrap().nontrivial.len();
        std::thread::scope(|scope| {
            for w in 0..workers {
                let mk = &mk;
                let test = &test;
                let found = &found;
                let section_evals = &section_evals;
                scope.spawn(move || {
                    panics::install();
                    let seed = self.seed.wrapping_mul(0x9E37_79B9_7F4A_7C15) ^ hash_str(section).rotate_left(17) ^ (w as u64).wrapping_mul(0xD1B5_4A32_D192_ED03);
                    let cfg = Config {
                        cases: per as u32,
                        failure_persistence: None,
                        rng_seed: RngSeed::Fixed(seed),
                        max_shrink_iters: 4000,
                        max_global_rejects: 1 << 20,
                        ..Config::default()
                    };
                    let mut runner = TestRunner::new(cfg);
                    let strategy = mk();
                    let local = std::cell::RefCell::new(LocalStats::default());
                    let failed_here = std::cell::Cell::new(false);
                    let result = runner.run(&strategy, |v| {
                        if !failed_here.get() && (found.load(Ordering::Relaxed) || self.stop.load(Ordering::Relaxed)) {
                            // another worker already has a failure: finish quickly
                            return Ok(());
                        }
                        let mut info = CaseInfo::default();
                        let res = match panics::catch(|| test(&v, &mut info)) {
                            Ok(r) => r,
                            Err(p) => Err(panic_failure(&p, json!({"case_debug": format!("{:?}", v)}))),
                        };
                        if !failed_here.get() {
                            let mut l = local.borrow_mut();
                            l.evaluations += 1;
                            for lab in info.labels.drain(..) {
                                *l.classes.entry(lab).or_insert(0) += 1;
                            }
                            for e in info.excluded.drain(..) {
                                *l.excluded.entry(e).or_insert(0) += 1;
                            }
                            if info.nontrivial {
                                if info.hash == 0 {
                                    info.distinct(format!("{:?}", v));
                                }
                                l.nontrivial.insert(info.hash);
                                if l.samples.len() < MAX_SAMPLES_PER_SECTION {
                                    l.samples.push(info.sample.take().unwrap_or_else(|| json!(truncate(&format!("{:?}", v), 700))));
                                }
                            }
                        }
                        match res {
                            Ok(()) => Ok(()),
                            Err(f) => {
                                if self.is_new(&f) {
                                    failed_here.set(true);
                                    found.store(true, Ordering::Relaxed);
                                    Err(TestCaseError::fail(format!("{}: {}", f.key, truncate(&f.msg, 200))))
                                } else {
                                    Ok(())
                                }
                            }
                        }
                    });
                    let l = local.into_inner();
                    section_evals.fetch_add(l.evaluations, Ordering::Relaxed);
                    self.merge_local(section, l);
                    match result {
                        Ok(()) => {}
                        Err(TestError::Fail(reason, value)) => {
                            // re-run the minimal case to obtain its artifact
                            let mut info = CaseInfo::default();
                            let res = match panics::catch(|| test(&value, &mut info)) {
                                Ok(r) => r,
                                Err(p) => Err(panic_failure(&p, json!({}))),
                            };
                            match res {
                                Err(f) if !self.known.is_open(&self.prop, &f.key) => {
                                    self.save_violation(section, &f, &truncate(&format!("{:?}", value), 4000));
                                }
                                _ => {
                                    self.harness_error(format!("section {}: shrunk failure did not reproduce ({}); case {:?}", section, reason, truncate(&format!("{:?}", value), 500)));
                                }
                            }
                        }
                        Err(TestError::Abort(reason)) => {
                            self.harness_error(format!("section {}: proptest aborted: {}", section, reason));
                        }
                    }
                });
            }
        });
        let mut r = self.report.lock().unwrap();
        let nt_after = r.nontrivial.len();
        r.sections.push(json!({
            "check": section, "kind": "generated", "requested": cases,
            "evaluations": section_evals.load(Ordering::Relaxed),
            "distinct_nontrivial_added": nt_after - nt_before,
            "wall_s": t0.elapsed().as_secs_f64(),
        }));
    }

    /// Enumerate a finite space completely (items produced by index) in parallel.
    pub fn run_enum<T, G, F>(&self, section: &str, total: u64, gen: G, test: F)
    where
        T: std::fmt::Debug,
        G: Fn(u64) -> T + Sync,
        F: Fn(&T, &mut CaseInfo) -> Result<(), Failure> + Sync,
    {
        let t0 = Instant::now();
        let workers = (self.threads as u64).min(total.max(1)) as usize;
        let found = AtomicBool::new(false);
        let next = AtomicU64::new(0);
        let evals = AtomicU64::new(0);
        let nt_before = self.report.lock().unwrap().nontrivial.len();
        const CHUNK: u64 = 256;
        std::thread::scope(|scope| {
            for _ in 0..workers {
                let gen = &gen;
                let test = &test;
                let found = &found;
                let next = &next;
                let evals = &evals;
                scope.spawn(move || {
                    panics::install();
                    let mut local = LocalStats::default();
                    'outer: loop {
                        let start = next.fetch_add(CHUNK, Ordering::Relaxed);
                        if start >= total || found.load(Ordering::Relaxed) {
                            break;
                        }
                        for i in start..(start + CHUNK).min(total) {
                            let item = gen(i);
                            let mut info = CaseInfo::default();
                            let res = match panics::catch(|| test(&item, &mut info)) {
                                Ok(r) => r,
                                Err(p) => Err(panic_failure(&p, json!({"case_debug": format!("{:?}", item)}))),
                            };
                            local.evaluations += 1;
                            for lab in info.labels.drain(..) {
                                *local.classes.entry(lab).or_insert(0) += 1;
                            }
                            if info.nontrivial {
                                if info.hash == 0 {
                                    info.distinct((section, i));
                                }
                                local.nontrivial.insert(info.hash);
                                if local.samples.len() < MAX_SAMPLES_PER_SECTION {
                                    local.samples.push(info.sample.take().unwrap_or_else(|| json!(truncate(&format!("{:?}", item), 700))));
                                }
                            }
                            if let Err(f) = res {
                                if self.is_new(&f) {
                                    if !found.swap(true, Ordering::Relaxed) {
                                        self.save_violation(section, &f, &truncate(&format!("{:?}", item), 4000));
                                    }
                                    break 'outer;
                                }
                            }
                        }
                    }
                    evals.fetch_add(local.evaluations, Ordering::Relaxed);
                    self.merge_local(section, local);
                });
            }
        });
        let mut r = self.report.lock().unwrap();
        let complete = evals.load(Ordering::Relaxed) == total;
        if complete {
            r.exhaustive_sections.push(section.to_string());
        }
        let nt_after = r.nontrivial.len();
        r.sections.push(json!({
            "check": section, "kind": "enumeration", "space": total,
            "evaluations": evals.load(Ordering::Relaxed), "complete": complete,
            "distinct_nontrivial_added": nt_after - nt_before,
            "wall_s": t0.elapsed().as_secs_f64(),
        }));
    }

    /// Run one fixed case (regression / replay / probe).
    pub fn run_one(&self, section: &str, name: &str, test: impl FnOnce(&mut CaseInfo) -> Result<(), Failure>) {
        let mut info = CaseInfo::default();
        let res = match panics::catch(|| test(&mut info)) {
            Ok(r) => r,
            Err(p) => Err(panic_failure(&p, json!({"name": name}))),
        };
        let mut local = LocalStats::default();
        local.evaluations = 1;
        for lab in info.labels.drain(..) {
            *local.classes.entry(lab).or_insert(0) += 1;
        }
        if info.nontrivial {
            if info.hash == 0 {
                info.distinct((section, name));
            }
            local.nontrivial.insert(info.hash);
            local.samples.push(info.sample.take().unwrap_or_else(|| json!(name)));
        }
        self.merge_local(section, local);
        if let Err(f) = res {
            if self.is_new(&f) {
                self.save_violation(section, &f, name);
            }
        }
    }

    pub fn set_extra(&self, key: &str, v: Value) {
        self.report.lock().unwrap().extra.insert(key.to_string(), v);
    }

    /// Writes evidence, prints KNOWN-FINDING lines, returns the exit code.
    pub fn finish(&self, rule: &str, level_note: &[&str]) -> i32 {
        let r = self.report.lock().unwrap();
        let hits = self.known.hits();
        for f in self.known.open_for(&self.prop) {
            if let Some(n) = hits.get(&f.key) {
                println!("KNOWN-FINDING: property={} {} [key={} hits={}]", self.prop, f.what, f.key, n);
            } else {
                println!("NOTE: property={} open finding '{}' was not reproduced by this run", self.prop, f.key);
            }
        }
        let mut coverage = json!({
            "evaluations": r.evaluations,
            "distinct_nontrivial": r.nontrivial.len(),
            "rule": rule,
            "samples": r.samples,
            "classes": r.classes,
            "sections": r.sections,
            "excluded_by_gate": r.excluded,
            "known_finding_hits": hits,
            "known_finding_samples": r.known_samples,
            "exhaustive_sections": r.exhaustive_sections,
            "exhaustive": false,
            "replayed_saved_inputs": r.replayed,
            "profile": "release opt-level=2, overflow-checks=on, debug-assertions=on, --cfg pdf_verif",
            "threads": self.threads,
            "harness_errors": r.harness_errors,
        });
        for (k, v) in r.extra.iter() {
            coverage[k] = v.clone();
        }
        let ev = json!({
            "property_id": self.prop,
            "tier": self.tier.name(),
            "seed": self.seed,
            "level": "exploration",
            "coverage": coverage,
            "assumptions": level_note,
            "wall_s": self.start.elapsed().as_secs_f64(),
            "violations": r.violations.len(),
        });
        let dir = format!("{}/evidence", self.verif_dir);
        let _ = std::fs::create_dir_all(&dir);
        let path = format!("{}/{}.json", dir, self.prop);
        if let Err(e) = std::fs::write(&path, serde_json::to_string_pretty(&ev).unwrap()) {
            eprintln!("HARNESS-ERROR cannot write evidence {}: {}", path, e);
            return 2;
        }
        println!(
            "property={} tier={} seed={} evaluations={} distinct_nontrivial={} violations={} known_hits={} wall_s={:.1}",
            self.prop,
            self.tier.name(),
            self.seed,
            r.evaluations,
            r.nontrivial.len(),
            r.violations.len(),
            hits.values().sum::<u64>(),
            self.start.elapsed().as_secs_f64()
        );
        if !r.violations.is_empty() {
            1
        } else if !r.harness_errors.is_empty() {
            2
        } else {
            0
        }
    }
}

pub fn panic_failure(p: &panics::PanicSig, artifact: Value) -> Failure {
    let key = if p.in_lib { p.key() } else { format!("harness-{}", p.key()) };
    Failure::new(key, format!("panic at {}:{} in {}: {}", p.file, p.line, p.func, p.msg), artifact)
}

#[derive(Default)]
struct LocalStats {
    evaluations: u64,
    nontrivial: HashSet<u64>,
    classes: BTreeMap<String, u64>,
    excluded: BTreeMap<String, u64>,
    samples: Vec<Value>,
}

pub fn truncate(s: &str, n: usize) -> String {
    if s.len() <= n {
        s.to_string()
    } else {
        let mut end = n;
        while !s.is_char_boundary(end) {
            end -= 1;
        }
        format!("{}…(+{} chars)", &s[..end], s.len() - end)
    }
}

/// Manual generation of case `k` for callers that need the value outside `run` (kept for child-process drivers).
pub fn nth_case<S: Strategy>(strategy: &S, seed: u64, k: u64) -> S::Value {
    let cfg = Config { failure_persistence: None, rng_seed: RngSeed::Fixed(seed), ..Config::default() };
    let mut runner = TestRunner::new(cfg);
    let mut v = strategy.new_tree(&mut runner).expect("new_tree").current();
    for _ in 0..k {
        v = strategy.new_tree(&mut runner).expect("new_tree").current();
    }
    v
}

/// Silences fd 2 while alive (the library `dbg!`s on some unimplemented paths, once per case).
pub struct StderrMute {
    saved: i32,
}
impl StderrMute {
    pub fn new() -> StderrMute {
        unsafe {
            let saved = libc::dup(2);
            let null = libc::open(b"/dev/null\0".as_ptr() as *const libc::c_char, libc::O_WRONLY);
            if saved >= 0 && null >= 0 {
                libc::dup2(null, 2);
                libc::close(null);
            }
            StderrMute { saved }
        }
    }
}
impl Drop for StderrMute {
    fn drop(&mut self) {
        unsafe {
            if self.saved >= 0 {
                libc::dup2(self.saved, 2);
                libc::close(self.saved);
            }
        }
    }
}
