//! Error-chain helpers: root cause with wrappers (Try, Shared, FromPrimitive) peeled.
use pdf::error::PdfError;

pub fn root_cause(e: &PdfError) -> &PdfError {
    match e {
        PdfError::Try { source, .. } => root_cause(source),
        PdfError::Shared { source } => root_cause(source),
        PdfError::FromPrimitive { source, .. } => root_cause(source),
        e => e,
    }
}

/// Variant name of an error (without payload).
pub fn variant(e: &PdfError) -> String {
    let d = format!("{:?}", e);
    d.split(|c: char| c == ' ' || c == '{' || c == '(').next().unwrap_or("").to_string()
}

pub fn root_kind(e: &PdfError) -> String {
    variant(root_cause(e))
}

/// All variants along the chain, outermost first (Try wrappers dropped).
pub fn chain(e: &PdfError) -> Vec<String> {
    let mut out = Vec::new();
    let mut cur = e;
    loop {
        match cur {
            PdfError::Try { source, .. } => cur = source,
            PdfError::Shared { source } => {
                out.push("Shared".to_string());
                cur = source;
            }
            PdfError::FromPrimitive { source, typ, field } => {
                out.push(format!("FromPrimitive({}.{})", typ, field));
                cur = source;
            }
            e => {
                out.push(variant(e));
                if let PdfError::MissingEntry { typ, field } = e {
                    out.push(format!("MissingEntry({}.{})", typ, field));
                }
                break;
            }
        }
    }
    out
}

pub fn is_missing_object(e: &PdfError) -> bool {
    matches!(root_cause(e), PdfError::FreeObject { .. } | PdfError::NullRef { .. } | PdfError::UnspecifiedXRefEntry { .. })
}
