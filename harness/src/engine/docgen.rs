//! A generator of complete, typed documents (pages, fonts, images, forms, trees, outlines, annotations,
//! object streams, incremental updates, encryption) on top of the E1 writer.
use super::bytes::Bytes;
use super::crypt::{CryptSpec, Encryptor, Method};
use super::gen;
use super::val::Val;
use super::writer::{encode_chain, FilterSpec, Writer};
use crate::props::c02::chain;
use proptest::prelude::*;

#[derive(Clone, Debug)]
pub struct FontSpec {
    /// 0 Type1 simple, 1 TrueType with encoding differences, 2 Type0/CIDFontType2 with W array + ToUnicode
    pub kind: u8,
    pub first_char: u8,
    pub nwidths: u8,
    pub w_groups: Vec<(u16, u8, bool)>,
    pub dw: u16,
    pub cmap_entries: Vec<(u16, u16)>,
    pub w_indirect: bool,
}

#[derive(Clone, Debug)]
pub struct ImageSpec {
    pub w: u8,
    pub h: u8,
    /// 0 gray, 1 rgb, 2 indexed, 3 icc
    pub cs: u8,
    pub chain: u8,
    pub seed: u32,
    pub smask: bool,
}

#[derive(Clone, Debug)]
pub struct PageSpec {
    pub own_media: bool,
    pub own_resources: bool,
    pub rotate: u8,
    pub text: Vec<u8>,
    pub use_font: u8,
    pub use_image: u8,
    pub use_form: bool,
    pub annots: u8,
    pub content_chain: u8,
    pub two_content_parts: bool,
}

#[derive(Clone, Debug)]
pub struct DocSpec {
    pub pages: Vec<PageSpec>,
    pub fonts: Vec<FontSpec>,
    pub images: Vec<ImageSpec>,
    pub xref_stream: bool,
    pub objstm: bool,
    pub incremental: u8,
    pub encrypt: u8,
    pub indirect_length: bool,
    pub name_tree: bool,
    pub outlines: u8,
    pub info: bool,
    pub acroform: bool,
    pub page_labels: bool,
    pub nested_pages: bool,
    pub tape: Vec<u8>,
    pub user_pw: Vec<u8>,
    /// damage applied to individual object bodies before layout (offsets stay right)
    pub body_muts: Vec<(u16, super::mutate::Mutation)>,
}

pub struct Built {
    pub file: Vec<u8>,
    pub password: Vec<u8>,
    pub labels: Vec<String>,
    pub n_pages: usize,
    pub n_objects: u64,
}

fn name(s: &str) -> Val {
    Val::name(s)
}
fn b(s: &str) -> Bytes {
    Bytes::from(s)
}
fn rect(w: i64, h: i64) -> Val {
    Val::Array(vec![Val::Int(0), Val::Int(0), Val::Int(w), Val::Int(h)])
}

fn noise(seed: u32, n: usize) -> Vec<u8> {
    let mut x = seed | 1;
    (0..n)
        .map(|i| {
            x = x.wrapping_mul(1664525).wrapping_add(1013904223);
            if i % 5 < 3 {
                (x >> 24) as u8
            } else {
                (i / 3) as u8
            }
        })
        .collect()
}

pub fn crypt_spec(choice: u8, user_pw: &[u8], seed: &[u8]) -> Option<CryptSpec> {
    let (r, v, bits, method) = match choice % 8 {
        0 | 1 => return None,
        2 => (2, 1, 40, Method::Rc4),
        3 => (3, 2, 128, Method::Rc4),
        4 => (4, 4, 128, Method::Rc4),
        5 => (4, 4, 128, Method::AesV2),
        6 => (5, 5, 256, Method::AesV3),
        _ => (6, 5, 256, Method::AesV3),
    };
    let mut s: Vec<u8> = seed.to_vec();
    s.extend_from_slice(b"seed-material-for-salts-and-ivs-0123456789abcdefghijklmnopqrstuvwxyz");
    Some(CryptSpec { r, v, bits, method, user_pw: Bytes(user_pw.to_vec()), owner_pw: Bytes(b"owner".to_vec()), p: -44, id0: Bytes(b"document-id-0001".to_vec()), encrypt_metadata: true, seed: Bytes(s), write_length: true })
}

struct Alloc {
    next: u64,
}
impl Alloc {
    fn get(&mut self) -> u64 {
        self.next += 1;
        self.next - 1
    }
}

/// Objects are collected first (number -> value | stream) and then laid out by the storage options.
enum Body {
    Plain(Val),
    Stream(Vec<(Bytes, Val)>, Vec<u8>),
}

pub fn build(spec: &DocSpec) -> Built {
    let mut labels: Vec<String> = Vec::new();
    let mut a = Alloc { next: 1 };
    let mut objs: Vec<(u64, Body)> = Vec::new();
    let mut tape = super::tape::Tape::new(&spec.tape);
    let cat = a.get();
    let root_pages = a.get();

    // ---- fonts
    let mut font_ids = Vec::new();
    for (fi, f) in spec.fonts.iter().enumerate() {
        let id = a.get();
        font_ids.push(id);
        match f.kind % 3 {
            0 | 1 => {
                let n = f.nwidths as usize % 40;
                let first = f.first_char as i64;
                let widths: Vec<Val> = (0..n).map(|i| Val::Int(200 + ((i * 37 + fi * 11) % 700) as i64)).collect();
                let fd = a.get();
                let mut d = vec![
                    ("Type", name("Font")),
                    ("Subtype", name(if f.kind % 3 == 0 { "Type1" } else { "TrueType" })),
                    ("BaseFont", name("ABCDEF+Test")),
                    ("FirstChar", Val::Int(first)),
                    ("LastChar", Val::Int(first + n as i64 - 1)),
                    ("Widths", Val::Array(widths)),
                    ("FontDescriptor", Val::Ref(fd, 0)),
                ];
                if f.kind % 3 == 1 {
                    d.push(("Encoding", Val::dict(vec![("Type", name("Encoding")), ("BaseEncoding", name("WinAnsiEncoding")), ("Differences", Val::Array(vec![Val::Int(32), name("space"), name("exclam"), Val::Int(65), name("A")]))])));
                    labels.push("font/truetype-differences".into());
                } else {
                    d.push(("Encoding", name("WinAnsiEncoding")));
                    labels.push("font/type1".into());
                }
                objs.push((id, Body::Plain(Val::dict(d))));
                let ff = a.get();
                objs.push((
                    fd,
                    Body::Plain(Val::dict(vec![
                        ("Type", name("FontDescriptor")),
                        ("FontName", name("ABCDEF+Test")),
                        ("Flags", Val::Int(32)),
                        ("FontBBox", rect(1000, 1000)),
                        ("ItalicAngle", Val::Int(0)),
                        ("Ascent", Val::Int(800)),
                        ("Descent", Val::Int(-200)),
                        ("CapHeight", Val::Int(700)),
                        ("StemV", Val::Int(80)),
                        ("FontFile2", Val::Ref(ff, 0)),
                    ])),
                ));
                objs.push((ff, Body::Stream(vec![(b("Length1"), Val::Int(64))], noise(fi as u32 + 5, 64))));
            }
            _ => {
                labels.push("font/type0".into());
                let desc = a.get();
                let fd = a.get();
                let tu = a.get();
                // W array
                let mut w: Vec<Val> = Vec::new();
                let mut code = 0u32;
                for (gap, len, range_form) in f.w_groups.iter().take(8) {
                    code += (*gap as u32) % 300;
                    let len = 1 + (*len as u32) % 6;
                    if *range_form {
                        w.push(Val::Int(code as i64));
                        w.push(Val::Int((code + len - 1) as i64));
                        w.push(Val::Int(300 + (code % 500) as i64));
                    } else {
                        w.push(Val::Int(code as i64));
                        w.push(Val::Array((0..len).map(|i| Val::Int(400 + ((code + i) % 400) as i64)).collect()));
                    }
                    code += len;
                }
                let w_val = if f.w_indirect {
                    let wid = a.get();
                    objs.push((wid, Body::Plain(Val::Array(w))));
                    labels.push("font/w-indirect".into());
                    Val::Ref(wid, 0)
                } else {
                    Val::Array(w)
                };
                objs.push((id, Body::Plain(Val::dict(vec![("Type", name("Font")), ("Subtype", name("Type0")), ("BaseFont", name("ABCDEF+Cid")), ("Encoding", name("Identity-H")), ("DescendantFonts", Val::Array(vec![Val::Ref(desc, 0)])), ("ToUnicode", Val::Ref(tu, 0))]))));
                objs.push((
                    desc,
                    Body::Plain(Val::dict(vec![
                        ("Type", name("Font")),
                        ("Subtype", name("CIDFontType2")),
                        ("BaseFont", name("ABCDEF+Cid")),
                        ("CIDSystemInfo", Val::dict(vec![("Registry", Val::str(b"Adobe")), ("Ordering", Val::str(b"Identity")), ("Supplement", Val::Int(0))])),
                        ("FontDescriptor", Val::Ref(fd, 0)),
                        ("DW", Val::Int(f.dw as i64 % 2000)),
                        ("W", w_val),
                        ("CIDToGIDMap", name("Identity")),
                    ])),
                ));
                objs.push((
                    fd,
                    Body::Plain(Val::dict(vec![("Type", name("FontDescriptor")), ("FontName", name("ABCDEF+Cid")), ("Flags", Val::Int(4)), ("FontBBox", rect(1000, 1000)), ("ItalicAngle", Val::Int(0)), ("Ascent", Val::Int(800)), ("Descent", Val::Int(-200)), ("StemV", Val::Int(80))])),
                ));
                let mut cmap = String::from("/CIDInit /ProcSet findresource begin\n12 dict begin\nbegincmap\n/CMapName /Adobe-Identity-UCS def\n1 begincodespacerange\n<0000> <FFFF>\nendcodespacerange\n");
                let entries: Vec<(u16, u16)> = f.cmap_entries.iter().take(20).cloned().collect();
                if !entries.is_empty() {
                    cmap.push_str(&format!("{} beginbfchar\n", entries.len()));
                    for (c, u) in &entries {
                        let u = if (0xD800..0xE000).contains(u) { 0x41 } else { *u };
                        cmap.push_str(&format!("<{:04X}> <{:04X}>\n", c, u));
                    }
                    cmap.push_str("endbfchar\n");
                }
                cmap.push_str("1 beginbfrange\n<0100> <0105> <0041>\nendbfrange\nendcmap\nCMapName currentdict /CMap defineresource pop\nend\nend\n");
                objs.push((tu, Body::Stream(vec![], cmap.into_bytes())));
            }
        }
    }

    // ---- images
    let mut image_ids = Vec::new();
    for im in spec.images.iter() {
        let id = a.get();
        image_ids.push(id);
        let w = 1 + (im.w as usize % 12);
        let h = 1 + (im.h as usize % 12);
        let (cs, ncomp): (Val, usize) = match im.cs % 4 {
            0 => (name("DeviceGray"), 1),
            1 => (name("DeviceRGB"), 3),
            2 => (Val::Array(vec![name("Indexed"), name("DeviceRGB"), Val::Int(3), Val::Str(Bytes(noise(im.seed, 12)))]), 1),
            _ => {
                let icc = a.get();
                objs.push((icc, Body::Stream(vec![(b("N"), Val::Int(3)), (b("Alternate"), name("DeviceRGB"))], noise(im.seed ^ 7, 40))));
                (Val::Array(vec![name("ICCBased"), Val::Ref(icc, 0)]), 3)
            }
        };
        labels.push(format!("image/cs{}", im.cs % 4));
        let data = noise(im.seed, w * h * ncomp);
        let fc = chain(im.chain);
        let (enc, fentries) = encode_chain(&data, &fc, &mut tape);
        labels.push(format!("image/filter{}", im.chain % 6));
        let mut d: Vec<(Bytes, Val)> = vec![(b("Type"), name("XObject")), (b("Subtype"), name("Image")), (b("Width"), Val::Int(w as i64)), (b("Height"), Val::Int(h as i64)), (b("ColorSpace"), cs), (b("BitsPerComponent"), Val::Int(8))];
        d.extend(fentries);
        if im.smask {
            let sm = a.get();
            objs.push((sm, Body::Stream(vec![(b("Type"), name("XObject")), (b("Subtype"), name("Image")), (b("Width"), Val::Int(w as i64)), (b("Height"), Val::Int(h as i64)), (b("ColorSpace"), name("DeviceGray")), (b("BitsPerComponent"), Val::Int(8))], noise(im.seed ^ 99, w * h))));
            d.push((b("SMask"), Val::Ref(sm, 0)));
            labels.push("image/smask".into());
        }
        objs.push((id, Body::Stream(d, enc)));
    }

    // ---- a form xobject
    let form_id = a.get();
    // a second form shares the first one's resource dictionary (one indirect object used twice)
    let form2_id = a.get();
    let form_res_id = a.get();
    // a property list (optional-content group) that the marked content of every page names
    let ocg_id = a.get();
    {
        let mut res = Vec::new();
        if let Some(f) = font_ids.first() {
            res.push(("Font", Val::dict(vec![("F1", Val::Ref(*f, 0))])));
        }
        objs.push((form_res_id, Body::Plain(Val::dict(res))));
        objs.push((
            form_id,
            Body::Stream(vec![(b("Type"), name("XObject")), (b("Subtype"), name("Form")), (b("BBox"), rect(100, 100)), (b("Resources"), Val::Ref(form_res_id, 0))], b"q 0.5 g 0 0 50 50 re f Q BT /F1 8 Tf (form) Tj ET".to_vec()),
        ));
        objs.push((
            form2_id,
            Body::Stream(vec![(b("Type"), name("XObject")), (b("Subtype"), name("Form")), (b("BBox"), rect(60, 60)), (b("Resources"), Val::Ref(form_res_id, 0))], b"q 0.25 g 5 5 40 40 re f Q BT /F1 6 Tf (second) Tj ET".to_vec()),
        ));
        objs.push((ocg_id, Body::Plain(Val::dict(vec![("Type", name("OCG")), ("Name", Val::str(b"Layer"))]))));
    }

    // ---- shared resources
    let shared_res = a.get();
    let gs_id = a.get();
    objs.push((gs_id, Body::Plain(Val::dict(vec![("Type", name("ExtGState")), ("LW", Val::Int(2)), ("CA", Val::Real(0.5))]))));
    let mk_resources = |font_ids: &[u64], image_ids: &[u64]| -> Val {
        let mut fonts = Vec::new();
        for (i, f) in font_ids.iter().enumerate() {
            fonts.push((Bytes(format!("F{}", i + 1).into_bytes()), Val::Ref(*f, 0)));
        }
        let mut xo = vec![(b("Fm1"), Val::Ref(form_id, 0)), (b("Fm2"), Val::Ref(form2_id, 0))];
        if !font_ids.is_empty() {
            xo.push((b("F1"), Val::Ref(form_id, 0)));
        }
        for (i, im) in image_ids.iter().enumerate() {
            xo.push((Bytes(format!("Im{}", i + 1).into_bytes()), Val::Ref(*im, 0)));
        }
        Val::Dict(vec![
            (b("Font"), Val::Dict(fonts)),
            (b("XObject"), Val::Dict(xo)),
            (b("ExtGState"), Val::Dict(vec![(b("GS1"), Val::Ref(gs_id, 0))])),
            (b("Properties"), Val::Dict(vec![(b("MC1"), Val::Ref(ocg_id, 0))])),
            (b("ColorSpace"), Val::Dict(vec![(b("CS1"), Val::Array(vec![name("Separation"), name("Spot"), name("DeviceGray"), Val::dict(vec![("FunctionType", Val::Int(2)), ("Domain", Val::Array(vec![Val::Int(0), Val::Int(1)])), ("C0", Val::Array(vec![Val::Int(1)])), ("C1", Val::Array(vec![Val::Int(0)])), ("N", Val::Int(1))])]))])),
        ])
    };
    objs.push((shared_res, Body::Plain(mk_resources(&font_ids, &image_ids))));

    // ---- pages
    let mut page_ids = Vec::new();
    let inner_pages = if spec.nested_pages { Some(a.get()) } else { None };
    let parent_of_leaves = inner_pages.unwrap_or(root_pages);
    for (pi, p) in spec.pages.iter().enumerate() {
        let id = a.get();
        page_ids.push(id);
        let mut content = Vec::new();
        content.extend_from_slice(b"q /GS1 gs ");
        if !font_ids.is_empty() {
            let fi = p.use_font as usize % font_ids.len();
            content.extend_from_slice(format!("BT /F{} 12 Tf 10 700 Td (", fi + 1).as_bytes());
            for &c in p.text.iter().take(30) {
                match c {
                    b'(' | b')' | b'\\' => {
                        content.push(b'\\');
                        content.push(c);
                    }
                    b'\r' => content.extend_from_slice(b"\\r"),
                    c => content.push(c),
                }
            }
            content.extend_from_slice(b") Tj T* [(a) -120 (b)] TJ ET ");
        }
        if !image_ids.is_empty() {
            content.extend_from_slice(format!("q 50 0 0 50 100 100 cm /Im{} Do Q ", 1 + p.use_image as usize % image_ids.len()).as_bytes());
        }
        // marked content naming the shared property list
        content.extend_from_slice(b"/OC /MC1 BDC 1 1 2 2 re f EMC ");
        if p.use_form {
            content.extend_from_slice(b"/Fm1 Do /Fm2 Do ");
            if !font_ids.is_empty() {
                // /Font and /XObject are separate name spaces: the form is also registered as XObject /F1
                content.extend_from_slice(b"/F1 Do ");
            }
        }
        content.extend_from_slice(b"/CS1 cs 0.3 scn 10 10 m 100 100 l 50 20 30 40 60 80 c h S Q");
        let mut d = vec![("Type", name("Page")), ("Parent", Val::Ref(parent_of_leaves, 0)), ("Idx", Val::Int(pi as i64))];
        if p.own_media {
            d.push(("MediaBox", rect(500 + pi as i64, 700)));
        }
        if p.own_resources {
            d.push(("Resources", mk_resources(&font_ids, &image_ids)));
        } else {
            d.push(("Resources", Val::Ref(shared_res, 0)));
        }
        if p.rotate % 4 != 0 {
            d.push(("Rotate", Val::Int(90 * (p.rotate % 4) as i64)));
        }
        if p.rotate % 7 == 2 {
            d.push(("CropBox", Val::Array(vec![Val::Int(5), Val::Int(6), Val::Int(300 + pi as i64), Val::Int(400)])));
            labels.push("page/own-cropbox".into());
        }
        if p.annots % 5 == 4 {
            // an extra page entry that refers to a small private graph with a reference cycle
            let x1 = a.get();
            let x2 = a.get();
            objs.push((x1, Body::Plain(Val::dict(vec![("Kind", name("Private")), ("Next", Val::Ref(x2, 0)), ("Data", Val::str(b"private data"))]))));
            objs.push((x2, Body::Plain(Val::dict(vec![("Back", Val::Ref(x1, 0)), ("Self", Val::Ref(x2, 0))]))));
            d.push(("PieceInfo", Val::dict(vec![("Vh", Val::Ref(x1, 0))])));
            labels.push("page/extra-entry-with-reference-cycle".into());
        }
        let cc = chain(p.content_chain);
        if p.two_content_parts {
            let c1 = a.get();
            let c2 = a.get();
            let mid = content.iter().position(|&c| c == b' ').map(|i| i + 1).unwrap_or(0);
            let (e1, f1) = encode_chain(&content[..mid], &cc, &mut tape);
            let (e2, f2) = encode_chain(&content[mid..], &cc, &mut tape);
            objs.push((c1, Body::Stream(f1, e1)));
            objs.push((c2, Body::Stream(f2, e2)));
            d.push(("Contents", Val::Array(vec![Val::Ref(c1, 0), Val::Ref(c2, 0)])));
            labels.push("page/two-content-parts".into());
        } else {
            let c1 = a.get();
            let (e1, mut f1) = encode_chain(&content, &cc, &mut tape);
            if cc.is_empty() && p.rotate % 5 == 3 {
                // an optional entry that refers to an object that does not exist reads as null
                // (alternately a number inside /Size that no section defines, and one beyond /Size)
                let missing = if pi % 2 == 0 { a.get() } else { 9000 + pi as u64 };
                f1.push((b("DecodeParms"), Val::Ref(missing, 0)));
                labels.push("stream/dangling-decodeparms".into());
            }
            objs.push((c1, Body::Stream(f1, e1)));
            d.push(("Contents", Val::Ref(c1, 0)));
        }
        labels.push(format!("page/content-filter{}", p.content_chain % 6));
        if p.annots % 3 != 0 {
            let mut arr = Vec::new();
            for k in 0..(p.annots % 3) {
                let an = a.get();
                let ap = a.get();
                objs.push((ap, Body::Stream(vec![(b("Type"), name("XObject")), (b("Subtype"), name("Form")), (b("BBox"), rect(20, 20))], b"0 0 20 20 re S".to_vec())));
                objs.push((
                    an,
                    Body::Plain(Val::dict(vec![("Type", name("Annot")), ("Subtype", name(if k == 0 { "Text" } else { "Link" })), ("Rect", rect(20 + k as i64, 20)), ("Contents", Val::str(b"note")), ("P", Val::Ref(id, 0)), ("AP", Val::dict(vec![("N", Val::Ref(ap, 0))])), ("F", Val::Int(4))])),
                ));
                arr.push(Val::Ref(an, 0));
            }
            d.push(("Annots", Val::Array(arr)));
            labels.push("page/annots".into());
        }
        objs.push((id, Body::Plain(Val::dict(d))));
    }
    let kids: Vec<Val> = page_ids.iter().map(|p| Val::Ref(*p, 0)).collect();
    if let Some(inner) = inner_pages {
        objs.push((inner, Body::Plain(Val::dict(vec![("Type", name("Pages")), ("Parent", Val::Ref(root_pages, 0)), ("Kids", Val::Array(kids)), ("Count", Val::Int(page_ids.len() as i64))]))));
        let mut rootd = vec![("Type", name("Pages")), ("Kids", Val::Array(vec![Val::Ref(inner, 0)])), ("Count", Val::Int(page_ids.len() as i64)), ("MediaBox", rect(612, 792))];
        if spec.outlines % 2 == 1 {
            rootd.push(("CropBox", Val::Array(vec![Val::Int(10), Val::Int(20), Val::Int(310), Val::Int(420)])));
            labels.push("pages/inherited-cropbox".into());
        }
        objs.push((root_pages, Body::Plain(Val::dict(rootd))));
        labels.push("pages/nested".into());
    } else {
        let mut rootd = vec![("Type", name("Pages")), ("Kids", Val::Array(kids)), ("Count", Val::Int(page_ids.len() as i64)), ("MediaBox", rect(612, 792))];
        if spec.outlines % 2 == 1 {
            rootd.push(("CropBox", Val::Array(vec![Val::Int(10), Val::Int(20), Val::Int(310), Val::Int(420)])));
            labels.push("pages/inherited-cropbox".into());
        }
        objs.push((root_pages, Body::Plain(Val::dict(rootd))));
    }

    // ---- catalog extras
    let mut catd = vec![("Type", name("Catalog")), ("Pages", Val::Ref(root_pages, 0))];
    if spec.name_tree {
        let leaf1 = a.get();
        let leaf2 = a.get();
        let root = a.get();
        let dest = |p: u64| Val::Array(vec![Val::Ref(p, 0), name("XYZ"), Val::Int(0), Val::Int(700), Val::Null]);
        objs.push((leaf1, Body::Plain(Val::dict(vec![("Limits", Val::Array(vec![Val::str(b"a"), Val::str(b"b")])), ("Names", Val::Array(vec![Val::str(b"a"), dest(page_ids[0]), Val::str(b"b"), dest(page_ids[page_ids.len() - 1])]))]))));
        objs.push((leaf2, Body::Plain(Val::dict(vec![("Limits", Val::Array(vec![Val::str(b"c"), Val::str(b"c")])), ("Names", Val::Array(vec![Val::str(b"c"), dest(page_ids[0])]))]))));
        objs.push((root, Body::Plain(Val::dict(vec![("Kids", Val::Array(vec![Val::Ref(leaf1, 0), Val::Ref(leaf2, 0)]))]))));
        let ef = a.get();
        objs.push((ef, Body::Stream(vec![(b("Type"), name("EmbeddedFile")), (b("Params"), Val::dict(vec![("Size", Val::Int(11))]))], b"hello world".to_vec())));
        catd.push(("Names", Val::dict(vec![("Dests", Val::Ref(root, 0)), ("EmbeddedFiles", Val::dict(vec![("Names", Val::Array(vec![Val::str(b"f.txt"), Val::dict(vec![("Type", name("Filespec")), ("F", Val::str(b"f.txt")), ("EF", Val::dict(vec![("F", Val::Ref(ef, 0))]))])]))]))])));
        labels.push("catalog/name-tree".into());
    }
    if spec.page_labels {
        catd.push(("PageLabels", Val::dict(vec![("Nums", Val::Array(vec![Val::Int(0), Val::dict(vec![("S", name("r"))]), Val::Int(1), Val::dict(vec![("S", name("D")), ("St", Val::Int(1)), ("P", Val::str(b"p-"))])]))])));
        labels.push("catalog/page-labels".into());
    }
    if spec.outlines % 3 != 0 {
        let ol = a.get();
        let n = (spec.outlines % 3) as usize + 1;
        let items: Vec<u64> = (0..n).map(|_| a.get()).collect();
        for (i, it) in items.iter().enumerate() {
            let mut d = vec![("Title", Val::Str(Bytes(format!("Item {}", i).into_bytes()))), ("Parent", Val::Ref(ol, 0)), ("Dest", Val::Array(vec![Val::Ref(page_ids[i % page_ids.len()], 0), name("Fit")]))];
            if i > 0 {
                d.push(("Prev", Val::Ref(items[i - 1], 0)));
            }
            if i + 1 < n {
                d.push(("Next", Val::Ref(items[i + 1], 0)));
            }
            objs.push((*it, Body::Plain(Val::dict(d))));
        }
        objs.push((ol, Body::Plain(Val::dict(vec![("Type", name("Outlines")), ("First", Val::Ref(items[0], 0)), ("Last", Val::Ref(items[n - 1], 0)), ("Count", Val::Int(n as i64))]))));
        catd.push(("Outlines", Val::Ref(ol, 0)));
        labels.push("catalog/outlines".into());
    }
    if spec.acroform {
        let f1 = a.get();
        let f2 = a.get();
        objs.push((f1, Body::Plain(Val::dict(vec![("FT", name("Tx")), ("T", Val::str(b"field1")), ("V", Val::str(b"value")), ("Kids", Val::Array(vec![Val::Ref(f2, 0)]))]))));
        objs.push((f2, Body::Plain(Val::dict(vec![("FT", name("Btn")), ("T", Val::str(b"kid")), ("Parent", Val::Ref(f1, 0)), ("Ff", Val::Int(65536))]))));
        catd.push(("AcroForm", Val::dict(vec![("Fields", Val::Array(vec![Val::Ref(f1, 0)])), ("DA", Val::str(b"/F1 10 Tf")), ("DR", Val::Ref(shared_res, 0))])));
        labels.push("catalog/acroform".into());
    }
    let meta = a.get();
    objs.push((meta, Body::Stream(vec![(b("Type"), name("Metadata")), (b("Subtype"), name("XML"))], b"<?xpacket begin?><x:xmpmeta/><?xpacket end?>".to_vec())));
    catd.push(("Metadata", Val::Ref(meta, 0)));
    objs.push((cat, Body::Plain(Val::dict(catd))));
    let info_id = if spec.info {
        let i = a.get();
        objs.push((i, Body::Plain(Val::dict(vec![("Title", Val::str(b"A title")), ("Author", Val::str(b"\xfe\xff\x00A\x00u")), ("Producer", Val::str(b"vh docgen")), ("CreationDate", Val::str(b"D:20240102030405+01'00'"))]))));
        Some(i)
    } else {
        None
    };

    // ---- layout
    let crypt = crypt_spec(spec.encrypt, &spec.user_pw, &spec.tape);
    let mut w = Writer::new(b"", if spec.xref_stream { "1.5" } else { "1.4" });
    w.set_tape(&spec.tape);
    w.body_muts = spec.body_muts.clone();
    let mut trailer: Vec<(Bytes, Val)> = vec![(b("Root"), Val::Ref(cat, 0))];
    if let Some(i) = info_id {
        trailer.push((b("Info"), Val::Ref(i, 0)));
    }
    let mut password = Vec::new();
    let enc_obj = a.get();
    if let Some(cs) = &crypt {
        let mut e = Encryptor::new(cs);
        e.encrypt_obj = Some(enc_obj);
        e.metadata_obj = Some(meta);
        let d = e.dict();
        w.crypt = Some(e);
        w.obj(enc_obj, 0, &d);
        trailer.push((b("Encrypt"), Val::Ref(enc_obj, 0)));
        trailer.push((b("ID"), Val::Array(vec![Val::Str(cs.id0.clone()), Val::Str(cs.id0.clone())])));
        password = cs.user_pw.0.clone();
        labels.push(format!("encrypt/r{}-{:?}", cs.r, cs.method));
    } else {
        trailer.push((b("ID"), Val::Array(vec![Val::str(b"0123456789abcdef"), Val::str(b"0123456789abcdef")])));
    }
    let use_objstm = spec.objstm && spec.xref_stream;
    let mut members: Vec<(u64, Val)> = Vec::new();
    let len_obj = a.get();
    let mut wrote_len_obj = false;
    // which objects go to the second revision
    let second: std::collections::HashSet<u64> = if spec.incremental % 3 != 0 { page_ids.iter().take(1).cloned().collect() } else { Default::default() };
    let mut deferred: Vec<(u64, Body)> = Vec::new();
    for (num, body) in objs {
        if second.contains(&num) {
            // first revision holds an older version of the page (different Idx marker), the update the real one
            if let Body::Plain(v) = &body {
                let mut old = v.clone();
                old.set("Idx", Val::Int(-1));
                old.set("Rotate", Val::Int(270));
                w.obj(num, 0, &old);
            }
            deferred.push((num, body));
            continue;
        }
        match body {
            Body::Plain(v) => {
                // keep the catalog and encryption-relevant objects direct; everything else may be compressed
                if use_objstm && num != cat {
                    members.push((num, v));
                } else {
                    w.obj(num, 0, &v);
                }
            }
            Body::Stream(d, data) => {
                if spec.indirect_length && !wrote_len_obj && crypt.is_none() {
                    // first stream gets an indirect /Length
                    let mut d2 = d.clone();
                    d2.push((b("Length"), Val::Ref(len_obj, 0)));
                    w.obj(num, 0, &Val::Stream(d2, Bytes(data.clone())));
                    w.obj(len_obj, 0, &Val::Int(data.len() as i64));
                    wrote_len_obj = true;
                    labels.push("stream/indirect-length".into());
                } else {
                    w.stream_obj(num, 0, &d, &data);
                }
            }
        }
    }
    if !members.is_empty() {
        for (k, chunk) in members.chunks(20).enumerate() {
            let stm = a.get();
            w.objstm(stm, chunk, &chain(1 + (k as u8 % 2) * 2), k % 2 == 0, &[]);
        }
        labels.push("storage/object-streams".into());
    }
    let mut size = a.next + 2;
    if spec.xref_stream {
        let x = a.get();
        size = size.max(x + 1);
        w.xref_stream(x, size, &trailer, spec.tape.first().map(|b| b & 1 == 1).unwrap_or(false), &[FilterSpec::Flate { raw: false, level: 6 }], false);
        labels.push("xref/stream".into());
    } else {
        w.free(0, 0, 65535);
        w.xref_table(size, &trailer, spec.tape.first().map(|b| b & 1 == 1).unwrap_or(false));
        labels.push("xref/table".into());
    }
    if !deferred.is_empty() {
        for (num, body) in deferred {
            match body {
                Body::Plain(v) => {
                    w.obj(num, 0, &v);
                }
                Body::Stream(d, data) => {
                    w.stream_obj(num, 0, &d, &data);
                }
            }
        }
        let extra = a.get();
        w.obj(extra, 0, &Val::dict(vec![("Added", Val::Bool(true))]));
        size = size.max(a.next + 1);
        if spec.incremental % 3 == 2 && spec.xref_stream {
            let x = a.get();
            size = size.max(x + 1);
            w.xref_stream(x, size, &trailer, false, &[], true);
            labels.push("update/stream".into());
        } else {
            w.xref_table(size, &trailer, false);
            labels.push("update/table".into());
        }
        labels.push("prev-chain".into());
    }
    let n_objects = a.next;
    Built { file: w.finish(), password, labels, n_pages: spec.pages.len(), n_objects }
}

pub fn spec_strategy() -> impl Strategy<Value = DocSpec> {
    let font = (any::<u8>(), any::<u8>(), any::<u8>(), proptest::collection::vec((any::<u16>(), any::<u8>(), any::<bool>()), 0..6), any::<u16>(), proptest::collection::vec((any::<u16>(), any::<u16>()), 0..6), any::<bool>())
        .prop_map(|(kind, first_char, nwidths, w_groups, dw, cmap_entries, w_indirect)| FontSpec { kind, first_char, nwidths, w_groups, dw, cmap_entries, w_indirect });
    let image = (any::<u8>(), any::<u8>(), any::<u8>(), any::<u8>(), any::<u32>(), any::<bool>()).prop_map(|(w, h, cs, chain, seed, smask)| ImageSpec { w, h, cs, chain, seed, smask });
    let page = (any::<bool>(), any::<bool>(), any::<u8>(), proptest::collection::vec(any::<u8>(), 0..20), any::<u8>(), any::<u8>(), any::<bool>(), any::<u8>(), any::<u8>(), any::<bool>())
        .prop_map(|(own_media, own_resources, rotate, text, use_font, use_image, use_form, annots, content_chain, two_content_parts)| PageSpec { own_media, own_resources, rotate, text, use_font, use_image, use_form, annots, content_chain, two_content_parts });
    (
        (proptest::collection::vec(page, 1..4), proptest::collection::vec(font, 0..3), proptest::collection::vec(image, 0..3)),
        (any::<bool>(), any::<bool>(), any::<u8>(), any::<u8>(), any::<bool>(), any::<bool>(), any::<u8>()),
        (any::<bool>(), any::<bool>(), any::<bool>(), any::<bool>(), gen::tape(40), proptest::collection::vec(0x20u8..0x7f, 0..10)),
    )
        .prop_map(|((pages, fonts, images), (xref_stream, objstm, incremental, encrypt, indirect_length, name_tree, outlines), (info, acroform, page_labels, nested_pages, tape, user_pw))| DocSpec {
            pages,
            fonts,
            images,
            xref_stream,
            objstm,
            incremental,
            encrypt,
            indirect_length,
            name_tree,
            outlines,
            info,
            acroform,
            page_labels,
            nested_pages,
            tape,
            user_pw,
            body_muts: Vec::new(),
        })
}
