//! /verif/known_findings.json — read-only at run time.
use serde::{Deserialize, Serialize};
use std::collections::BTreeMap;
use std::sync::Mutex;

#[derive(Clone, Debug, Serialize, Deserialize)]
pub struct Finding {
    pub property: String,
    /// specific signature: a gate name, a panic signature, or a named history
    pub key: String,
    /// "open" or "fixed"
    pub status: String,
    #[serde(default)]
    pub commit: Option<String>,
    pub what: String,
}

#[derive(Clone, Debug, Default, Serialize, Deserialize)]
pub struct KnownFile {
    pub findings: Vec<Finding>,
}

pub struct Known {
    pub file: KnownFile,
    hits: Mutex<BTreeMap<String, u64>>,
}

impl Known {
    pub fn load(path: &str) -> Known {
        let file = match std::fs::read_to_string(path) {
            Ok(s) => serde_json::from_str(&s).unwrap_or_else(|e| {
                eprintln!("harness error: cannot parse {}: {}", path, e);
                std::process::exit(2);
            }),
            Err(_) => KnownFile::default(),
        };
        Known { file, hits: Mutex::new(BTreeMap::new()) }
    }
    pub fn empty() -> Known {
        Known { file: KnownFile::default(), hits: Mutex::new(BTreeMap::new()) }
    }
    /// Is (property, key) listed as an *open* finding?  A key matches when it is equal to the listed
    /// key, or the listed key ends in `*` and is a prefix.
    pub fn is_open(&self, prop: &str, key: &str) -> bool {
        self.file.findings.iter().any(|f| f.property == prop && f.status == "open" && key_matches(&f.key, key))
    }
    pub fn open_for<'a>(&'a self, prop: &'a str) -> impl Iterator<Item = &'a Finding> + 'a {
        self.file.findings.iter().filter(move |f| f.property == prop && f.status == "open")
    }
    pub fn hit(&self, prop: &str, key: &str) {
        let listed = self
            .file
            .findings
            .iter()
            .find(|f| f.property == prop && f.status == "open" && key_matches(&f.key, key))
            .map(|f| f.key.clone())
            .unwrap_or_else(|| key.to_string());
        *self.hits.lock().unwrap().entry(listed).or_insert(0) += 1;
    }
    pub fn hits(&self) -> BTreeMap<String, u64> {
        self.hits.lock().unwrap().clone()
    }
}

fn key_matches(listed: &str, key: &str) -> bool {
    if let Some(p) = listed.strip_suffix('*') {
        key.starts_with(p)
    } else {
        listed == key
    }
}
