//! E2: randomised, specification-conformant spelling of a `Val` (ISO 32000-1 §7.2–7.3), driven by a choice tape.
//! Tape value 0 always selects the canonical spelling.
use super::tape::Tape;
use super::val::Val;

pub struct Printer<'a> {
    pub t: &'a mut Tape,
    pub out: Vec<u8>,
}

pub const WS: [u8; 6] = [b' ', b'\n', b'\r', b'\t', 0x0c, 0x00];
const WS_NAMES: [&str; 6] = ["ws-space", "ws-lf", "ws-cr", "ws-tab", "ws-ff", "ws-nul"];

pub fn is_ws(b: u8) -> bool {
    matches!(b, 0 | 9 | 10 | 12 | 13 | 32)
}
pub fn is_delim(b: u8) -> bool {
    matches!(b, b'(' | b')' | b'<' | b'>' | b'[' | b']' | b'{' | b'}' | b'/' | b'%')
}
pub fn is_regular(b: u8) -> bool {
    !is_ws(b) && !is_delim(b)
}

impl<'a> Printer<'a> {
    pub fn new(t: &'a mut Tape) -> Printer<'a> {
        Printer { t, out: Vec::new() }
    }

    fn last_regular(&self) -> bool {
        // a lone '/' (the empty name) would swallow a following regular token as well
        self.out.last().map(|&b| is_regular(b) || b == b'/').unwrap_or(false)
    }

    /// One white-space byte (possibly gated).
    fn ws_byte(&mut self) {
        let k = self.t.choose(6);
        let name = WS_NAMES[k];
        if k != 0 && self.t.disabled.contains(name) {
            self.t.excluded.push(name.to_string());
            self.out.push(b' ');
            return;
        }
        if k != 0 {
            self.t.mark(name);
        }
        self.out.push(WS[k]);
    }

    fn comment(&mut self) {
        // % text EOL ; text has no CR/LF
        let eol = self.t.choose(3);
        let name = ["comment-lf", "comment-cr", "comment-crlf"][eol];
        if self.t.disabled.contains(name) {
            self.t.excluded.push(name.to_string());
            self.out.push(b' ');
            return;
        }
        self.t.mark(name);
        self.out.push(b'%');
        let n = self.t.choose(8);
        for _ in 0..n {
            let b = self.t.byte();
            let b = if b == b'\n' || b == b'\r' { b'x' } else { b };
            self.out.push(b);
        }
        match eol {
            0 => self.out.push(b'\n'),
            1 => self.out.push(b'\r'),
            _ => self.out.extend_from_slice(b"\r\n"),
        }
    }

    /// Separator between two tokens.  `next_delim` = the next token starts with a delimiter.
    pub fn sep(&mut self, next_delim: bool) {
        let required = self.last_regular() && !next_delim;
        let c = self.t.byte();
        match c {
            0 => {
                // canonical: one space when required, else (canonical too) one space for readability except right after an opening bracket
                self.out.push(b' ');
            }
            1..=60 => {
                if required {
                    self.ws_byte();
                } else {
                    self.t.mark("elide-separator");
                }
            }
            61..=150 => self.ws_byte(),
            151..=200 => {
                let n = 1 + self.t.choose(3);
                for _ in 0..n {
                    self.ws_byte();
                }
            }
            201..=230 => {
                // comment needs to be preceded by ws only if previous token is regular? No: '%' is a delimiter, it ends a token.
                self.comment();
            }
            231..=244 => {
                self.ws_byte();
                self.comment();
                if self.t.choose(2) == 1 {
                    self.ws_byte();
                }
            }
            _ => {
                // several comments in a row, with or without white-space (blank lines, indentation) between them
                let n = 2 + self.t.choose(2);
                for _ in 0..n {
                    self.comment();
                    let k = self.t.choose(3);
                    for _ in 0..k {
                        self.ws_byte();
                    }
                }
                self.t.mark("consecutive-comments");
            }
        }
    }

    /// Mandatory white-space (used where the syntax requires it regardless of delimiters).
    pub fn ws1(&mut self) {
        if self.t.byte() == 0 {
            self.out.push(b' ');
        } else {
            self.ws_byte();
        }
    }

    pub fn raw(&mut self, s: &[u8]) {
        self.out.extend_from_slice(s);
    }

    fn starts_delim(v: &Val) -> bool {
        matches!(v, Val::Str(_) | Val::Name(_) | Val::Array(_) | Val::Dict(_) | Val::Stream(..))
    }

    pub fn int(&mut self, i: i64) {
        let neg = i < 0;
        let digits = i.unsigned_abs().to_string();
        if neg {
            self.out.push(b'-');
        } else if self.t.opt("int-plus-sign", 40) {
            self.out.push(b'+');
        }
        if self.t.opt("int-leading-zeros", 40) {
            let n = 1 + self.t.choose(4);
            for _ in 0..n {
                self.out.push(b'0');
            }
        }
        self.out.extend_from_slice(digits.as_bytes());
    }

    /// Reals are given as decimal text parts so the text is the ground truth.
    pub fn real_text(&mut self, neg: bool, int_part: &str, frac_part: &str) {
        if neg {
            self.out.push(b'-');
        } else if self.t.opt("real-plus-sign", 40) {
            self.out.push(b'+');
        }
        let mut ip = int_part.trim_start_matches('0').to_string();
        let fp = frac_part.to_string();
        // optional forms: ".5" (no integer digits) when ip is empty; "4." when fp is empty
        if ip.is_empty() {
            if fp.is_empty() {
                ip = "0".into(); // "0." at least one digit somewhere
            } else if !self.t.opt("real-no-int-part", 90) {
                ip = "0".into();
            }
        }
        if self.t.opt("real-leading-zeros", 30) {
            let n = 1 + self.t.choose(3);
            for _ in 0..n {
                self.out.push(b'0');
            }
        }
        self.out.extend_from_slice(ip.as_bytes());
        self.out.push(b'.');
        if fp.is_empty() {
            if !self.t.opt("real-no-frac-part", 120) {
                self.out.push(b'0');
            }
        } else {
            self.out.extend_from_slice(fp.as_bytes());
            if self.t.opt("real-trailing-zeros", 30) {
                self.out.extend_from_slice(b"00");
            }
        }
    }

    pub fn real(&mut self, r: f64) {
        // `r` holds an f32 value; std's Display for f32 prints the shortest decimal expansion (never an
        // exponent) that parses back to exactly that f32, so the text denotes `r`.
        let f = r as f32;
        let neg = f.is_sign_negative() && f != 0.0;
        let s = format!("{}", f.abs());
        let (ip, fp) = match s.split_once('.') {
            Some((a, b)) => (a.to_string(), b.to_string()),
            None => (s.clone(), String::new()),
        };
        self.real_text(neg, &ip, &fp);
    }

    pub fn literal_string(&mut self, s: &[u8]) {
        // which parens are balanced (may be written raw)
        let mut raw_ok = vec![false; s.len()];
        let mut stack = Vec::new();
        for (i, &b) in s.iter().enumerate() {
            if b == b'(' {
                stack.push(i);
            } else if b == b')' {
                if let Some(j) = stack.pop() {
                    raw_ok[i] = true;
                    raw_ok[j] = true;
                }
            }
        }
        // decide per matched pair: raw or escaped (both ends must agree)
        let mut pair_raw = vec![false; s.len()];
        {
            let mut stack: Vec<(usize, bool)> = Vec::new();
            for (i, &b) in s.iter().enumerate() {
                if !raw_ok[i] {
                    continue;
                }
                if b == b'(' {
                    let choice = self.t.opt("str-balanced-parens-raw", 128);
                    stack.push((i, choice));
                } else if b == b')' {
                    if let Some((j, c)) = stack.pop() {
                        pair_raw[i] = c;
                        pair_raw[j] = c;
                    }
                }
            }
        }
        self.out.push(b'(');
        let mut i = 0;
        while i < s.len() {
            let b = s[i];
            let next = s.get(i + 1).copied();
            if self.t.opt("str-line-continuation", 12) {
                self.out.push(b'\\');
                match self.t.choose(3) {
                    0 => self.out.push(b'\n'),
                    // "\<CR>" followed by a raw LF would read as one "\<CR><LF>" continuation
                    1 if b != b'\n' => self.out.push(b'\r'),
                    _ => self.out.extend_from_slice(b"\r\n"),
                }
            }
            match b {
                b'(' | b')' => {
                    if pair_raw[i] {
                        self.out.push(b);
                    } else if self.t.opt("str-octal", 20) {
                        self.octal(b, next);
                    } else {
                        self.out.push(b'\\');
                        self.out.push(b);
                    }
                }
                b'\\' => {
                    if self.t.opt("str-octal", 20) {
                        self.octal(b, next);
                    } else {
                        self.out.extend_from_slice(b"\\\\");
                    }
                }
                b'\n' => match self.t.choose(6) {
                    0 => self.out.push(b'\n'),
                    1 => self.out.extend_from_slice(b"\\n"),
                    2 => {
                        if self.gate("str-raw-cr-as-lf") {
                            // a raw CR (not followed by LF in the data that follows) denotes LF
                            if next == Some(b'\n') {
                                // "\r\n" raw would be one EOL; avoid the ambiguity
                                self.out.extend_from_slice(b"\\n");
                            } else {
                                self.out.push(b'\r');
                            }
                        } else {
                            self.out.push(b'\n');
                        }
                    }
                    3 => {
                        if self.gate("str-raw-crlf-as-lf") {
                            self.out.extend_from_slice(b"\r\n");
                        } else {
                            self.out.push(b'\n');
                        }
                    }
                    4 => self.octal(b, next),
                    _ => self.out.push(b'\n'),
                },
                b'\r' => {
                    // a raw CR would read as LF: must be escaped
                    if self.t.choose(3) == 1 {
                        self.octal(b, next);
                    } else {
                        self.out.extend_from_slice(b"\\r");
                    }
                }
                b'\t' | 0x08 | 0x0c => {
                    let named = match b {
                        b'\t' => b't',
                        0x08 => b'b',
                        _ => b'f',
                    };
                    match self.t.choose(3) {
                        0 => self.out.push(b),
                        1 => {
                            self.t.mark("str-named-escape");
                            self.out.push(b'\\');
                            self.out.push(named);
                        }
                        _ => self.octal(b, next),
                    }
                }
                _ => {
                    let c = self.t.byte();
                    if c != 0 && c < 25 {
                        self.octal(b, next);
                    } else if c >= 25 && c < 35 && !matches!(b, b'n' | b'r' | b't' | b'b' | b'f' | b'(' | b')' | b'\\' | b'0'..=b'7' | b'\n' | b'\r') && self.gate("str-ignored-backslash") {
                        // REVERSE SOLIDUS followed by a character not in Table 3 is ignored
                        self.out.push(b'\\');
                        self.out.push(b);
                    } else {
                        self.out.push(b);
                    }
                }
            }
            i += 1;
        }
        self.out.push(b')');
    }

    fn gate(&mut self, name: &'static str) -> bool {
        if self.t.disabled.contains(name) {
            self.t.excluded.push(name.to_string());
            false
        } else {
            self.t.mark(name);
            true
        }
    }

    fn octal(&mut self, b: u8, next: Option<u8>) {
        self.t.mark("str-octal");
        self.out.push(b'\\');
        let next_is_digit = matches!(next, Some(b'0'..=b'9'));
        let full = format!("{:03o}", b);
        let short = format!("{:o}", b);
        // NB: whether the next *output* byte is a digit depends on how `next` gets spelled; a raw digit is
        // the only spelling that starts with a digit (escapes start with a backslash), so test the data byte.
        if !next_is_digit && short.len() < 3 && self.t.choose(2) == 1 {
            self.t.mark("str-octal-short");
            self.out.extend_from_slice(short.as_bytes());
        } else {
            self.out.extend_from_slice(full.as_bytes());
        }
    }

    pub fn hex_string(&mut self, s: &[u8]) {
        self.t.mark("hex-string");
        self.out.push(b'<');
        let case = self.t.choose(3);
        let ws = self.t.opt("hex-embedded-ws", 100);
        let mut digits: Vec<u8> = Vec::new();
        for &b in s {
            for nib in [b >> 4, b & 15] {
                let up = match case {
                    0 => false,
                    1 => true,
                    _ => self.t.byte() & 1 == 1,
                };
                digits.push(if nib < 10 { b'0' + nib } else if up { b'A' + nib - 10 } else { b'a' + nib - 10 });
            }
        }
        if !s.is_empty() && s[s.len() - 1] & 15 == 0 && self.t.opt("hex-odd-digits", 128) {
            digits.pop();
        }
        if ws && self.t.choose(2) == 1 {
            self.ws_byte();
        }
        for d in digits {
            self.out.push(d);
            if ws && self.t.byte() > 170 {
                self.ws_byte();
            }
        }
        self.out.push(b'>');
    }

    pub fn string(&mut self, s: &[u8]) {
        if self.t.opt("hex-string", 70) {
            self.hex_string(s);
        } else {
            self.literal_string(s);
        }
    }

    pub fn name(&mut self, n: &[u8]) {
        self.out.push(b'/');
        for &b in n {
            let must = !(0x21..=0x7e).contains(&b) || is_delim(b) || b == b'#';
            if must {
                self.t.mark("name-hash-required");
                self.hash(b);
            } else if self.t.opt("name-hash-optional", 25) {
                self.hash(b);
            } else {
                self.out.push(b);
            }
        }
    }
    fn hash(&mut self, b: u8) {
        let s = if self.t.choose(2) == 0 { format!("#{:02X}", b) } else { format!("#{:02x}", b) };
        self.out.extend_from_slice(s.as_bytes());
    }

    pub fn val(&mut self, v: &Val) {
        match v {
            Val::Null => self.raw(b"null"),
            Val::Bool(true) => self.raw(b"true"),
            Val::Bool(false) => self.raw(b"false"),
            Val::Int(i) => self.int(*i),
            Val::Real(r) => self.real(*r),
            Val::Str(s) => self.string(s),
            Val::Name(n) => self.name(n),
            Val::Ref(id, gen) => {
                self.raw(id.to_string().as_bytes());
                self.sep(false);
                self.raw(gen.to_string().as_bytes());
                self.sep(false);
                self.raw(b"R");
            }
            Val::Array(a) => {
                self.raw(b"[");
                for e in a {
                    self.sep(Self::starts_delim(e));
                    self.val(e);
                }
                self.sep(true);
                self.raw(b"]");
            }
            Val::Dict(d) => self.dict(d),
            Val::Stream(d, data) => {
                self.dict(d);
                self.sep_before_stream();
                self.raw(b"stream");
                if self.t.opt("stream-crlf", 128) {
                    self.raw(b"\r\n");
                } else {
                    self.raw(b"\n");
                }
                self.raw(data);
                // "There should be an end-of-line marker after the data and before endstream"
                match self.t.choose(4) {
                    0 => self.raw(b"\n"),
                    1 => self.raw(b"\r\n"),
                    2 => {
                        self.t.mark("endstream-no-eol");
                    }
                    _ => self.raw(b"\r"),
                }
                self.raw(b"endstream");
            }
        }
    }

    fn sep_before_stream(&mut self) {
        // between >> and the stream keyword: any white-space; a comment here is legal but exotic (gated)
        let c = self.t.byte();
        match c {
            0 => self.out.push(b'\n'),
            1..=80 => {}
            81..=200 => self.ws_byte(),
            _ => {
                if self.gate("comment-before-stream") {
                    self.comment();
                } else {
                    self.out.push(b' ');
                }
            }
        }
    }

    pub fn dict(&mut self, d: &[(super::bytes::Bytes, Val)]) {
        self.raw(b"<<");
        for (k, v) in d {
            self.sep(true);
            self.name(k);
            self.sep(Self::starts_delim(v));
            self.val(v);
        }
        self.sep(true);
        self.raw(b">>");
    }
}

/// Canonical single-space spelling (tape of zeros).
pub fn canonical(v: &Val) -> Vec<u8> {
    let mut t = Tape::new(&[]);
    let mut p = Printer::new(&mut t);
    p.val(v);
    p.out
}
