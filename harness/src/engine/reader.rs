//! E3: an independent, deliberately strict PDF reader (tokenizer, object parser, classic and stream
//! cross-reference sections, object streams).  Used as the structural validator for files the library
//! writes (C10, C20) and to sanity-check the harness's own writer.
use super::bytes::Bytes;
use super::filters as rf;
use super::val::Val;
use std::collections::BTreeMap;

#[derive(Clone, Debug, PartialEq)]
pub enum Entry {
    Free { next: u64, gen: u64 },
    InUse { off: usize, gen: u64 },
    Compressed { stm: u64, idx: usize },
}

pub struct Lex<'a> {
    pub d: &'a [u8],
    pub p: usize,
}

fn is_ws(b: u8) -> bool {
    matches!(b, 0 | 9 | 10 | 12 | 13 | 32)
}
fn is_delim(b: u8) -> bool {
    matches!(b, b'(' | b')' | b'<' | b'>' | b'[' | b']' | b'{' | b'}' | b'/' | b'%')
}

impl<'a> Lex<'a> {
    pub fn new(d: &'a [u8], p: usize) -> Self {
        Lex { d, p }
    }
    pub fn skip_ws(&mut self) {
        loop {
            while self.p < self.d.len() && is_ws(self.d[self.p]) {
                self.p += 1;
            }
            if self.p < self.d.len() && self.d[self.p] == b'%' {
                while self.p < self.d.len() && self.d[self.p] != b'\n' && self.d[self.p] != b'\r' {
                    self.p += 1;
                }
            } else {
                break;
            }
        }
    }
    fn regular(&mut self) -> &'a [u8] {
        let s = self.p;
        while self.p < self.d.len() && !is_ws(self.d[self.p]) && !is_delim(self.d[self.p]) {
            self.p += 1;
        }
        &self.d[s..self.p]
    }
    pub fn keyword(&mut self, kw: &[u8]) -> Result<(), String> {
        self.skip_ws();
        let s = self.p;
        let t = self.regular();
        if t == kw {
            Ok(())
        } else {
            Err(format!("expected {:?} at {}, found {:?}", String::from_utf8_lossy(kw), s, String::from_utf8_lossy(t)))
        }
    }
    pub fn uint(&mut self) -> Result<u64, String> {
        self.skip_ws();
        let s = self.p;
        let t = self.regular();
        std::str::from_utf8(t).ok().and_then(|x| x.parse::<u64>().ok()).ok_or_else(|| format!("expected an unsigned integer at {}, found {:?}", s, String::from_utf8_lossy(t)))
    }

    pub fn object(&mut self, depth: usize) -> Result<Val, String> {
        if depth > 200 {
            return Err("nesting too deep".into());
        }
        self.skip_ws();
        let Some(&c) = self.d.get(self.p) else { return Err("unexpected end of data".into()) };
        match c {
            b'/' => {
                self.p += 1;
                let raw = self.regular();
                let mut out = Vec::new();
                let mut i = 0;
                while i < raw.len() {
                    if raw[i] == b'#' {
                        let h = raw.get(i + 1..i + 3).ok_or("truncated #xx in name")?;
                        let v = u8::from_str_radix(std::str::from_utf8(h).map_err(|_| "bad #xx")?, 16).map_err(|_| "bad #xx in name")?;
                        out.push(v);
                        i += 3;
                    } else {
                        out.push(raw[i]);
                        i += 1;
                    }
                }
                Ok(Val::Name(Bytes(out)))
            }
            b'(' => {
                self.p += 1;
                let mut out = Vec::new();
                let mut depth_p = 0;
                loop {
                    let Some(&b) = self.d.get(self.p) else { return Err("unterminated string".into()) };
                    self.p += 1;
                    match b {
                        b'\\' => {
                            let Some(&e) = self.d.get(self.p) else { return Err("unterminated string".into()) };
                            self.p += 1;
                            match e {
                                b'n' => out.push(b'\n'),
                                b'r' => out.push(b'\r'),
                                b't' => out.push(b'\t'),
                                b'b' => out.push(8),
                                b'f' => out.push(12),
                                b'(' | b')' | b'\\' => out.push(e),
                                b'\r' => {
                                    if self.d.get(self.p) == Some(&b'\n') {
                                        self.p += 1;
                                    }
                                }
                                b'\n' => {}
                                b'0'..=b'7' => {
                                    let mut v = (e - b'0') as u32;
                                    for _ in 0..2 {
                                        match self.d.get(self.p) {
                                            Some(&d @ b'0'..=b'7') => {
                                                v = v * 8 + (d - b'0') as u32;
                                                self.p += 1;
                                            }
                                            _ => break,
                                        }
                                    }
                                    out.push(v as u8);
                                }
                                other => out.push(other),
                            }
                        }
                        b'(' => {
                            depth_p += 1;
                            out.push(b);
                        }
                        b')' => {
                            if depth_p == 0 {
                                break;
                            }
                            depth_p -= 1;
                            out.push(b);
                        }
                        b'\r' => {
                            if self.d.get(self.p) == Some(&b'\n') {
                                self.p += 1;
                            }
                            out.push(b'\n');
                        }
                        other => out.push(other),
                    }
                }
                Ok(Val::Str(Bytes(out)))
            }
            b'<' => {
                if self.d.get(self.p + 1) == Some(&b'<') {
                    self.p += 2;
                    let mut d = Vec::new();
                    loop {
                        self.skip_ws();
                        if self.d.get(self.p) == Some(&b'>') && self.d.get(self.p + 1) == Some(&b'>') {
                            self.p += 2;
                            break;
                        }
                        let k = match self.object(depth + 1)? {
                            Val::Name(n) => n,
                            other => return Err(format!("dictionary key is not a name: {:?}", other)),
                        };
                        let v = self.object(depth + 1)?;
                        d.push((k, v));
                    }
                    Ok(Val::Dict(d))
                } else {
                    self.p += 1;
                    let mut out = Vec::new();
                    let mut hi: Option<u8> = None;
                    loop {
                        let Some(&b) = self.d.get(self.p) else { return Err("unterminated hex string".into()) };
                        self.p += 1;
                        if b == b'>' {
                            break;
                        }
                        if is_ws(b) {
                            continue;
                        }
                        let n = (b as char).to_digit(16).ok_or_else(|| format!("bad hex digit {:?}", b as char))? as u8;
                        match hi.take() {
                            None => hi = Some(n),
                            Some(h) => out.push(h << 4 | n),
                        }
                    }
                    if let Some(h) = hi {
                        out.push(h << 4);
                    }
                    Ok(Val::Str(Bytes(out)))
                }
            }
            b'[' => {
                self.p += 1;
                let mut a = Vec::new();
                loop {
                    self.skip_ws();
                    if self.d.get(self.p) == Some(&b']') {
                        self.p += 1;
                        break;
                    }
                    a.push(self.object(depth + 1)?);
                }
                Ok(Val::Array(a))
            }
            _ => {
                let s = self.p;
                let t = self.regular();
                if t.is_empty() {
                    return Err(format!("unexpected character {:?} at {}", c as char, s));
                }
                match t {
                    b"true" => return Ok(Val::Bool(true)),
                    b"false" => return Ok(Val::Bool(false)),
                    b"null" => return Ok(Val::Null),
                    _ => {}
                }
                let text = std::str::from_utf8(t).map_err(|_| "non-ASCII token")?;
                if let Ok(i) = text.parse::<i64>() {
                    // maybe a reference "n g R"
                    let save = self.p;
                    if i >= 0 {
                        self.skip_ws();
                        let g = self.regular();
                        if let Some(gen) = std::str::from_utf8(g).ok().and_then(|x| x.parse::<u64>().ok()) {
                            self.skip_ws();
                            let r = self.regular();
                            if r == b"R" {
                                return Ok(Val::Ref(i as u64, gen));
                            }
                        }
                    }
                    self.p = save;
                    return Ok(Val::Int(i));
                }
                let numeric = text.bytes().all(|b| b.is_ascii_digit() || b == b'.' || b == b'-' || b == b'+') && text.bytes().any(|b| b.is_ascii_digit());
                if numeric {
                    if let Ok(f) = text.parse::<f64>() {
                        return Ok(Val::Real(f));
                    }
                }
                Err(format!("unknown token {:?} at {}", text, s))
            }
        }
    }
}

pub struct Reader<'a> {
    pub data: &'a [u8],
    pub base: usize,
    pub xref: BTreeMap<u64, Entry>,
    pub trailer: Val,
    pub startxref: usize,
    pub sections: usize,
}

fn decode_stream(dict: &Val, raw: &[u8]) -> Result<Vec<u8>, String> {
    let filters: Vec<Vec<u8>> = match dict.get("Filter") {
        None | Some(Val::Null) => vec![],
        Some(Val::Name(n)) => vec![n.0.clone()],
        Some(Val::Array(a)) => a.iter().filter_map(|x| if let Val::Name(n) = x { Some(n.0.clone()) } else { None }).collect(),
        other => return Err(format!("unsupported /Filter {:?}", other)),
    };
    let parms: Vec<Option<Val>> = match dict.get("DecodeParms") {
        None | Some(Val::Null) => vec![],
        Some(d @ Val::Dict(_)) => vec![Some(d.clone())],
        Some(Val::Array(a)) => a.iter().map(|x| if let Val::Dict(_) = x { Some(x.clone()) } else { None }).collect(),
        _ => vec![],
    };
    let mut cur = raw.to_vec();
    for (i, f) in filters.iter().enumerate() {
        cur = match f.as_slice() {
            b"FlateDecode" => rf::zlib_decode_ref(&cur).or_else(|_| rf::deflate_decode_ref(&cur))?,
            b"ASCIIHexDecode" => rf::hex_decode_ref(&cur)?,
            b"ASCII85Decode" => rf::a85_decode_ref(&cur)?,
            b"RunLengthDecode" => rf::rl_decode_ref(&cur)?,
            b"LZWDecode" => {
                let early = parms.get(i).and_then(|p| p.as_ref()).and_then(|p| p.get("EarlyChange").cloned()).map(|v| if v == Val::Int(0) { 0 } else { 1 }).unwrap_or(1);
                rf::lzw_decode_ref(&cur, early)?
            }
            other => return Err(format!("reader does not implement filter {:?}", String::from_utf8_lossy(other))),
        };
        if let Some(Some(p)) = parms.get(i) {
            let int = |k: &str, def: i64| p.get(k).and_then(|v| if let Val::Int(i) = v { Some(*i) } else { None }).unwrap_or(def);
            let pred = int("Predictor", 1);
            let g = rf::Geometry { colors: int("Colors", 1) as u32, bpc: int("BitsPerComponent", 8) as u32, columns: int("Columns", 1) as u32 };
            if pred >= 10 {
                cur = rf::png_decode_ref(&cur, g)?;
            } else if pred == 2 {
                cur = rf::tiff_decode_ref(&cur, g);
            }
        }
    }
    Ok(cur)
}

impl<'a> Reader<'a> {
    /// Parse "n g obj ... endobj" at `off` (relative to the header).  Streams need their /Length resolved.
    pub fn indirect_at(&self, off: usize) -> Result<(u64, u64, Val, usize), String> {
        let mut lx = Lex::new(self.data, self.base + off);
        let num = lx.uint()?;
        let gen = lx.uint()?;
        lx.keyword(b"obj")?;
        let v = lx.object(0)?;
        lx.skip_ws();
        if self.data[lx.p..].starts_with(b"stream") {
            let Val::Dict(d) = v else { return Err(format!("object {}: stream keyword after a non-dictionary", num)) };
            lx.p += 6;
            match (self.data.get(lx.p), self.data.get(lx.p + 1)) {
                (Some(b'\r'), Some(b'\n')) => lx.p += 2,
                (Some(b'\n'), _) => lx.p += 1,
                _ => return Err(format!("object {}: the stream keyword must be followed by LF or CRLF", num)),
            }
            let dv = Val::Dict(d.clone());
            let len = match dv.get("Length") {
                Some(Val::Int(n)) if *n >= 0 => *n as usize,
                Some(Val::Ref(n, _)) => match self.get(*n)? {
                    Val::Int(n) if n >= 0 => n as usize,
                    other => return Err(format!("object {}: /Length refers to {:?}", num, other)),
                },
                other => return Err(format!("object {}: bad /Length {:?}", num, other)),
            };
            let start = lx.p;
            let end = start.checked_add(len).filter(|e| *e <= self.data.len()).ok_or_else(|| format!("object {}: /Length {} runs past the end of the file", num, len))?;
            let data = self.data[start..end].to_vec();
            lx.p = end;
            // optional end-of-line, then endstream
            if self.data[lx.p..].starts_with(b"\r\n") {
                lx.p += 2;
            } else if matches!(self.data.get(lx.p), Some(b'\n') | Some(b'\r')) {
                lx.p += 1;
            }
            if !self.data[lx.p..].starts_with(b"endstream") {
                return Err(format!("object {}: /Length {} does not end at the end-of-line before endstream (found {:?})", num, len, String::from_utf8_lossy(&self.data[lx.p..(lx.p + 12).min(self.data.len())])));
            }
            lx.p += 9;
            lx.keyword(b"endobj")?;
            return Ok((num, gen, Val::Stream(d, Bytes(data)), lx.p));
        }
        lx.keyword(b"endobj")?;
        Ok((num, gen, v, lx.p))
    }

    pub fn get(&self, num: u64) -> Result<Val, String> {
        match self.xref.get(&num) {
            None => Err(format!("object {} is not in the cross-reference table", num)),
            Some(Entry::Free { .. }) => Err(format!("object {} is free", num)),
            Some(Entry::InUse { off, gen }) => {
                let (n, g, v, _) = self.indirect_at(*off)?;
                if n != num || g != *gen {
                    return Err(format!("entry for object {} {} points at offset {} where object {} {} starts", num, gen, off, n, g));
                }
                Ok(v)
            }
            Some(Entry::Compressed { stm, idx }) => {
                let Val::Stream(d, raw) = self.get(*stm)? else { return Err(format!("object stream {} is not a stream", stm)) };
                let dv = Val::Dict(d);
                let body = decode_stream(&dv, &raw)?;
                let n = match dv.get("N") {
                    Some(Val::Int(n)) => *n as usize,
                    _ => return Err("object stream without /N".into()),
                };
                let first = match dv.get("First") {
                    Some(Val::Int(n)) => *n as usize,
                    _ => return Err("object stream without /First".into()),
                };
                let mut lx = Lex::new(&body, 0);
                let mut pairs = Vec::new();
                for _ in 0..n {
                    pairs.push((lx.uint()?, lx.uint()? as usize));
                }
                let (mnum, moff) = *pairs.get(*idx).ok_or("object stream index out of range")?;
                if mnum != num {
                    return Err(format!("object stream {} index {} holds object {}, not {}", stm, idx, mnum, num));
                }
                let mut lx = Lex::new(&body, first + moff);
                lx.object(0)
            }
        }
    }

    fn read_section(&mut self, off: usize, newest: bool) -> Result<Option<usize>, String> {
        let mut lx = Lex::new(self.data, self.base + off);
        lx.skip_ws();
        let tdict;
        if self.data[lx.p..].starts_with(b"xref") {
            lx.p += 4;
            loop {
                lx.skip_ws();
                if self.data[lx.p..].starts_with(b"trailer") {
                    lx.p += 7;
                    break;
                }
                let first = lx.uint()?;
                let count = lx.uint()?;
                for k in 0..count {
                    let a = lx.uint()?;
                    let b = lx.uint()?;
                    lx.skip_ws();
                    let kind = lx.d.get(lx.p).copied();
                    lx.p += 1;
                    let e = match kind {
                        Some(b'n') => Entry::InUse { off: a as usize, gen: b },
                        Some(b'f') => Entry::Free { next: a, gen: b },
                        other => return Err(format!("bad xref entry kind {:?}", other)),
                    };
                    self.xref.entry(first + k).or_insert(e);
                }
            }
            tdict = lx.object(0)?;
        } else {
            let (xnum, _g, v, _) = self.indirect_at(off)?;
            let Val::Stream(d, raw) = v else { return Err("startxref does not point at an xref table or stream".into()) };
            let dv = Val::Dict(d);
            if dv.get("Type") != Some(&Val::name("XRef")) {
                return Err(format!("object {} at the xref offset is not /Type /XRef", xnum));
            }
            let body = decode_stream(&dv, &raw)?;
            let ints = |k: &str| -> Option<Vec<i64>> {
                match dv.get(k) {
                    Some(Val::Array(a)) => Some(a.iter().filter_map(|x| if let Val::Int(i) = x { Some(*i) } else { None }).collect()),
                    _ => None,
                }
            };
            let w = ints("W").ok_or("xref stream without /W")?;
            if w.len() != 3 || w.iter().any(|x| *x < 0 || *x > 8) {
                return Err(format!("bad /W {:?}", w));
            }
            let size = match dv.get("Size") {
                Some(Val::Int(n)) => *n,
                _ => return Err("xref stream without /Size".into()),
            };
            let index = ints("Index").unwrap_or_else(|| vec![0, size]);
            let (w0, w1, w2) = (w[0] as usize, w[1] as usize, w[2] as usize);
            let mut p = 0usize;
            let rd = |p: &mut usize, n: usize| -> Result<u64, String> {
                let s = body.get(*p..*p + n).ok_or("xref stream data too short")?;
                *p += n;
                Ok(s.iter().fold(0u64, |a, b| (a << 8) | *b as u64))
            };
            for pair in index.chunks(2) {
                if pair.len() < 2 {
                    return Err("odd /Index".into());
                }
                for k in 0..pair[1] {
                    let t = if w0 == 0 { 1 } else { rd(&mut p, w0)? };
                    let a = rd(&mut p, w1)?;
                    let b = rd(&mut p, w2)?;
                    let e = match t {
                        0 => Entry::Free { next: a, gen: b },
                        1 => Entry::InUse { off: a as usize, gen: b },
                        2 => Entry::Compressed { stm: a, idx: b as usize },
                        other => return Err(format!("xref stream entry type {}", other)),
                    };
                    self.xref.entry((pair[0] + k) as u64).or_insert(e);
                }
            }
            tdict = dv;
        }
        if newest {
            self.trailer = tdict.clone();
        }
        self.sections += 1;
        Ok(match tdict.get("Prev") {
            Some(Val::Int(p)) if *p >= 0 => Some(*p as usize),
            _ => None,
        })
    }

    pub fn load(data: &'a [u8]) -> Result<Reader<'a>, String> {
        let base = data.windows(5).position(|w| w == b"%PDF-").ok_or("no %PDF- header")?;
        let sx = data.windows(9).rposition(|w| w == b"startxref").ok_or("no startxref")?;
        let mut lx = Lex::new(data, sx + 9);
        let startxref = lx.uint()? as usize;
        let mut r = Reader { data, base, xref: BTreeMap::new(), trailer: Val::Null, startxref, sections: 0 };
        let mut next = Some(startxref);
        let mut seen = Vec::new();
        let mut newest = true;
        while let Some(off) = next {
            if seen.contains(&off) {
                return Err("/Prev loop".into());
            }
            seen.push(off);
            next = r.read_section(off, newest)?;
            newest = false;
        }
        Ok(r)
    }

    /// The structural validity check of C10: returns a list of problems (empty = valid).
    pub fn validate(&self) -> Vec<String> {
        let mut problems = Vec::new();
        if self.base != 0 {
            problems.push(format!("the header is not at the start of the file (found at {})", self.base));
        }
        let size = match self.trailer.get("Size") {
            Some(Val::Int(n)) => *n,
            _ => {
                problems.push("trailer without /Size".into());
                0
            }
        };
        if self.trailer.get("Root").is_none() {
            problems.push("trailer without /Root".into());
        }
        let mut refs: Vec<(u64, String)> = Vec::new();
        fn collect(v: &Val, ctx: &str, out: &mut Vec<(u64, String)>) {
            v.walk(&mut |x| {
                if let Val::Ref(n, _) = x {
                    out.push((*n, ctx.to_string()));
                }
            });
        }
        collect(&self.trailer, "trailer", &mut refs);
        for (num, e) in &self.xref {
            if *num as i64 >= size {
                problems.push(format!("object number {} is not below /Size {}", num, size));
            }
            match e {
                Entry::Free { .. } => {}
                _ => match self.get(*num) {
                    Ok(v) => collect(&v, &format!("object {}", num), &mut refs),
                    Err(m) => problems.push(m),
                },
            }
        }
        for (n, ctx) in refs {
            match self.xref.get(&n) {
                Some(Entry::InUse { .. }) | Some(Entry::Compressed { .. }) => {}
                other => problems.push(format!("{} refers to object {}, which is {}", ctx, n, if other.is_some() { "free" } else { "undefined" })),
            }
        }
        problems
    }
}
