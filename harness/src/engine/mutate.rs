//! E7: seeded structure-aware mutations of whole files.  Every mutation is a pure function of the
//! proptest-supplied parameters.
use proptest::prelude::*;

#[derive(Clone, Debug)]
pub struct Mutation {
    pub kind: u8,
    pub pos: u32,
    pub val: u32,
    pub len: u16,
}

pub const KEYS: [&str; 48] = [
    "Type", "Subtype", "Length", "Filter", "DecodeParms", "Kids", "Count", "Parent", "Pages", "Root", "Size", "Prev", "W", "Index", "N", "First", "Extends", "Contents", "Resources", "Font", "XObject", "MediaBox", "Widths", "FirstChar", "LastChar", "DescendantFonts", "ToUnicode", "Encoding", "Differences", "Predictor", "Columns", "Colors",
    "BitsPerComponent", "Width", "Height", "ColorSpace", "Annots", "Names", "Dests", "Outlines", "Next", "Encrypt", "ID", "Info", "DW", "FontDescriptor", "Limits", "Nums",
];
pub const NUMBERS: [&str; 22] = ["-1", "0", "1", "2", "7", "255", "256", "65535", "65536", "2147483647", "2147483648", "-2147483648", "4294967295", "4294967296", "18446744073709551615", "99999999999999999999", "0.5", "-0.0", "1e10", "00000000000000000000000001", "+5", "3.4028236e38"];

fn scale(pos: u32, len: usize) -> usize {
    if len == 0 {
        0
    } else {
        ((pos as u64 * len as u64) >> 32) as usize
    }
}

fn find_from(data: &[u8], start: usize, pred: impl Fn(u8) -> bool) -> Option<usize> {
    data[start.min(data.len())..].iter().position(|&b| pred(b)).map(|i| start + i)
}

pub fn apply(data: &mut Vec<u8>, m: &Mutation, other: &[u8]) -> &'static str {
    let n = data.len();
    let p = scale(m.pos, n);
    match m.kind % 16 {
        0 => {
            if n > 0 {
                data[p] ^= 1 << (m.val % 8);
            }
            "bit-flip"
        }
        1 => {
            if n > 0 {
                data[p] = m.val as u8;
            }
            "set-byte"
        }
        2 => {
            let l = (m.len as usize % 64).min(n - p.min(n));
            data.drain(p..p + l);
            "delete-range"
        }
        3 => {
            let l = (m.len as usize % 256).min(n - p.min(n));
            let chunk: Vec<u8> = data[p..p + l].to_vec();
            let q = scale(m.val, data.len());
            data.splice(q..q, chunk);
            "duplicate-range"
        }
        4 => {
            data.truncate(p);
            "truncate"
        }
        5 => {
            // replace the next number token with a boundary number
            if let Some(s) = find_from(data, p, |b| b.is_ascii_digit()) {
                let e = find_from(data, s, |b| !(b.is_ascii_digit() || b == b'.')).unwrap_or(data.len());
                let rep = NUMBERS[m.val as usize % NUMBERS.len()].as_bytes().to_vec();
                data.splice(s..e, rep);
            }
            "replace-number"
        }
        6 => {
            // replace the next name with another PDF key
            if let Some(s) = find_from(data, p, |b| b == b'/') {
                let e = find_from(data, s + 1, |b| !(b.is_ascii_alphanumeric())).unwrap_or(data.len());
                let rep = KEYS[m.val as usize % KEYS.len()].as_bytes().to_vec();
                data.splice(s + 1..e, rep);
            }
            "replace-name"
        }
        7 => {
            // splice a chunk of another file
            if !other.is_empty() {
                let a = scale(m.val, other.len());
                let l = (m.len as usize * 4).min(other.len() - a);
                let chunk = other[a..a + l].to_vec();
                data.splice(p..p, chunk);
            }
            "splice-other-file"
        }
        8 => {
            // perturb the startxref value
            if let Some(i) = data.windows(9).rposition(|w| w == b"startxref") {
                if let Some(s) = find_from(data, i + 9, |b| b.is_ascii_digit()) {
                    let e = find_from(data, s, |b| !b.is_ascii_digit()).unwrap_or(data.len());
                    let old: i64 = std::str::from_utf8(&data[s..e]).ok().and_then(|t| t.parse().ok()).unwrap_or(0);
                    let new = match m.val % 6 {
                        0 => old.saturating_add(1),
                        1 => (old - 1).max(0),
                        2 => 0,
                        3 => old.saturating_add(m.len as i64),
                        4 => i64::MAX,
                        _ => (scale(m.pos, n)) as i64,
                    };
                    data.splice(s..e, new.to_string().into_bytes());
                }
            }
            "perturb-startxref"
        }
        9 => {
            // change a reference target: "<n> <g> R" -> other object number
            if let Some(i) = data[p.min(n)..].windows(3).position(|w| w == b" R\n" || w == b" R " || w == b" R/" || w == b" R>" || w == b" R]") {
                let r = p + i;
                // walk back over "<gen>" and "<num>"
                let mut k = r;
                while k > 0 && data[k - 1].is_ascii_digit() {
                    k -= 1;
                }
                let mut j = k.saturating_sub(1);
                while j > 0 && data[j - 1].is_ascii_digit() {
                    j -= 1;
                }
                if j < k.saturating_sub(1) {
                    let rep = (m.val % 40).to_string().into_bytes();
                    data.splice(j..k - 1, rep);
                }
            }
            "retarget-reference"
        }
        10 => {
            // swap two ranges (reorder objects roughly)
            let q = scale(m.val, n);
            let l = (m.len as usize % 128).min(n - p.min(n)).min(n - q.min(n));
            if p + l <= q || q + l <= p {
                for k in 0..l {
                    data.swap(p + k, q + k);
                }
            }
            "swap-ranges"
        }
        11 => {
            let ins: &[u8] = [&b"<<"[..], b">>", b"[", b"]", b"(", b")", b"stream\n", b"endstream", b"endobj", b"obj", b" R ", b"%", b"\n", b"\r", b"<", b">", b"/", b"null", b"trailer", b"xref\n"][m.val as usize % 20];
            data.splice(p..p, ins.to_vec());
            "insert-token"
        }
        12 => {
            // overwrite with a run of one byte
            let l = (m.len as usize % 48).min(n - p.min(n));
            for k in 0..l {
                data[p + k] = m.val as u8;
            }
            "overwrite-run"
        }
        13 => {
            // nest deeply: insert many opening brackets
            let depth = [19usize, 20, 21, 100, 5000][m.val as usize % 5];
            let open = if m.len % 2 == 0 { b"[".to_vec() } else { b"<</A".to_vec() };
            let mut ins = Vec::new();
            for _ in 0..depth {
                ins.extend_from_slice(&open);
            }
            data.splice(p..p, ins);
            "deep-nesting"
        }
        14 => {
            // change a /Length-like value after the next "/Length"
            if let Some(i) = data[p.min(n)..].windows(7).position(|w| w == b"/Length") {
                let s0 = p + i + 7;
                if let Some(s) = find_from(data, s0, |b| b.is_ascii_digit()) {
                    if s - s0 < 3 {
                        let e = find_from(data, s, |b| !b.is_ascii_digit()).unwrap_or(data.len());
                        let rep = NUMBERS[m.val as usize % NUMBERS.len()].as_bytes().to_vec();
                        data.splice(s..e, rep);
                    }
                }
            }
            "change-length"
        }
        _ => {
            // insert random bytes
            let l = 1 + m.len as usize % 16;
            let mut x = m.val | 1;
            let ins: Vec<u8> = (0..l)
                .map(|_| {
                    x = x.wrapping_mul(1664525).wrapping_add(1013904223);
                    (x >> 24) as u8
                })
                .collect();
            data.splice(p..p, ins);
            "insert-bytes"
        }
    }
}

pub fn mutation() -> impl Strategy<Value = Mutation> {
    (any::<u8>(), any::<u32>(), any::<u32>(), any::<u16>()).prop_map(|(kind, pos, val, len)| Mutation { kind, pos, val, len })
}

pub fn mutations(max: usize) -> impl Strategy<Value = Vec<Mutation>> {
    proptest::collection::vec(mutation(), 1..=max)
}
