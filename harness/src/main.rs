use vh::engine::runner::{CaseInfo, Ctx, Tier};
use vh::props;

fn usage() -> ! {
    eprintln!("usage: vh run <ID> [--tier quick|thorough] | vh replay <ID> <file> | vh list");
    std::process::exit(2);
}

fn main() {
    let args: Vec<String> = std::env::args().collect();
    if args.len() < 2 {
        usage();
    }
    let verif_dir = std::env::var("VERIF_DIR").unwrap_or_else(|_| "/verif".to_string());
    let seed: u64 = std::env::var("VERIF_SEED").ok().and_then(|s| s.trim().parse::<i64>().ok()).map(|v| v as u64).unwrap_or(1);
    let mut tier = match std::env::var("VERIF_TIER").as_deref() {
        Ok("thorough") => Tier::Thorough,
        _ => Tier::Quick,
    };
    let mut i = 2;
    let mut pos: Vec<String> = Vec::new();
    while i < args.len() {
        match args[i].as_str() {
            "--tier" => {
                i += 1;
                tier = match args.get(i).map(|s| s.as_str()) {
                    Some("thorough") => Tier::Thorough,
                    Some("quick") => Tier::Quick,
                    _ => usage(),
                };
            }
            other => pos.push(other.to_string()),
        }
        i += 1;
    }
    vh::engine::panics::install();
    match args[1].as_str() {
        "walk" => {
            // debugging aid: print the transcript of a file
            let path = pos.get(0).cloned().unwrap_or_else(|| usage());
            let data = std::fs::read(&path).expect("read");
            let cached = pos.iter().any(|a| a == "cached");
            let tolerant = pos.iter().any(|a| a == "tolerant");
            let pw = pos.iter().find_map(|a| a.strip_prefix("pw=")).unwrap_or("").to_string();
            match vh::engine::open::open(&data, cached, tolerant, pw.as_bytes()) {
                Err(e) => println!("load error: {:?}", e),
                Ok(f) => {
                    let mut opts = vh::engine::walker::WalkOpts::default();
                    opts.verbose = true;
                    let t = vh::with_file!(f, file => vh::engine::walker::walk_file(file, &opts));
                    for (c, o) in &t.entries {
                        println!("{:60} {:?}", c, o);
                    }
                    println!("{} entries, {} ok, {} panics", t.entries.len(), t.count_ok(), t.panics().len());
                }
            }
        }
        "gendoc" => {
            // debugging aid: generate documents, report how they load, optionally dump one
            let n: u64 = pos.get(0).and_then(|s| s.parse().ok()).unwrap_or(20);
            let dump = pos.get(1).cloned();
            let strat = vh::engine::docgen::spec_strategy();
            let mut errs: std::collections::BTreeMap<String, u64> = Default::default();
            for k in 0..n {
                let spec = vh::engine::runner::nth_case(&strat, seed, k);
                let built = vh::engine::docgen::build(&spec);
                if let Some(d) = &dump {
                    if k + 1 == n {
                        std::fs::write(d, &built.file).unwrap();
                        println!("labels: {:?} password {:?}", built.labels, String::from_utf8_lossy(&built.password));
                    }
                }
                match vh::engine::open::open(&built.file, false, false, &built.password) {
                    Err(e) => {
                        *errs.entry(format!("load:{}", vh::engine::errs::root_kind(&e))).or_insert(0) += 1;
                        if errs.len() < 4 {
                            println!("case {} load error {:?} labels {:?}", k, e, built.labels);
                        }
                    }
                    Ok(f) => {
                        let t = vh::with_file!(f, file => vh::engine::walker::walk_file(file, &vh::engine::walker::WalkOpts::default()));
                        for (c, o) in &t.entries {
                            match o {
                                vh::engine::walker::Out::Err(k2) if !c.starts_with("resolve(") && !c.starts_with("get_page(") => {
                                    let key = format!("{}:{}", c.split(|ch: char| ch == '(' || ch == '[').next().unwrap_or(""), k2);
                                    let e = errs.entry(key).or_insert(0);
                                    *e += 1;
                                    if *e == 1 {
                                        println!("case {}: {} -> {:?}   labels {:?}", k, c, o, built.labels);
                                    }
                                }
                                vh::engine::walker::Out::Panic(k2) => {
                                    *errs.entry(format!("PANIC {}", k2)).or_insert(0) += 1;
                                }
                                _ => {}
                            }
                        }
                    }
                }
            }
            println!("{:#?}", errs);
        }
        "worker" => {
            vh::engine::isolate::worker_main(vh::engine::jobs::handle);
        }
        "selfcheck" => {
            // the harness writer against the harness reader: every generated (unencrypted) document validates
            let n: u64 = pos.get(0).and_then(|s| s.parse().ok()).unwrap_or(300);
            let strat = vh::engine::docgen::spec_strategy();
            let mut bad = 0;
            for k in 0..n {
                let mut spec = vh::engine::runner::nth_case(&strat, seed, k);
                spec.encrypt = 0;
                let built = vh::engine::docgen::build(&spec);
                match vh::engine::reader::Reader::load(&built.file) {
                    Err(e) => {
                        bad += 1;
                        println!("case {}: reader cannot load: {} labels {:?}", k, e, built.labels);
                    }
                    Ok(r) => {
                        let p: Vec<String> = r.validate().into_iter().filter(|m| !m.contains("which is undefined") && !m.contains("which is free")).collect();
                        if !p.is_empty() {
                            bad += 1;
                            println!("case {}: {:?} labels {:?}", k, &p[..p.len().min(3)], built.labels);
                        }
                    }
                }
            }
            for f in vh::engine::corpus::load(&verif_dir, false) {
                match vh::engine::reader::Reader::load(&f.data) {
                    Err(e) => println!("corpus {}: reader cannot load: {}", f.name, e),
                    Ok(r) => {
                        let p = r.validate();
                        println!("corpus {}: {} objects, {} problems {:?}", f.name, r.xref.len(), p.len(), p.iter().take(2).collect::<Vec<_>>());
                    }
                }
            }
            println!("{} of {} generated documents had problems", bad, n);
            std::process::exit(if bad == 0 { 0 } else { 2 });
        }
        "c14cases" => {
            for (label, file) in vh::props::c14::structural_cases() {
                let r = vh::engine::open::open(&file, false, false, b"");
                println!("{:50} {}", label, match r { Ok(_) => "loads".to_string(), Err(e) => format!("{:?}", vh::engine::errs::root_cause(&e)).chars().take(90).collect() });
            }
        }
        "list" => {
            for p in props::all() {
                println!("{}", p.id);
            }
        }
        "run" => {
            let id = pos.get(0).cloned().unwrap_or_else(|| usage());
            let Some(p) = props::all().into_iter().find(|p| p.id == id) else {
                eprintln!("unknown property {}", id);
                std::process::exit(2);
            };
            let ctx = Ctx::new(p.id, tier, seed, &verif_dir);
            // regression tier: saved inputs under corpus/<ID>/*.json
            replay_dir(&ctx, &p, &format!("{}/corpus/{}", verif_dir, p.id));
            (p.run)(&ctx);
            std::process::exit(ctx.finish(p.rule, p.assumptions));
        }
        "replay" => {
            let id = pos.get(0).cloned().unwrap_or_else(|| usage());
            let path = pos.get(1).cloned().unwrap_or_else(|| usage());
            let Some(p) = props::all().into_iter().find(|p| p.id == id) else {
                eprintln!("unknown property {}", id);
                std::process::exit(2);
            };
            let ctx = Ctx::new(p.id, tier, seed, &verif_dir);
            vh::engine::panics::set_quiet(false);
            let code = replay_file(&ctx, &p, &path, true);
            std::process::exit(code);
        }
        _ => usage(),
    }
}

fn replay_dir(ctx: &Ctx, p: &props::Prop, dir: &str) {
    let Ok(rd) = std::fs::read_dir(dir) else { return };
    let mut files: Vec<String> = rd.filter_map(|e| e.ok()).map(|e| e.path().to_string_lossy().to_string()).filter(|f| f.ends_with(".json")).collect();
    files.sort();
    for f in files {
        replay_file(ctx, p, &f, false);
        ctx.report.lock().unwrap().replayed += 1;
    }
}

/// returns exit code for single replay mode
fn replay_file(ctx: &Ctx, p: &props::Prop, path: &str, verbose: bool) -> i32 {
    let text = match std::fs::read_to_string(path) {
        Ok(t) => t,
        Err(e) => {
            eprintln!("cannot read {}: {}", path, e);
            return 2;
        }
    };
    let v: serde_json::Value = match serde_json::from_str(&text) {
        Ok(v) => v,
        Err(e) => {
            eprintln!("cannot parse {}: {}", path, e);
            return 2;
        }
    };
    let check = v["check"].as_str().unwrap_or("").to_string();
    let art = v["artifact"].clone();
    let mut failed = false;
    let name = std::path::Path::new(path).file_name().map(|s| s.to_string_lossy().to_string()).unwrap_or_default();
    if verbose {
        let mut info = CaseInfo::default();
        match (p.replay)(ctx, &check, &art, &mut info) {
            Ok(()) => println!("replay {}: property held", path),
            Err(f) => {
                if ctx.known.is_open(&ctx.prop, &f.key) {
                    println!("KNOWN-FINDING: property={} key={} {}", ctx.prop, f.key, f.msg);
                } else {
                    println!("VIOLATION property={} replay={}", ctx.prop, path);
                    println!("  key={} msg={}", f.key, f.msg);
                    failed = true;
                }
            }
        }
    } else {
        ctx.run_one(&format!("regression:{}", check), &name, |info| (p.replay)(ctx, &check, &art, info));
    }
    if failed {
        1
    } else {
        0
    }
}
