//! C13 — concurrent readers get the answers sequential readers would.
//!
//! Scenarios (file, threads x calls, shared or per-thread resolver, cached or not) run inside worker processes
//! because the failure mode is an abort (panic inside a drop guard).  Two drivers:
//!  * scheduled: real threads stop at the `--cfg pdf_verif` yield points inside `Resolve::get`; a controller
//!    grants one thread at a time following a choice sequence, and the parent enumerates the choice tree by
//!    DFS with a preemption bound;
//!  * stress: free-running threads, repeated.
use crate::engine::bytes::{from_hex, to_hex, Bytes};
use crate::engine::corpus;
use crate::engine::docgen;
use crate::engine::errs;
use crate::engine::isolate::{self, Reply};
use crate::engine::panics;
use crate::engine::runner::{CaseInfo, Ctx, Failure, Tier};
use crate::engine::val::{canon, from_primitive};
use crate::engine::walker::{h64, Out};
use pdf::file::FileOptions;
use pdf::font::Font;
use pdf::object::*;
use pdf::primitive::Primitive;
use serde::{Deserialize, Serialize};
use serde_json::{json, Value};
use std::cell::Cell;
use std::sync::atomic::{AtomicPtr, Ordering};
use std::sync::{Condvar, Mutex};
use std::time::{Duration, Instant};

#[derive(Clone, Debug, PartialEq, Eq, Hash, Serialize, Deserialize)]
pub enum TCall {
    Resolve(u64),
    GetPrimitive(u64),
    GetPagesNode(u64),
    GetFont(u64),
    GetXObject(u64),
    GetStreamData(u64),
    Page(u32),
}

fn hs(x: impl std::hash::Hash) -> String {
    format!("{:016x}", h64(x))
}

pub fn exec_on<R: Resolve>(r: &R, root: &Catalog, call: &TCall) -> Out {
    let res = panics::catch(|| -> Result<String, pdf::error::PdfError> {
        let pd = |p: &Primitive| -> Result<String, pdf::error::PdfError> {
            let v = from_primitive(p, Some(r)).map_err(|m| pdf::error::PdfError::Other { msg: m })?;
            Ok(hs(format!("{:?}", canon(&v))))
        };
        match call {
            TCall::Resolve(n) => pd(&r.resolve(PlainRef { id: *n, gen: 0 })?),
            TCall::GetPrimitive(n) => pd(&*r.get(Ref::<Primitive>::from_id(*n))?),
            TCall::GetPagesNode(n) => {
                let node = r.get(Ref::<PagesNode>::from_id(*n))?;
                Ok(match *node {
                    PagesNode::Leaf(ref p) => format!("leaf:{}", p.rotate),
                    PagesNode::Tree(ref t) => format!("tree:{}:{}", t.count, t.kids.len()),
                })
            }
            TCall::GetFont(n) => {
                let f = r.get(Ref::<Font>::from_id(*n))?;
                Ok(format!("{:?}:{:?}", f.subtype, f.name.as_ref().map(|n| n.as_str().to_string())))
            }
            TCall::GetXObject(n) => {
                let x = r.get(Ref::<XObject>::from_id(*n))?;
                Ok(match *x {
                    XObject::Image(ref im) => format!("image:{}x{}", im.width, im.height),
                    XObject::Form(ref f) => format!("form:{}", f.dict().form_type),
                    XObject::Postscript(_) => "ps".into(),
                })
            }
            TCall::GetStreamData(n) => {
                let s = r.get(Ref::<Stream<()>>::from_id(*n))?;
                let d = Stream::data(&s, r)?;
                Ok(format!("{}B:{}", d.len(), hs(&d[..])))
            }
            TCall::Page(i) => {
                let p = root.pages.page(r, *i)?;
                Ok(format!("page:{}:{:?}", p.get_ref().get_inner().id, p.media_box().ok().map(|b| (b.right.to_bits(), b.top.to_bits()))))
            }
        }
    });
    match res {
        Ok(Ok(d)) => Out::Ok(d),
        Ok(Err(e)) => {
            let text = format!("{:?}", e);
            if text.contains("Recursive reference") {
                Out::Err("RecursiveReference".into())
            } else {
                Out::Err(errs::root_kind(&e))
            }
        }
        Err(p) => Out::Panic(if p.in_lib { p.key() } else { format!("harness-{}", p.key()) }),
    }
}

// ------------------------------------------------------------------ the scheduler (child side)

struct SchedState {
    waiting: Vec<bool>,
    finished: Vec<bool>,
    granted: Vec<bool>,
    /// (thread, site) of every grant
    trace: Vec<(usize, String)>,
    /// at each decision: number of candidates
    branching: Vec<usize>,
    /// where each thread currently waits
    sites: Vec<String>,
    /// kernel thread ids, and whether a thread has resumed since its last grant
    tids: Vec<i32>,
    acked: Vec<bool>,
}
struct Sched {
    st: Mutex<SchedState>,
    cv: Condvar,
}

static CURRENT: AtomicPtr<Sched> = AtomicPtr::new(std::ptr::null_mut());
thread_local! {
    static TID: Cell<Option<usize>> = Cell::new(None);
    static SITE: std::cell::RefCell<String> = std::cell::RefCell::new(String::new());
}

fn hook(site: &'static str, obj: u64) {
    let Some(tid) = TID.with(|t| t.get()) else { return };
    let p = CURRENT.load(Ordering::SeqCst);
    if p.is_null() {
        return;
    }
    let s: &Sched = unsafe { &*p };
    SITE.with(|x| *x.borrow_mut() = format!("{}({})", site, obj));
    yield_at(s, tid);
}

fn yield_at(s: &Sched, tid: usize) {
    let mut st = s.st.lock().unwrap_or_else(|e| e.into_inner());
    st.waiting[tid] = true;
    st.sites[tid] = SITE.with(|x| x.borrow().clone());
    s.cv.notify_all();
    while !st.granted[tid] {
        st = s.cv.wait(st).unwrap_or_else(|e| e.into_inner());
    }
    st.granted[tid] = false;
    st.waiting[tid] = false;
    st.acked[tid] = true;
    if st.tids[tid] == 0 {
        st.tids[tid] = unsafe { libc::syscall(libc::SYS_gettid) as i32 };
    }
}

/// The kernel says the thread sleeps (blocked in a lock or condition variable).
fn sleeps(tid: i32) -> bool {
    if tid == 0 {
        return false;
    }
    let stat = std::fs::read_to_string(format!("/proc/self/task/{}/stat", tid)).unwrap_or_default();
    stat.rsplit(')').next().and_then(|r| r.split_whitespace().next()) == Some("S")
}

/// Run `threads` closures under the controller, following `schedule` (choice index at each decision; 0 = keep
/// running the thread that ran last if it is a candidate).  Returns (trace, branching, deadlock?).
/// Kernel view of this process's threads: (name, state, wait channel) - a deadlocked thread sleeps in a futex wait.
fn thread_states() -> Vec<String> {
    let mut out = Vec::new();
    if let Ok(rd) = std::fs::read_dir("/proc/self/task") {
        for e in rd.flatten() {
            let p = e.path();
            let stat = std::fs::read_to_string(p.join("stat")).unwrap_or_default();
            let state = stat.rsplit(')').next().and_then(|r| r.split_whitespace().next()).unwrap_or("?").to_string();
            let wchan = std::fs::read_to_string(p.join("wchan")).unwrap_or_default();
            out.push(format!("{}:{}:{}", e.file_name().to_string_lossy(), state, wchan.trim()));
        }
    }
    out
}

fn run_scheduled(n: usize, schedule: &[u8], bodies: Vec<Box<dyn FnOnce() + Send + '_>>) -> (Vec<(usize, String)>, Vec<usize>, bool) {
    let sched = Sched { st: Mutex::new(SchedState { waiting: vec![false; n], finished: vec![false; n], granted: vec![false; n], trace: Vec::new(), branching: Vec::new(), sites: vec![String::new(); n], tids: vec![0; n], acked: vec![false; n] }), cv: Condvar::new() };
    CURRENT.store(&sched as *const Sched as *mut Sched, Ordering::SeqCst);
    pdf::verif::set_yield_hook(Some(hook));
    let mut deadlock = false;
    std::thread::scope(|scope| {
        for (tid, body) in bodies.into_iter().enumerate() {
            let sched = &sched;
            scope.spawn(move || {
                TID.with(|t| t.set(Some(tid)));
                SITE.with(|x| *x.borrow_mut() = "start".to_string());
                yield_at(sched, tid);
                body();
                TID.with(|t| t.set(None));
                let mut st = sched.st.lock().unwrap_or_else(|e| e.into_inner());
                st.finished[tid] = true;
                sched.cv.notify_all();
            });
        }
        // controller
        let mut last: Option<usize> = None;
        let mut step = 0usize;
        loop {
            let mut st = sched.st.lock().unwrap_or_else(|e| e.into_inner());
            // wait for quiescence: every unfinished thread is at a yield point, or has resumed since its grant and now
            // sleeps somewhere else (blocked in the cache's condition variable or a lock; seen twice 1 ms apart), or
            // did not get there within 30 ms
            let t0 = Instant::now();
            let mut slept_before = vec![false; n];
            loop {
                let mut quiet = true;
                let mut resumed = true;
                for i in 0..n {
                    if st.finished[i] || st.waiting[i] {
                        continue;
                    }
                    if !st.acked[i] {
                        // granted but not yet running again: always wait for it
                        resumed = false;
                        quiet = false;
                        continue;
                    }
                    let s = sleeps(st.tids[i]);
                    if !(s && slept_before[i]) {
                        quiet = false;
                    }
                    slept_before[i] = s;
                }
                if quiet || (resumed && t0.elapsed() > Duration::from_millis(30)) {
                    break;
                }
                let (g, _) = sched.cv.wait_timeout(st, Duration::from_millis(1)).unwrap_or_else(|e| e.into_inner());
                st = g;
            }
            if (0..n).all(|i| st.finished[i]) {
                break;
            }
            let mut cands: Vec<usize> = (0..n).filter(|&i| st.waiting[i] && !st.finished[i]).collect();
            if cands.is_empty() {
                // nobody is at a yield point: threads are running or blocked in a lock; give them time, then call it a deadlock
                let t1 = Instant::now();
                while (0..n).all(|i| st.finished[i] || !st.waiting[i]) && !(0..n).all(|i| st.finished[i]) {
                    if t1.elapsed() > Duration::from_secs(5) {
                        deadlock = true;
                        break;
                    }
                    let (g, _) = sched.cv.wait_timeout(st, Duration::from_millis(5)).unwrap_or_else(|e| e.into_inner());
                    st = g;
                }
                if deadlock {
                    // blocked threads cannot be joined: answer and leave the process
                    let blocked: Vec<usize> = (0..n).filter(|&i| !st.finished[i]).collect();
                    let grants: Vec<String> = st.trace.iter().rev().take(16).rev().map(|t| format!("T{}@{}", t.0, t.1)).collect();
                    crate::engine::isolate::reply_and_exit(json!({"deadlock": true, "blocked_threads": blocked, "grants": grants, "thread_states": thread_states()}));
                }
                continue;
            }
            // candidate order: the thread that ran last first (choice 0 = no preemption)
            if let Some(l) = last {
                if let Some(pos) = cands.iter().position(|&c| c == l) {
                    cands.remove(pos);
                    cands.insert(0, l);
                }
            }
            let choice = schedule.get(step).copied().unwrap_or(0) as usize % cands.len();
            st.branching.push(cands.len());
            let pick = cands[choice];
            let site = st.sites[pick].clone();
            st.trace.push((pick, site));
            st.granted[pick] = true;
            st.waiting[pick] = false;
            st.acked[pick] = false;
            last = Some(pick);
            step += 1;
            sched.cv.notify_all();
            drop(st);
        }
        if deadlock {
            pdf::verif::set_yield_hook(None);
            CURRENT.store(std::ptr::null_mut(), Ordering::SeqCst);
        }
    });
    pdf::verif::set_yield_hook(None);
    CURRENT.store(std::ptr::null_mut(), Ordering::SeqCst);
    let st = sched.st.into_inner().unwrap_or_else(|e| e.into_inner());
    (st.trace, st.branching, deadlock)
}

/// Worker job: {mode: "scheduled" | "stress", calls: [[TCall]], shared_resolver, cached, schedule, repeat}
pub fn threads_job(h: &Value, blob: &[u8]) -> Value {
    let pw = h["password"].as_str().and_then(from_hex).unwrap_or_default();
    let calls: Vec<Vec<TCall>> = serde_json::from_value(h["calls"].clone()).unwrap_or_default();
    let shared = h["shared_resolver"].as_bool().unwrap_or(false);
    let cached = h["cached"].as_bool().unwrap_or(false);
    let schedule: Vec<u8> = serde_json::from_value(h["schedule"].clone()).unwrap_or_default();
    let mode = h["mode"].as_str().unwrap_or("scheduled").to_string();
    let repeat = h["repeat"].as_u64().unwrap_or(1);
    macro_rules! with_doc {
        ($load:expr) => {{
            // sequential reference: each call alone, on a fresh resolver of a separately loaded file (the concurrent
            // run must start with cold caches, or nothing is computed concurrently)
            let expected: Vec<Vec<Out>> = {
                let file = match $load {
                    Ok(f) => f,
                    Err(e) => return json!({"skipped": format!("load: {}", errs::root_kind(&e))}),
                };
                let root = file.get_root();
                calls.iter().map(|cs| cs.iter().map(|c| exec_on(&file.resolver(), root, c)).collect()).collect()
            };
            let mut result = json!({"expected": expected});
            let mut all_outcomes: Vec<Vec<Vec<Out>>> = Vec::new();
            let mut traces = Vec::new();
            for _ in 0..repeat {
                let file = match $load {
                    Ok(f) => f,
                    Err(e) => return json!({"skipped": format!("load: {}", errs::root_kind(&e))}),
                };
                let root = file.get_root();
                let outcomes: Vec<Mutex<Vec<Out>>> = calls.iter().map(|_| Mutex::new(Vec::new())).collect();
                let shared_r = file.resolver();
                let n = calls.len();
                if mode == "scheduled" {
                    let bodies: Vec<Box<dyn FnOnce() + Send + '_>> = (0..n)
                        .map(|t| {
                            let cs = &calls[t];
                            let out = &outcomes[t];
                            let shared_r = &shared_r;
                            let file = &file;
                            Box::new(move || {
                                let own = file.resolver();
                                for c in cs {
                                    let o = if shared { exec_on(shared_r, root, c) } else { exec_on(&own, root, c) };
                                    out.lock().unwrap().push(o);
                                }
                            }) as Box<dyn FnOnce() + Send + '_>
                        })
                        .collect();
                    let (trace, branching, deadlock) = run_scheduled(n, &schedule, bodies);
                    traces.push(json!({"grants": trace.iter().map(|t| t.0).collect::<Vec<_>>(), "branching": branching}));
                    if deadlock {
                        result["deadlock"] = json!(true);
                        result["outcomes"] = json!(outcomes.iter().map(|m| m.lock().map(|g| g.clone()).unwrap_or_default()).collect::<Vec<_>>());
                        return result;
                    }
                } else {
                    let barrier = std::sync::Barrier::new(n);
                    let state: Vec<(std::sync::atomic::AtomicI32, std::sync::atomic::AtomicBool)> = (0..n).map(|_| (std::sync::atomic::AtomicI32::new(0), std::sync::atomic::AtomicBool::new(false))).collect();
                    std::thread::scope(|scope| {
                        for t in 0..n {
                            let cs = &calls[t];
                            let out = &outcomes[t];
                            let shared_r = &shared_r;
                            let file = &file;
                            let barrier = &barrier;
                            let st = &state[t];
                            scope.spawn(move || {
                                st.0.store(unsafe { libc::syscall(libc::SYS_gettid) as i32 }, Ordering::SeqCst);
                                let own = file.resolver();
                                barrier.wait();
                                for c in cs {
                                    let o = if shared { exec_on(shared_r, root, c) } else { exec_on(&own, root, c) };
                                    out.lock().unwrap().push(o);
                                }
                                st.1.store(true, Ordering::SeqCst);
                            });
                        }
                        // watchdog: free-running threads that all sleep for 5 s (a repeat takes milliseconds) will never wake
                        let t0 = Instant::now();
                        let mut asleep_since: Option<Instant> = None;
                        while !state.iter().all(|s| s.1.load(Ordering::SeqCst)) {
                            std::thread::sleep(Duration::from_millis(if t0.elapsed() < Duration::from_millis(200) { 1 } else { 50 }));
                            if t0.elapsed() < Duration::from_secs(2) {
                                continue;
                            }
                            let stuck = state.iter().all(|s| s.1.load(Ordering::SeqCst) || sleeps(s.0.load(Ordering::SeqCst)));
                            if !stuck {
                                asleep_since = None;
                            } else if asleep_since.get_or_insert_with(Instant::now).elapsed() > Duration::from_secs(5) {
                                let blocked: Vec<usize> = (0..n).filter(|&i| !state[i].1.load(Ordering::SeqCst)).collect();
                                crate::engine::isolate::reply_and_exit(json!({"deadlock": true, "blocked_threads": blocked, "grants": "free-running threads", "thread_states": thread_states()}));
                            }
                        }
                    });
                }
                all_outcomes.push(outcomes.into_iter().map(|m| m.into_inner().unwrap_or_else(|e| e.into_inner())).collect());
            }
            result["runs"] = json!(all_outcomes);
            result["traces"] = json!(traces);
            result
        }};
    }
    if cached {
        with_doc!(FileOptions::cached().password(&pw).load(blob.to_vec()))
    } else {
        with_doc!(FileOptions::uncached().password(&pw).load(blob.to_vec()))
    }
}

// ------------------------------------------------------------------ parent side

#[derive(Clone, Debug, Serialize, Deserialize)]
pub struct Scenario {
    pub name: String,
    pub file: Bytes,
    pub password: Bytes,
    pub calls: Vec<Vec<TCall>>,
    pub shared_resolver: bool,
    pub cached: bool,
    pub mode: String,
    pub schedule: Vec<u8>,
    pub repeat: u64,
}

pub struct RunInfo {
    pub branching: Vec<usize>,
    pub grants: Vec<usize>,
}

pub fn check_scenario(s: &Scenario) -> Result<Option<RunInfo>, Failure> {
    let art = || serde_json::to_value(s).unwrap();
    let cfg = format!("{}-{}-{}", s.mode, if s.shared_resolver { "shared-resolver" } else { "own-resolvers" }, if s.cached { "cached" } else { "uncached" });
    let header = json!({"kind": "threads", "password": to_hex(&s.password), "calls": s.calls, "shared_resolver": s.shared_resolver, "cached": s.cached, "mode": s.mode, "schedule": s.schedule, "repeat": s.repeat});
    match isolate::request(&header, &s.file, Duration::from_secs(60)) {
        Reply::Timeout { seconds } => Err(Failure::new("harness-c13-stall", format!("{}: no answer within {} s (inconclusive: stall)", cfg, seconds), json!({}))),
        Reply::Died { signal, code, stderr_tail } => {
            let what = if stderr_tail.contains("panic in a destructor") || stderr_tail.contains("panicked while") || stderr_tail.contains("cannot unwind") || stderr_tail.contains("assertion") { "panic-in-drop-guard" } else if stderr_tail.contains("overflowed its stack") { "stack-overflow" } else { "abort" };
            Err(Failure::new(format!("c13:{}:process-abort:{}", cfg, what), format!("{}: worker died (signal {:?}, code {:?}): {}; calls {:?}", cfg, signal, code, stderr_tail, s.calls), art()))
        }
        Reply::Ok(r) => {
            if r.get("skipped").is_some() {
                return Ok(None);
            }
            if let Some(e) = r.get("harness_error") {
                return Err(Failure::new("harness-worker", e.to_string(), json!({})));
            }
            if r["deadlock"].as_bool().unwrap_or(false) {
                return Err(Failure::new(
                    format!("c13:{}:deadlock", cfg),
                    format!("{}: threads {} stay blocked (no thread at a scheduling point or running for 5 s; each call alone takes microseconds); calls {:?}; last grants {}; kernel thread states {}", cfg, r["blocked_threads"], s.calls, r["grants"], r["thread_states"]),
                    art(),
                ));
            }
            let expected: Vec<Vec<Out>> = serde_json::from_value(r["expected"].clone()).unwrap_or_default();

            let runs: Vec<Vec<Vec<Out>>> = serde_json::from_value(r["runs"].clone()).unwrap_or_default();
            for run in &runs {
                for (t, outs) in run.iter().enumerate() {
                    for (k, o) in outs.iter().enumerate() {
                        let want = &expected[t][k];
                        if o != want {
                            let kind = match o {
                                Out::Panic(p) => format!("panic:{}", p),
                                Out::Err(e) if e == "RecursiveReference" => "spurious-recursive-reference".to_string(),
                                _ => "wrong-answer".to_string(),
                            };
                            return Err(Failure::new(format!("c13:{}:{}", cfg, kind), format!("{}: thread {} call {} {:?}: concurrent {:?}, alone {:?}; all calls {:?}; schedule {:?}", cfg, t, k, s.calls[t][k], o, want, s.calls, s.schedule), art()));
                        }
                    }
                    if outs.len() != expected[t].len() {
                        return Err(Failure::new(format!("c13:{}:thread-did-not-finish", cfg), format!("{}: thread {} produced {} of {} outcomes", cfg, t, outs.len(), expected[t].len()), art()));
                    }
                }
            }
            let info = r["traces"].as_array().and_then(|a| a.first()).map(|t| RunInfo { branching: serde_json::from_value(t["branching"].clone()).unwrap_or_default(), grants: serde_json::from_value(t["grants"].clone()).unwrap_or_default() });
            Ok(info)
        }
    }
}

pub fn replay(_ctx: &Ctx, _check: &str, art: &Value, info: &mut CaseInfo) -> Result<(), Failure> {
    let s: Scenario = serde_json::from_value(art.clone()).map_err(|e| Failure::new("harness-bad-artifact", e.to_string(), json!({})))?;
    info.nontrivial(true);
    // a concurrency failure may need several attempts to show again in stress mode
    let mut s2 = s.clone();
    if s2.mode == "stress" {
        s2.repeat = s2.repeat.max(200);
    }
    check_scenario(&s2).map(|_| ())
}

/// Enumerate schedules for one scenario by DFS over the choice tree with a preemption bound.
fn enumerate(ctx: &Ctx, base: &Scenario, max_schedules: u64, info: &mut CaseInfo) -> Result<u64, Failure> {
    let _ = ctx;
    let mut count = 0u64;
    let mut run = |schedule: &[u8], count: &mut u64| -> Result<Option<RunInfo>, Failure> {
        let mut s = base.clone();
        s.schedule = schedule.to_vec();
        let r = check_scenario(&s)?;
        *count += 1;
        Ok(r)
    };
    // 1. no preemption
    let Some(first) = run(&[], &mut count)? else { return Ok(count) };
    // 2. every single preemption: at each decision point, each other candidate (breadth first: a depth-first walk
    //    would spend the whole budget on the last few decisions of a long run)
    let mut singles: Vec<Vec<u8>> = Vec::new();
    for (i, b) in first.branching.iter().enumerate() {
        for c in 1..*b {
            let mut sch = vec![0u8; i];
            sch.push(c as u8);
            singles.push(sch);
        }
    }
    let mut seconds: Vec<Vec<u8>> = Vec::new();
    for sch in &singles {
        if count >= max_schedules {
            return Ok(count);
        }
        info.label("schedule/with-preemption");
        let Some(r) = run(sch, &mut count)? else { return Ok(count) };
        // candidates for a second preemption after this one
        for (j, b) in r.branching.iter().enumerate().skip(sch.len()) {
            for c in 1..*b {
                let mut s2 = sch.clone();
                s2.resize(j, 0);
                s2.push(c as u8);
                seconds.push(s2);
            }
        }
    }
    // 3. pairs of preemptions, spread evenly over the list, then triples derived the same way
    let budget = max_schedules.saturating_sub(count) as usize;
    if budget > 0 && !seconds.is_empty() {
        let stride = (seconds.len() / budget.max(1)).max(1);
        let mut thirds: Vec<Vec<u8>> = Vec::new();
        for sch in seconds.iter().step_by(stride) {
            if count >= max_schedules {
                return Ok(count);
            }
            info.label("schedule/two-preemptions");
            let Some(r) = run(sch, &mut count)? else { return Ok(count) };
            if let Some((j, b)) = r.branching.iter().enumerate().skip(sch.len()).find(|(_, b)| **b > 1) {
                let mut s3 = sch.clone();
                s3.resize(j, 0);
                s3.push((*b - 1) as u8);
                thirds.push(s3);
            }
        }
        for sch in thirds {
            if count >= max_schedules {
                return Ok(count);
            }
            info.label("schedule/three-preemptions");
            if run(&sch, &mut count)?.is_none() {
                return Ok(count);
            }
        }
    }
    Ok(count)
}

struct Source {
    name: String,
    data: Vec<u8>,
    pw: Vec<u8>,
    pages: u32,
    nodes: Vec<u64>,
    fonts: Vec<u64>,
    streams: Vec<u64>,
    xobjects: Vec<u64>,
    others: Vec<u64>,
}

fn survey(name: &str, data: Vec<u8>, pw: Vec<u8>) -> Option<Source> {
    let f = FileOptions::uncached().password(&pw).load(data.clone()).ok()?;
    let r = f.resolver();
    let size = (f.trailer.size.max(0) as u64).min(300);
    let mut s = Source { name: name.to_string(), data: data.clone(), pw: pw.clone(), pages: f.num_pages().min(4), nodes: vec![], fonts: vec![], streams: vec![], xobjects: vec![], others: vec![] };
    for n in 1..size {
        let Ok(p) = r.resolve(PlainRef { id: n, gen: 0 }) else { continue };
        let d = match &p {
            Primitive::Dictionary(d) => Some(d.clone()),
            Primitive::Stream(st) => Some(st.info.clone()),
            _ => None,
        };
        let ty = d.as_ref().and_then(|d| d.get("Type")).and_then(|t| t.as_name().ok()).map(|x| x.to_string());
        match (ty.as_deref(), &p) {
            (Some("Page"), _) | (Some("Pages"), _) => s.nodes.push(n),
            (Some("Font"), _) => s.fonts.push(n),
            (Some("XObject"), _) => s.xobjects.push(n),
            (_, Primitive::Stream(_)) => s.streams.push(n),
            _ => s.others.push(n),
        }
    }
    Some(s)
}

fn pick_calls(src: &Source, seed: u64, threads: usize, per: usize, same_key: bool) -> Vec<Vec<TCall>> {
    let mut x = seed.wrapping_mul(6364136223846793005).wrapping_add(1442695040888963407);
    let mut next = || {
        x = x.wrapping_mul(6364136223846793005).wrapping_add(1442695040888963407);
        (x >> 33) as usize
    };
    let mut pool: Vec<TCall> = Vec::new();
    for n in src.nodes.iter().take(4) {
        pool.push(TCall::GetPagesNode(*n));
    }
    for n in src.fonts.iter().take(3) {
        pool.push(TCall::GetFont(*n));
    }
    for n in src.xobjects.iter().take(3) {
        pool.push(TCall::GetXObject(*n));
    }
    for n in src.streams.iter().take(3) {
        pool.push(TCall::GetStreamData(*n));
    }
    for n in src.others.iter().take(3) {
        pool.push(TCall::GetPrimitive(*n));
        pool.push(TCall::Resolve(*n));
    }
    for i in 0..src.pages {
        pool.push(TCall::Page(i));
    }
    if pool.is_empty() {
        return vec![];
    }
    let shared_call = pool[next() % pool.len()].clone();
    (0..threads)
        .map(|_| {
            (0..per)
                .map(|k| if same_key && k == 0 { shared_call.clone() } else { pool[next() % pool.len()].clone() })
                .collect()
        })
        .collect()
}

pub fn run(ctx: &Ctx) {
    let mut sources: Vec<Source> = Vec::new();
    for f in corpus::load(&ctx.verif_dir, false) {
        if f.data.len() < 60_000 {
            if let Some(s) = survey(&f.name, f.data, f.password) {
                sources.push(s);
            }
        }
    }
    let strat = docgen::spec_strategy();
    for k in 0..ctx.tier.pick(10, 60) {
        let spec = crate::engine::runner::nth_case(&strat, ctx.seed.wrapping_mul(211).wrapping_add(3), k);
        let b = docgen::build(&spec);
        if let Some(s) = survey(&format!("generated-{}", k), b.file, b.password) {
            sources.push(s);
        }
    }
    if sources.len() < 8 {
        ctx.harness_error("too few sources for C13");
        return;
    }
    // 1. scheduled: per scenario, DFS over grant sequences with <= 3 preemptions
    let mut scenarios: Vec<Scenario> = Vec::new();
    let per_scenario = ctx.tier.pick(150, 6000);
    let n_scen = ctx.tier.pick(160, 800) as usize;
    for k in 0..n_scen {
        let src = &sources[k % sources.len()];
        let threads = 2 + (k / 7) % 2;
        let per = 1 + (k / 3) % 2;
        let calls = pick_calls(src, ctx.seed.wrapping_add(k as u64 * 977), threads, per, k % 2 == 0);
        if calls.is_empty() {
            continue;
        }
        scenarios.push(Scenario { name: src.name.clone(), file: Bytes(src.data.clone()), password: Bytes(src.pw.clone()), calls, shared_resolver: k % 4 < 2, cached: k % 3 == 0, mode: "scheduled".into(), schedule: vec![], repeat: 1 });
    }
    let cyclic_doc: Vec<u8>;
    let cyclic_compressed: Vec<u8>;
    // hostile graphs: typed references that form a cycle (page-tree nodes naming each other as /Parent); a single
    // thread gets "Recursive reference", and so must threads that enter the cycle at different nodes
    {
        use crate::engine::val::Val;
        let mut w = crate::engine::writer::Writer::new(b"", "1.7");
        for (n, v) in crate::engine::writer::minimal_catalog(1, 2, 3, 1) {
            w.obj(n, 0, &v);
        }
        let node = |parent: u64| Val::dict(vec![("Type", Val::name("Pages")), ("Parent", Val::Ref(parent, 0)), ("Kids", Val::Array(vec![])), ("Count", Val::Int(0))]);
        w.obj(4, 0, &node(5));
        w.obj(5, 0, &node(4));
        w.obj(6, 0, &node(7));
        w.obj(7, 0, &node(8));
        w.obj(8, 0, &node(6));
        w.free(0, 0, 65535);
        w.xref_table(9, &[(Bytes::from("Root"), Val::Ref(1, 0))], false);
        let data = w.finish();
        cyclic_doc = data.clone();
        // the same nodes as members of an object stream: reading a node first loads the stream (a nested load
        // that completes before the cyclic reference is followed)
        let compressed = {
            let mut w = crate::engine::writer::Writer::new(b"", "1.7");
            for (n, v) in crate::engine::writer::minimal_catalog(1, 2, 3, 1) {
                w.obj(n, 0, &v);
            }
            let members: Vec<(u64, Val)> = vec![(4, node(5)), (5, node(4)), (6, node(7)), (7, node(8)), (8, node(6))];
            w.objstm(9, &members, &[crate::engine::writer::FilterSpec::Flate { raw: false, level: 6 }], true, &[]);
            w.xref_stream(10, 11, &[(Bytes::from("Root"), Val::Ref(1, 0))], false, &[], false);
            w.finish()
        };
        let mut k = 0usize;
        for calls in [vec![vec![TCall::GetPagesNode(4)], vec![TCall::GetPagesNode(5)]], vec![vec![TCall::GetPagesNode(6)], vec![TCall::GetPagesNode(7)], vec![TCall::GetPagesNode(8)]]] {
            for shared in [true, false] {
                scenarios.insert(k, Scenario { name: "cyclic-parents".into(), file: Bytes(compressed.clone()), password: Bytes(vec![]), calls: calls.clone(), shared_resolver: shared, cached: true, mode: "scheduled".into(), schedule: vec![], repeat: 1 });
                k += 1;
            }
        }
        cyclic_compressed = compressed;
        for calls in [vec![vec![TCall::GetPagesNode(4)], vec![TCall::GetPagesNode(5)]], vec![vec![TCall::GetPagesNode(6)], vec![TCall::GetPagesNode(7)], vec![TCall::GetPagesNode(8)]], vec![vec![TCall::GetPagesNode(4), TCall::Page(0)], vec![TCall::GetPagesNode(5), TCall::GetPagesNode(4)]]] {
            for cached in [true, false] {
                for shared in [true, false] {
                    scenarios.insert(k, Scenario { name: "cyclic-parents".into(), file: Bytes(data.clone()), password: Bytes(vec![]), calls: calls.clone(), shared_resolver: shared, cached, mode: "scheduled".into(), schedule: vec![], repeat: 1 });
                    k += 1;
                }
            }
        }
    }
    if std::env::var("VH_C13_ONLY_CYCLIC").is_ok() {
        scenarios.retain(|s| s.name == "cyclic-parents");
    }
    let schedules_total = std::sync::atomic::AtomicU64::new(0);
    ctx.run_enum(
        "scheduled-interleavings",
        scenarios.len() as u64,
        |k| k as usize,
        |k, info| {
            let s = &scenarios[*k];
            info.label(if s.shared_resolver { "resolver/shared" } else { "resolver/own" });
            info.label(if s.cached { "cache/SyncCache" } else { "cache/none" });
            info.label(format!("threads/{}", s.calls.len()));
            let same = s.calls.len() >= 2 && s.calls[0].first() == s.calls[1].first();
            info.label(if same { "keys/same-first-call" } else { "keys/different" });
            info.distinct((&s.name, format!("{:?}", s.calls), s.shared_resolver, s.cached));
            let n = enumerate(ctx, s, per_scenario, info)?;
            schedules_total.fetch_add(n, Ordering::Relaxed);
            // every executed schedule is one evaluation (the scenario itself is counted by the driver)
            ctx.report.lock().unwrap().evaluations += n.saturating_sub(1);
            info.nontrivial(n > 1);
            info.sample = Some(json!({"file": s.name, "calls": format!("{:?}", s.calls), "shared_resolver": s.shared_resolver, "cached": s.cached, "schedules_run": n}));
            Ok(())
        },
    );
    ctx.set_extra("schedules_executed", json!(schedules_total.load(Ordering::Relaxed)));
    // 2. stress: free-running threads on the real caches
    let stress_n = ctx.tier.pick(120, 2000) as usize;
    let mut stress: Vec<Scenario> = Vec::new();
    for k in 0..stress_n {
        let src = &sources[(k * 5 + 1) % sources.len()];
        let calls = pick_calls(src, ctx.seed.wrapping_add(50_000 + k as u64 * 131), if ctx.tier == Tier::Quick { 4 } else { 8 }, 12, k % 2 == 0);
        if calls.is_empty() {
            continue;
        }
        stress.push(Scenario { name: src.name.clone(), file: Bytes(src.data.clone()), password: Bytes(src.pw.clone()), calls, shared_resolver: k % 2 == 0, cached: k % 4 < 2, mode: "stress".into(), schedule: vec![], repeat: ctx.tier.pick(40, 300) });
    }
    // free-running threads on the cyclic document (each thread enters the cycle at another node), cold caches each repeat
    for (k, nodes) in [vec![4u64, 5], vec![6, 7, 8]].into_iter().enumerate() {
        let calls: Vec<Vec<TCall>> = nodes.iter().map(|n| vec![TCall::GetPagesNode(*n)]).collect();
        stress.push(Scenario { name: "cyclic-parents".into(), file: Bytes(cyclic_compressed.clone()), password: Bytes(vec![]), calls, shared_resolver: k % 2 == 0, cached: true, mode: "stress".into(), schedule: vec![], repeat: ctx.tier.pick(400, 4000) });
    }
    for (k, nodes) in [vec![4u64, 5], vec![6, 7, 8], vec![4, 5, 6, 7]].into_iter().enumerate() {
        for cached in [true, false] {
            let calls: Vec<Vec<TCall>> = nodes.iter().map(|n| vec![TCall::GetPagesNode(*n), TCall::Page(0)]).collect();
            stress.push(Scenario { name: "cyclic-parents".into(), file: Bytes(cyclic_doc.clone()), password: Bytes(vec![]), calls, shared_resolver: k % 2 == 0, cached, mode: "stress".into(), schedule: vec![], repeat: ctx.tier.pick(400, 4000) });
        }
    }
    ctx.run_enum(
        "stress-free-running-threads",
        stress.len() as u64,
        |k| k as usize,
        |k, info| {
            let s = &stress[*k];
            info.label(if s.shared_resolver { "resolver/shared" } else { "resolver/own" });
            info.label(if s.cached { "cache/SyncCache" } else { "cache/none" });
            info.nontrivial(true);
            info.distinct((&s.name, format!("{:?}", s.calls), s.shared_resolver, s.cached));
            info.sample = Some(json!({"file": s.name, "threads": s.calls.len(), "calls_per_thread": s.calls[0].len(), "repeat": s.repeat}));
            check_scenario(s).map(|_| ())
        },
    );
}

pub const RULE: &str = "cases = (document, 2-3 threads x 1-2 calls from {typed get of a page-tree node / font / XObject / stream, raw resolve, page look-up}, shared or per-thread resolver, SyncCache or no cache); scheduled driver: the threads stop at the hook points inside Resolve::get (after the recursion-guard push, on entering the cache's compute closure, after the loader registered itself, before the guard pop) and a controller grants one thread at a time; the parent runs the schedule without preemption, then every schedule with exactly one preemption (each decision point x each other runnable thread), then an even sample of two- and three-preemption schedules up to the per-scenario budget; stress driver: 4-8 free-running threads x 12 calls repeated 40-300 times; every scenario runs in a worker process; oracle = each call's outcome equals its outcome when issued alone; no panic in any thread, no process abort (failed guard assertion in a destructor), no 'Recursive reference' error that the sequential run lacks, no state where all unfinished threads stay blocked; a stall is inconclusive (exit 2), not a violation; non-trivial = a scenario with more than one schedule executed / any stress scenario; distinct by (document, calls, configuration)";
