//! C13 — concurrent readers (placeholder until the scheduler is written).
use serde_json::{json, Value};
pub fn threads_job(_h: &Value, _blob: &[u8]) -> Value {
    json!({"harness_error": "threads job not implemented"})
}
