//! C02 — the newest cross-reference entry for an object always wins.
use crate::engine::bytes::Bytes;
use crate::engine::errs;
use crate::engine::gen;
use crate::engine::open::{open, AnyFile};
use crate::engine::runner::{CaseInfo, Ctx, Failure};
use crate::engine::val::{canon, from_primitive, Val};
use crate::engine::valgen;
use crate::engine::writer::{minimal_catalog, FilterSpec, Writer};
use crate::with_file;
use pdf::object::{PlainRef, Resolve};
use proptest::prelude::*;
use serde::{Deserialize, Serialize};
use serde_json::json;
use std::collections::BTreeMap;

pub const MAX_NUM: u64 = 12;

#[derive(Clone, Debug)]
pub enum Act {
    Direct(Val),
    Compressed(Val),
    Free,
}

#[derive(Clone, Debug)]
pub struct SecSpec {
    pub stream_format: bool,
    pub acts: Vec<(u16, Act)>,
    pub size_slack: u8,
    pub split: bool,
    pub wide: bool,
    pub objstm_chain: u8,
    pub xref_chain: u8,
    pub trailing_ws: bool,
}

#[derive(Clone, Debug)]
pub struct History {
    pub secs: Vec<SecSpec>,
    pub tape: Vec<u8>,
}

#[derive(Clone, Debug, Serialize, Deserialize, PartialEq)]
pub enum Expect {
    Value(Val),
    /// the harness's own xref stream / object stream objects: only "is a stream" is checked
    AnyStream,
    Missing,
}

#[derive(Clone, Debug, Serialize, Deserialize)]
pub struct Rendered {
    pub file: Bytes,
    pub expect: Vec<(u64, u64, Expect)>,
    pub newest_id: Bytes,
    pub newest_size: u64,
    pub page_tag: i64,
    pub labels: Vec<String>,
}

#[derive(Clone, Debug)]
enum St {
    InUse { gen: u64, val: Val, compressed: bool, harness_stream: bool },
    Free { gen: u64 },
}

pub fn chain(k: u8) -> Vec<FilterSpec> {
    match k % 6 {
        0 => vec![],
        1 => vec![FilterSpec::Flate { raw: false, level: 6 }],
        2 => vec![FilterSpec::AsciiHex],
        3 => vec![FilterSpec::Ascii85, FilterSpec::Flate { raw: false, level: 1 }],
        4 => vec![FilterSpec::Lzw { early: 1 }],
        _ => vec![FilterSpec::RunLength],
    }
}

pub fn render(h: &History) -> Rendered {
    let mut w = Writer::new(b"", "1.5");
    w.set_tape(&h.tape);
    let mut state: BTreeMap<u64, St> = BTreeMap::new();
    let mut labels: std::collections::BTreeSet<String> = Default::default();
    let mut next_fresh = MAX_NUM + 1;
    let mut max_num = 0u64;
    let mut size = 0u64;
    let mut newest_id = Vec::new();
    let mut page_tag = 0i64;
    let mut mentioned_before: std::collections::BTreeSet<u64> = Default::default();
    let mut prev_format: Option<bool> = None;
    for (si, sec) in h.secs.iter().enumerate() {
        let tag = (si as i64 + 1) * 1000;
        // resolve the actions of this section: first action per number wins
        let mut plan: BTreeMap<u64, Act> = BTreeMap::new();
        if si == 0 {
            for (n, v) in minimal_catalog(1, 2, 3, tag) {
                plan.insert(n, Act::Direct(v));
            }
            page_tag = tag;
        }
        for (sel, act) in &sec.acts {
            let n = 1 + gen::pick_index(*sel, MAX_NUM as usize) as u64;
            if plan.contains_key(&n) {
                continue;
            }
            // objects 1-3 stay a valid catalog / page tree / page (redefined by other valid ones)
            if n <= 3 {
                let v = minimal_catalog(1, 2, 3, tag + n as i64).into_iter().find(|(k, _)| *k == n).unwrap().1;
                match act {
                    Act::Free => continue,
                    Act::Compressed(_) if sec.stream_format => {
                        plan.insert(n, Act::Compressed(v));
                    }
                    _ => {
                        plan.insert(n, Act::Direct(v));
                    }
                }
                if n == 3 {
                    page_tag = tag + 3;
                }
                continue;
            }
            plan.insert(n, act.clone());
        }
        let mut members: Vec<(u64, Val)> = Vec::new();
        let mut free_changed = si == 0;
        let mut mentioned_now: std::collections::BTreeSet<u64> = Default::default();
        for (n, act) in plan {
            let before = state.get(&n).cloned();
            match act {
                Act::Direct(v) => {
                    let gen = match &before {
                        Some(St::InUse { gen, .. }) => *gen,
                        Some(St::Free { gen }) => {
                            labels.insert("free->reuse".into());
                            free_changed = true;
                            *gen
                        }
                        None => 0,
                    };
                    if let Some(St::InUse { compressed: true, .. }) = before {
                        labels.insert("compressed->direct".into());
                    }
                    if let Val::Stream(d, data) = &v {
                        w.stream_obj(n, gen, d, data);
                        let mut d2 = d.clone();
                        d2.push((Bytes::from("Length"), Val::Int(data.len() as i64)));
                        state.insert(n, St::InUse { gen, val: Val::Stream(d2, data.clone()), compressed: false, harness_stream: false });
                    } else {
                        w.obj(n, gen, &v);
                        state.insert(n, St::InUse { gen, val: v, compressed: false, harness_stream: false });
                    }
                    mentioned_now.insert(n);
                }
                Act::Compressed(v) => {
                    let ok = sec.stream_format
                        && match &before {
                            None => true,
                            Some(St::InUse { gen, .. }) => *gen == 0,
                            Some(St::Free { .. }) => false,
                        }
                        && !matches!(v, Val::Stream(..));
                    if !ok {
                        // fall back to a direct definition with the right generation
                        let gen = match &before {
                            Some(St::InUse { gen, .. }) => *gen,
                            Some(St::Free { gen }) => {
                                free_changed = true;
                                labels.insert("free->reuse".into());
                                *gen
                            }
                            None => 0,
                        };
                        let v = match v {
                            Val::Stream(d, _) => Val::Dict(d),
                            v => v,
                        };
                        w.obj(n, gen, &v);
                        state.insert(n, St::InUse { gen, val: v, compressed: false, harness_stream: false });
                    } else {
                        if let Some(St::InUse { compressed: false, .. }) = before {
                            labels.insert("direct->compressed".into());
                        }
                        labels.insert(format!("compressed-kind/{}", v.kind()));
                        members.push((n, v.clone()));
                        state.insert(n, St::InUse { gen: 0, val: v, compressed: true, harness_stream: false });
                    }
                    mentioned_now.insert(n);
                }
                Act::Free => {
                    if let Some(St::InUse { gen, .. }) = before {
                        if gen < 65534 {
                            state.insert(n, St::Free { gen: gen + 1 });
                            free_changed = true;
                            labels.insert("define->free".into());
                            mentioned_now.insert(n);
                        }
                    }
                }
            }
        }
        if !members.is_empty() {
            let stm = next_fresh;
            next_fresh += 1;
            w.objstm(stm, &members, &chain(sec.objstm_chain), sec.trailing_ws, &[]);
            state.insert(stm, St::InUse { gen: 0, val: Val::Null, compressed: false, harness_stream: true });
            if !chain(sec.objstm_chain).is_empty() {
                labels.insert("objstm-filtered".into());
            }
        }
        if free_changed {
            // rewrite the free list: 0 -> f1 -> f2 -> ... -> 0
            let frees: Vec<(u64, u64)> = state.iter().filter_map(|(n, s)| if let St::Free { gen } = s { Some((*n, *gen)) } else { None }).collect();
            let mut chain_nums: Vec<u64> = frees.iter().map(|f| f.0).collect();
            chain_nums.push(0);
            w.free(0, chain_nums[0], 65535);
            for (i, (n, gen)) in frees.iter().enumerate() {
                w.free(*n, chain_nums[i + 1], *gen);
            }
        }
        if mentioned_now.iter().any(|n| mentioned_before.contains(n)) {
            labels.insert("number-mentioned-in->=2-sections".into());
        }
        mentioned_before.extend(mentioned_now);
        let xnum = if sec.stream_format {
            let x = next_fresh;
            next_fresh += 1;
            Some(x)
        } else {
            None
        };
        max_num = max_num.max(state.keys().max().copied().unwrap_or(0)).max(xnum.unwrap_or(0));
        let new_size = (max_num + 1 + (sec.size_slack % 4) as u64).max(size);
        if si > 0 && new_size > size {
            labels.insert("size-growth".into());
        }
        size = new_size;
        newest_id = format!("id-of-section-{}", si).into_bytes();
        let extra = vec![
            (Bytes::from("Root"), Val::Ref(1, 0)),
            (Bytes::from("ID"), Val::Array(vec![Val::Str(Bytes(newest_id.clone())), Val::Str(Bytes(newest_id.clone()))])),
        ];
        if sec.split {
            labels.insert("split-subsections".into());
        }
        match (prev_format, sec.stream_format) {
            (Some(true), false) => {
                labels.insert("table-after-stream".into());
            }
            (Some(false), true) => {
                labels.insert("stream-after-table".into());
            }
            _ => {}
        }
        prev_format = Some(sec.stream_format);
        if let Some(x) = xnum {
            w.xref_stream(x, size, &extra, sec.split, &chain(sec.xref_chain), sec.wide);
            state.insert(x, St::InUse { gen: 0, val: Val::Null, compressed: false, harness_stream: true });
        } else {
            w.xref_table(size, &extra, sec.split);
        }
    }
    let mut expect = Vec::new();
    for n in 0..size + 2 {
        let e = match state.get(&n) {
            Some(St::InUse { gen, val, harness_stream, .. }) => (n, *gen, if *harness_stream { Expect::AnyStream } else { Expect::Value(val.clone()) }),
            Some(St::Free { gen }) => (n, *gen, Expect::Missing),
            None => (n, 0, Expect::Missing),
        };
        expect.push(e);
    }
    labels.insert(format!("sections/{}", h.secs.len()));
    Rendered { file: Bytes(w.finish()), expect, newest_id: Bytes(newest_id), newest_size: size, page_tag, labels: labels.into_iter().collect() }
}

pub fn check_rendered(r: &Rendered) -> Result<(), Failure> {
    let art = || serde_json::to_value(r).unwrap();
    for cached in [false, true] {
        let cfg = if cached { "cached" } else { "uncached" };
        let f: AnyFile = open(&r.file, cached, false, b"").map_err(|e| Failure::new(format!("c02:load-error:{}", errs::root_kind(&e)), format!("{} load failed: {:?}", cfg, e), art()))?;
        with_file!(f, file => {
            let resolver = file.resolver();
            for (n, gen, exp) in &r.expect {
                let got = resolver.resolve(PlainRef { id: *n, gen: *gen });
                match (exp, got) {
                    (Expect::Missing, Err(e)) => {
                        if !errs::is_missing_object(&e) {
                            return Err(Failure::new("c02:missing-wrong-error", format!("{}: object {} is free/undefined but resolve failed with {:?}", cfg, n, e), art()));
                        }
                    }
                    (Expect::Missing, Ok(p)) => {
                        return Err(Failure::new("c02:stale-value-for-missing", format!("{}: object {} is free or undefined in the newest mention, but resolve returned {:?}", cfg, n, p), art()));
                    }
                    (Expect::AnyStream, Ok(pdf::primitive::Primitive::Stream(_))) => {}
                    (Expect::AnyStream, other) => {
                        return Err(Failure::new("c02:harness-stream", format!("{}: object {} should be a stream, got {:?}", cfg, n, other.map(|p| p.get_debug_name())), art()));
                    }
                    (Expect::Value(v), Ok(p)) => {
                        let got = from_primitive(&p, Some(&resolver)).map_err(|m| Failure::new("c02:stream-data", m, art()))?;
                        if canon(&got) != canon(v) {
                            return Err(Failure::new("c02:older-or-wrong-value", format!("{}: object {}: newest value {:?}, resolve returned {:?}", cfg, n, v, got), art()));
                        }
                    }
                    (Expect::Value(v), Err(e)) => {
                        return Err(Failure::new(format!("c02:resolve-error:{}", errs::root_kind(&e)), format!("{}: object {}: newest value {:?}, resolve failed {:?}", cfg, n, v, e), art()));
                    }
                }
            }
            // the trailer is that of the newest section
            let id0 = file.trailer.id.get(0).map(|s| s.as_bytes().to_vec()).unwrap_or_default();
            if id0 != r.newest_id.0 {
                return Err(Failure::new("c02:trailer-not-newest", format!("{}: trailer /ID {:?}, newest section wrote {:?}", cfg, Bytes(id0), r.newest_id), art()));
            }
            if file.trailer.size as u64 != r.newest_size {
                return Err(Failure::new("c02:trailer-not-newest", format!("{}: trailer /Size {}, newest section wrote {}", cfg, file.trailer.size, r.newest_size), art()));
            }
            // typed path: the page reached through the catalog is the newest one
            match file.get_page(0) {
                Ok(page) => {
                    let tag = page.other.get("Tag").and_then(|p| p.as_integer().ok());
                    if tag != Some(r.page_tag as i32) {
                        return Err(Failure::new("c02:page-not-newest", format!("{}: page 0 has Tag {:?}, newest definition has {}", cfg, tag, r.page_tag), art()));
                    }
                }
                Err(e) => return Err(Failure::new("c02:get-page-error", format!("{}: get_page(0) failed: {:?}", cfg, e), art())),
            }
        });
    }
    Ok(())
}

fn act_strategy() -> impl Strategy<Value = Act> {
    let v = prop_oneof![
        4 => valgen::val(2),
        1 => (proptest::collection::vec((valgen::name_bytes(6), valgen::leaf()), 0..3), gen::data(200)).prop_map(|(d, data)| {
            let mut seen = std::collections::HashSet::new();
            let d: Vec<_> = d.into_iter().filter(|(k, _)| k.as_slice() != b"Length" && k.as_slice() != b"Filter" && k.as_slice() != b"DecodeParms" && k.as_slice() != b"Type" && seen.insert(k.clone())).collect();
            Val::Stream(d, Bytes(data))
        }),
    ];
    prop_oneof![
        4 => v.clone().prop_map(Act::Direct),
        4 => v.prop_map(Act::Compressed),
        3 => Just(Act::Free),
    ]
}

fn sec_strategy() -> impl Strategy<Value = SecSpec> {
    (any::<bool>(), proptest::collection::vec((any::<u16>(), act_strategy()), 0..8), any::<u8>(), any::<bool>(), any::<bool>(), any::<u8>(), any::<u8>(), any::<bool>())
        .prop_map(|(stream_format, acts, size_slack, split, wide, objstm_chain, xref_chain, trailing_ws)| SecSpec { stream_format, acts, size_slack, split, wide, objstm_chain, xref_chain, trailing_ws })
}

pub fn history_strategy() -> impl Strategy<Value = History> {
    (proptest::collection::vec(sec_strategy(), 1..6), gen::tape(60)).prop_map(|(secs, tape)| History { secs, tape })
}

/// Many updates over the same few numbers: more sections than the file has object numbers (the property says "any number
/// of incremental updates").  Half of the histories use classic tables only, so that /Size does not grow with the chain.
pub fn long_history_strategy() -> impl Strategy<Value = History> {
    (proptest::collection::vec(sec_strategy(), 6..48), any::<bool>(), gen::tape(60)).prop_map(|(mut secs, classic_only, tape)| {
        for s in secs.iter_mut() {
            s.acts.truncate(3);
            if classic_only {
                s.stream_format = false;
                s.acts = s.acts.drain(..).map(|(sel, a)| (sel, match a { Act::Compressed(v) => Act::Direct(v), a => a })).collect();
            }
        }
        History { secs, tape }
    })
}

pub fn run_case(h: &History, info: &mut CaseInfo) -> Result<(), Failure> {
    let r = render(h);
    for l in &r.labels {
        info.label(l.clone());
    }
    let nt = h.secs.len() >= 2 && r.labels.iter().any(|l| l == "number-mentioned-in->=2-sections");
    info.nontrivial(nt);
    info.distinct(&r.file.0);
    info.sample = Some(json!({"sections": h.secs.len(), "labels": r.labels, "file_len": r.file.len(), "file_tail": Bytes::new(&r.file[r.file.len().saturating_sub(160)..])}));
    check_rendered(&r)
}

pub fn replay(_ctx: &Ctx, _check: &str, art: &serde_json::Value, info: &mut CaseInfo) -> Result<(), Failure> {
    let r: Rendered = serde_json::from_value(art.clone()).map_err(|e| Failure::new("harness-bad-artifact", e.to_string(), art.clone()))?;
    info.nontrivial(true);
    info.distinct(&r.file.0);
    check_rendered(&r)
}

pub fn run(ctx: &Ctx) {
    let cases = ctx.tier.pick(6_000, 400_000);
    ctx.run_cases("histories", cases, history_strategy, |h, info| run_case(h, info));
    let lcases = ctx.tier.pick(1_500, 60_000);
    ctx.run_cases("long-histories", lcases, long_history_strategy, |h, info| {
        info.label(format!("sections/{}x", h.secs.len() / 10 * 10));
        run_case(h, info)
    });
    // bounded exhaustive: all histories of <= 3 sections over 2 numbers x {none, direct, compressed, free} x 2 formats
    let per_sec: u64 = 2 * 4 * 4; // format x action(obj A) x action(obj B)
    let total = per_sec + per_sec * per_sec + per_sec * per_sec * per_sec;
    ctx.run_enum(
        "exhaustive-3-sections-2-numbers",
        total,
        |mut i| {
            let nsec = if i < per_sec {
                1
            } else if i < per_sec + per_sec * per_sec {
                i -= per_sec;
                2
            } else {
                i -= per_sec + per_sec * per_sec;
                3
            };
            let mut secs = Vec::new();
            for s in 0..nsec {
                let k = i % per_sec;
                i /= per_sec;
                let stream_format = k & 1 == 1;
                let a = (k >> 1) & 3;
                let b = (k >> 3) & 3;
                let mut acts = Vec::new();
                for (obj, code) in [(4u64, a), (5u64, b)] {
                    // selector mapping back to the object number: choose sel so that pick_index(sel, 12) + 1 == obj
                    let sel = (((obj - 1) * 65536 + 65535) / 12) as u16;
                    let v = Val::dict(vec![("Sec", Val::Int(s as i64)), ("Num", Val::Int(obj as i64))]);
                    match code {
                        1 => acts.push((sel, Act::Direct(v))),
                        2 => acts.push((sel, Act::Compressed(v))),
                        3 => acts.push((sel, Act::Free)),
                        _ => {}
                    }
                }
                secs.push(SecSpec { stream_format, acts, size_slack: 0, split: false, wide: false, objstm_chain: 1, xref_chain: 1, trailing_ws: false });
            }
            History { secs, tape: vec![] }
        },
        |h, info| run_case(h, info),
    );
}

pub const RULE: &str = "cases = update histories of 1-5 sections over object numbers 1..12 (each section: classic table or xref stream, partial map number -> direct value | compressed value | free, random subsection splitting, /Size slack, filtered object/xref streams), written by the harness's own writer; plus long histories of 6-47 sections with <=3 actions each (half of them classic tables only, so that the chain is longer than /Size); plus all histories of <=3 sections over 2 numbers x 4 actions x 2 formats exhaustively; oracle = fold of the sections oldest->newest: resolve(n) for every n in 0..Size+2 equals the newest value or is a free/missing error, trailer /ID and /Size are the newest section's, get_page reaches the newest page; both cached and uncached; non-trivial = >=2 sections and a number mentioned in >=2 of them; distinct by file bytes";
