//! C08 — content-stream operators round-trip and mean what the operator table says.
use crate::engine::bytes::Bytes;
use crate::engine::gen;
use crate::engine::panics;
use crate::engine::printer::Printer;
use crate::engine::runner::{panic_failure, CaseInfo, Ctx, Failure};
use crate::engine::tape::Tape;
use crate::engine::val::{canon, from_primitive_nr, to_primitive, Val};
use crate::engine::valgen;
use pdf::content::*;
use pdf::object::{NoResolve, RenderingIntent};
use pdf::primitive::{Name, PdfString, Primitive};
use proptest::prelude::*;
use serde::{Deserialize, Serialize};
use serde_json::json;

/// A library-independent description of one operation: (kind, operands).
#[derive(Clone, Debug, PartialEq, Serialize, Deserialize)]
pub struct OpDesc {
    pub kind: String,
    pub args: Vec<Val>,
}
fn od(kind: &str, args: Vec<Val>) -> OpDesc {
    OpDesc { kind: kind.to_string(), args }
}
fn num(f: f32) -> Val {
    Val::Real(f as f64)
}
fn nm(n: &Name) -> Val {
    Val::Name(Bytes(n.as_str().as_bytes().to_vec()))
}
fn st(s: &PdfString) -> Val {
    Val::Str(Bytes(s.as_bytes().to_vec()))
}
fn pt(p: &Point) -> Vec<Val> {
    vec![num(p.x), num(p.y)]
}

pub fn describe(op: &Op) -> OpDesc {
    match op {
        Op::BeginMarkedContent { tag, properties } => od("BeginMarkedContent", vec![nm(tag), properties.as_ref().map(from_primitive_nr).unwrap_or(Val::Null)]),
        Op::EndMarkedContent => od("EndMarkedContent", vec![]),
        Op::MarkedContentPoint { tag, properties } => od("MarkedContentPoint", vec![nm(tag), properties.as_ref().map(from_primitive_nr).unwrap_or(Val::Null)]),
        Op::Close => od("Close", vec![]),
        Op::MoveTo { p } => od("MoveTo", pt(p)),
        Op::LineTo { p } => od("LineTo", pt(p)),
        Op::CurveTo { c1, c2, p } => od("CurveTo", [pt(c1), pt(c2), pt(p)].concat()),
        Op::Rect { rect } => od("Rect", vec![num(rect.x), num(rect.y), num(rect.width), num(rect.height)]),
        Op::EndPath => od("EndPath", vec![]),
        Op::Stroke => od("Stroke", vec![]),
        Op::FillAndStroke { winding } => od("FillAndStroke", vec![Val::name(&format!("{:?}", winding))]),
        Op::Fill { winding } => od("Fill", vec![Val::name(&format!("{:?}", winding))]),
        Op::Shade { name } => od("Shade", vec![nm(name)]),
        Op::Clip { winding } => od("Clip", vec![Val::name(&format!("{:?}", winding))]),
        Op::Save => od("Save", vec![]),
        Op::Restore => od("Restore", vec![]),
        Op::Transform { matrix: m } => od("Transform", vec![num(m.a), num(m.b), num(m.c), num(m.d), num(m.e), num(m.f)]),
        Op::LineWidth { width } => od("LineWidth", vec![num(*width)]),
        Op::Dash { pattern, phase } => od("Dash", vec![Val::Array(pattern.iter().map(|f| num(*f)).collect()), num(*phase)]),
        Op::LineJoin { join } => od("LineJoin", vec![Val::Int(*join as i64)]),
        Op::LineCap { cap } => od("LineCap", vec![Val::Int(*cap as i64)]),
        Op::MiterLimit { limit } => od("MiterLimit", vec![num(*limit)]),
        Op::Flatness { tolerance } => od("Flatness", vec![num(*tolerance)]),
        Op::GraphicsState { name } => od("GraphicsState", vec![nm(name)]),
        Op::StrokeColor { color } => od("StrokeColor", color_args(color)),
        Op::FillColor { color } => od("FillColor", color_args(color)),
        Op::FillColorSpace { name } => od("FillColorSpace", vec![nm(name)]),
        Op::StrokeColorSpace { name } => od("StrokeColorSpace", vec![nm(name)]),
        Op::RenderingIntent { intent } => od("RenderingIntent", vec![Val::name(intent.to_str())]),
        Op::BeginText => od("BeginText", vec![]),
        Op::EndText => od("EndText", vec![]),
        Op::CharSpacing { char_space } => od("CharSpacing", vec![num(*char_space)]),
        Op::WordSpacing { word_space } => od("WordSpacing", vec![num(*word_space)]),
        Op::TextScaling { horiz_scale } => od("TextScaling", vec![num(*horiz_scale)]),
        Op::Leading { leading } => od("Leading", vec![num(*leading)]),
        Op::TextFont { name, size } => od("TextFont", vec![nm(name), num(*size)]),
        Op::TextRenderMode { mode } => od("TextRenderMode", vec![Val::Int(*mode as i64)]),
        Op::TextRise { rise } => od("TextRise", vec![num(*rise)]),
        Op::MoveTextPosition { translation } => od("MoveTextPosition", pt(translation)),
        Op::SetTextMatrix { matrix: m } => od("SetTextMatrix", vec![num(m.a), num(m.b), num(m.c), num(m.d), num(m.e), num(m.f)]),
        Op::TextNewline => od("TextNewline", vec![]),
        Op::TextDraw { text } => od("TextDraw", vec![st(text)]),
        Op::TextDrawAdjusted { array } => od(
            "TextDrawAdjusted",
            array
                .iter()
                .map(|a| match a {
                    TextDrawAdjusted::Text(t) => st(t),
                    TextDrawAdjusted::Spacing(s) => num(*s),
                })
                .collect(),
        ),
        Op::XObject { name } => od("XObject", vec![nm(name)]),
        Op::InlineImage { image } => od("InlineImage", vec![Val::Int(image.width as i64), Val::Int(image.height as i64), Val::Int(image.bits_per_component.unwrap_or(-1) as i64), Val::Bool(image.image_mask)]),
    }
}
fn color_args(c: &Color) -> Vec<Val> {
    match c {
        Color::Gray(g) => vec![Val::name("Gray"), num(*g)],
        Color::Rgb(c) => vec![Val::name("Rgb"), num(c.red), num(c.green), num(c.blue)],
        Color::Cmyk(c) => vec![Val::name("Cmyk"), num(c.cyan), num(c.magenta), num(c.yellow), num(c.key)],
        Color::Other(v) => std::iter::once(Val::name("Other")).chain(v.iter().map(from_primitive_nr)).collect(),
    }
}

pub fn descs_equal(a: &[OpDesc], b: &[OpDesc]) -> Option<String> {
    for (i, (x, y)) in a.iter().zip(b.iter()).enumerate() {
        if x.kind != y.kind || x.args.len() != y.args.len() || x.args.iter().zip(&y.args).any(|(p, q)| canon(p) != canon(q)) {
            return Some(format!("operation {}: {:?} vs {:?}", i, x, y));
        }
    }
    if a.len() != b.len() {
        return Some(format!("{} operations vs {} (extra: {:?})", a.len(), b.len(), a.get(b.len()).or(b.get(a.len()))));
    }
    None
}

// ------------------------------------------------------------------ (a) round trip of Op sequences

fn f() -> impl Strategy<Value = f32> {
    valgen::real().prop_map(|r| r as f32)
}
fn small() -> impl Strategy<Value = f32> {
    prop_oneof![3 => (-2000i32..2000, 0u32..4).prop_map(|(m, k)| (m as f32) / 10f32.powi(k as i32)), 1 => f()]
}
fn point() -> impl Strategy<Value = Point> {
    (small(), small()).prop_map(|(x, y)| Point { x, y })
}
fn name() -> impl Strategy<Value = Name> {
    valgen::name_string(8).prop_map(|s| Name::from(s.as_str()))
}
fn pstring() -> impl Strategy<Value = PdfString> {
    valgen::string_bytes(16).prop_map(|b| PdfString::new(b.as_slice().into()))
}
fn winding() -> impl Strategy<Value = Winding> {
    prop_oneof![Just(Winding::NonZero), Just(Winding::EvenOdd)]
}
fn matrix() -> impl Strategy<Value = Matrix> {
    (small(), small(), small(), small(), small(), small()).prop_map(|(a, b, c, d, e, f)| Matrix { a, b, c, d, e, f })
}
fn operand_prim() -> impl Strategy<Value = Primitive> {
    // operands valid in a content stream: no references or streams
    valgen::val(2).prop_map(|v| {
        fn strip(v: &Val) -> Val {
            match v {
                Val::Ref(a, _) => Val::Int(*a as i64 % 100),
                Val::Array(a) => Val::Array(a.iter().map(strip).collect()),
                Val::Dict(d) => Val::Dict(d.iter().map(|(k, v)| (k.clone(), strip(v))).collect()),
                v => v.clone(),
            }
        }
        to_primitive(&strip(&v))
    })
}
fn props() -> impl Strategy<Value = Primitive> {
    // BDC/DP properties: a name or a dictionary
    prop_oneof![name().prop_map(|n| Primitive::Name(n.0)), operand_prim().prop_map(|p| match p {
        Primitive::Dictionary(d) => Primitive::Dictionary(d),
        other => {
            let mut d = pdf::primitive::Dictionary::new();
            d.insert("V", other);
            Primitive::Dictionary(d)
        }
    })]
}

fn single_op() -> impl Strategy<Value = Vec<Op>> {
    prop_oneof![
        (name(), proptest::option::of(props())).prop_map(|(tag, properties)| vec![Op::BeginMarkedContent { tag, properties }]),
        Just(vec![Op::EndMarkedContent]),
        (name(), proptest::option::of(props())).prop_map(|(tag, properties)| vec![Op::MarkedContentPoint { tag, properties }]),
        Just(vec![Op::Close]),
        point().prop_map(|p| vec![Op::MoveTo { p }]),
        point().prop_map(|p| vec![Op::LineTo { p }]),
        (point(), point(), point()).prop_map(|(c1, c2, p)| vec![Op::CurveTo { c1, c2, p }]),
        (small(), small(), small(), small()).prop_map(|(x, y, width, height)| vec![Op::Rect { rect: ViewRect { x, y, width, height } }]),
        Just(vec![Op::EndPath]),
        Just(vec![Op::Stroke]),
        winding().prop_map(|winding| vec![Op::FillAndStroke { winding }]),
        winding().prop_map(|winding| vec![Op::Fill { winding }]),
        name().prop_map(|name| vec![Op::Shade { name }]),
        winding().prop_map(|winding| vec![Op::Clip { winding }]),
        Just(vec![Op::Save]),
        Just(vec![Op::Restore]),
        matrix().prop_map(|matrix| vec![Op::Transform { matrix }]),
        small().prop_map(|width| vec![Op::LineWidth { width }]),
        (proptest::collection::vec(small(), 0..4), small()).prop_map(|(pattern, phase)| vec![Op::Dash { pattern, phase }]),
        prop_oneof![Just(LineJoin::Miter), Just(LineJoin::Round), Just(LineJoin::Bevel)].prop_map(|join| vec![Op::LineJoin { join }]),
        prop_oneof![Just(LineCap::Butt), Just(LineCap::Round), Just(LineCap::Square)].prop_map(|cap| vec![Op::LineCap { cap }]),
        small().prop_map(|limit| vec![Op::MiterLimit { limit }]),
        small().prop_map(|tolerance| vec![Op::Flatness { tolerance }]),
        name().prop_map(|name| vec![Op::GraphicsState { name }]),
        color().prop_map(|color| vec![Op::StrokeColor { color }]),
        color().prop_map(|color| vec![Op::FillColor { color }]),
        name().prop_map(|name| vec![Op::FillColorSpace { name }]),
        name().prop_map(|name| vec![Op::StrokeColorSpace { name }]),
        prop_oneof![Just(RenderingIntent::AbsoluteColorimetric), Just(RenderingIntent::RelativeColorimetric), Just(RenderingIntent::Saturation), Just(RenderingIntent::Perceptual)].prop_map(|intent| vec![Op::RenderingIntent { intent }]),
        Just(vec![Op::BeginText]),
        Just(vec![Op::EndText]),
        small().prop_map(|char_space| vec![Op::CharSpacing { char_space }]),
        small().prop_map(|word_space| vec![Op::WordSpacing { word_space }]),
        small().prop_map(|horiz_scale| vec![Op::TextScaling { horiz_scale }]),
        small().prop_map(|leading| vec![Op::Leading { leading }]),
        (name(), small()).prop_map(|(name, size)| vec![Op::TextFont { name, size }]),
        prop_oneof![Just(TextMode::Fill), Just(TextMode::Stroke), Just(TextMode::FillThenStroke), Just(TextMode::Invisible), Just(TextMode::FillAndClip), Just(TextMode::StrokeAndClip)].prop_map(|mode| vec![Op::TextRenderMode { mode }]),
        small().prop_map(|rise| vec![Op::TextRise { rise }]),
        point().prop_map(|translation| vec![Op::MoveTextPosition { translation }]),
        matrix().prop_map(|matrix| vec![Op::SetTextMatrix { matrix }]),
        Just(vec![Op::TextNewline]),
        pstring().prop_map(|text| vec![Op::TextDraw { text }]),
        proptest::collection::vec(prop_oneof![pstring().prop_map(TextDrawAdjusted::Text), small().prop_map(TextDrawAdjusted::Spacing)], 0..5).prop_map(|array| vec![Op::TextDrawAdjusted { array }]),
        name().prop_map(|name| vec![Op::XObject { name }]),
    ]
}
fn color() -> impl Strategy<Value = Color> {
    prop_oneof![
        small().prop_map(Color::Gray),
        (small(), small(), small()).prop_map(|(red, green, blue)| Color::Rgb(Rgb { red, green, blue })),
        (small(), small(), small(), small()).prop_map(|(cyan, magenta, yellow, key)| Color::Cmyk(Cmyk { cyan, magenta, yellow, key })),
        proptest::collection::vec(operand_prim(), 0..4).prop_map(Color::Other),
    ]
}

/// adjacency patterns that trigger the serializer's shorthands
fn shorthand() -> impl Strategy<Value = Vec<Op>> {
    prop_oneof![
        Just(vec![Op::Close, Op::Stroke]),
        winding().prop_map(|w| vec![Op::Close, Op::FillAndStroke { winding: w }]),
        // TD: leading == -translation.y ; and the look-alike with leading == -translation.x != -y
        (small(), small()).prop_map(|(x, y)| vec![Op::Leading { leading: -y }, Op::MoveTextPosition { translation: Point { x, y } }]),
        (small(), small()).prop_map(|(x, y)| vec![Op::Leading { leading: -x }, Op::MoveTextPosition { translation: Point { x, y } }]),
        (small(), small(), small()).prop_map(|(l, x, y)| vec![Op::Leading { leading: l }, Op::MoveTextPosition { translation: Point { x, y } }]),
        (small(), small(), pstring()).prop_map(|(w, c, text)| vec![Op::WordSpacing { word_space: w }, Op::CharSpacing { char_space: c }, Op::TextNewline, Op::TextDraw { text }]),
        (small(), small()).prop_map(|(w, c)| vec![Op::WordSpacing { word_space: w }, Op::CharSpacing { char_space: c }, Op::TextNewline]),
        pstring().prop_map(|text| vec![Op::TextNewline, Op::TextDraw { text }]),
        // curves whose control points coincide with the current point / the end point
        (point(), point(), point()).prop_map(|(start, c2, p)| vec![Op::MoveTo { p: start }, Op::CurveTo { c1: start, c2, p }]),
        (point(), point(), point()).prop_map(|(start, c1, p)| vec![Op::MoveTo { p: start }, Op::CurveTo { c1, c2: p, p }]),
        (point(), point()).prop_map(|(start, p)| vec![Op::LineTo { p: start }, Op::CurveTo { c1: start, c2: p, p }]),
        (point(), point(), point(), point()).prop_map(|(a, b, c, d)| vec![Op::MoveTo { p: a }, Op::CurveTo { c1: b, c2: c, p: d }, Op::CurveTo { c1: d, c2: a, p: b }]),
        // curves that start where a closed subpath began / at a rectangle's origin (the current point after h, s, b, re)
        (point(), point(), point(), point()).prop_map(|(a, b, c2, p)| vec![Op::MoveTo { p: a }, Op::LineTo { p: b }, Op::Close, Op::CurveTo { c1: a, c2, p }]),
        (point(), point(), point(), point()).prop_map(|(a, b, c2, p)| vec![Op::MoveTo { p: a }, Op::LineTo { p: b }, Op::Close, Op::CurveTo { c1: b, c2, p }]),
        (point(), point(), point(), point()).prop_map(|(a, b, c2, p)| vec![Op::MoveTo { p: a }, Op::LineTo { p: b }, Op::Close, Op::Stroke, Op::CurveTo { c1: a, c2, p }]),
        (small(), small(), small(), small(), point(), point()).prop_map(|(x, y, width, height, c2, p)| vec![Op::Rect { rect: ViewRect { x, y, width, height } }, Op::CurveTo { c1: Point { x, y }, c2, p }]),
        (point(), small(), small(), small(), small(), point(), point()).prop_map(|(a, x, y, width, height, c2, p)| vec![Op::MoveTo { p: a }, Op::Rect { rect: ViewRect { x, y, width, height } }, Op::CurveTo { c1: a, c2, p }]),
        // a curve starting at (0,0) with no current point yet
        (point(), point()).prop_map(|(c2, p)| vec![Op::CurveTo { c1: Point { x: 0.0, y: 0.0 }, c2, p }]),
    ]
}

pub fn seq_strategy() -> impl Strategy<Value = Vec<Op>> {
    proptest::collection::vec(prop_oneof![3 => single_op(), 2 => shorthand()], 0..14).prop_map(|v| v.concat())
}

#[derive(Clone, Debug, Serialize, Deserialize)]
pub struct RoundTrip {
    pub wrote: Vec<OpDesc>,
    pub text: Bytes,
}

fn shorthand_in_text(text: &[u8]) -> Vec<&'static str> {
    let mut found = Vec::new();
    for line in text.split(|&b| b == b'\n') {
        let last = line.rsplit(|&b| b == b' ').next().unwrap_or(b"");
        for (tok, label) in [(&b"s"[..], "s"), (b"b", "b"), (b"b*", "b*"), (b"'", "'"), (b"\"", "\""), (b"TD", "TD"), (b"v", "v"), (b"y", "y")] {
            if last == tok {
                found.push(label);
            }
        }
    }
    found
}

pub fn check_roundtrip(ops: &[Op], info: &mut CaseInfo) -> Result<(), Failure> {
    let wrote: Vec<OpDesc> = ops.iter().map(describe).collect();
    let text = match panics::catch(|| serialize_ops(ops)) {
        Err(p) => return Err(panic_failure(&p, json!({"wrote": wrote}))),
        Ok(Err(e)) => return Err(Failure::new("c08:serialize-error", format!("{:?}", e), json!({"wrote": wrote}))),
        Ok(Ok(t)) => t,
    };
    let found = shorthand_in_text(&text);
    for s in &found {
        info.label(format!("shorthand/{}", s));
    }
    for d in &wrote {
        info.label(format!("op/{}", d.kind));
    }
    info.nontrivial(!found.is_empty());
    info.distinct(&text);
    info.sample = Some(json!({"text": Bytes::new(&text[..text.len().min(300)]), "ops": wrote.len()}));
    check_text_against(&wrote, &text, "roundtrip")
}

/// A resolver like `NoResolve` whose options do not tolerate operator errors (`allow_invalid_ops: false`; both stock option
/// sets tolerate them, which hides an operator that is wrongly rejected): used where the text is well-formed by construction.
pub struct StrictOps;
impl pdf::object::Resolve for StrictOps {
    fn resolve_flags(&self, _: pdf::object::PlainRef, _: pdf::parser::ParseFlags, _: usize) -> pdf::error::Result<pdf::primitive::Primitive> {
        Err(pdf::error::PdfError::Reference)
    }
    fn get<T: pdf::object::Object + datasize::DataSize>(&self, _r: pdf::object::Ref<T>) -> pdf::error::Result<pdf::object::RcRef<T>> {
        Err(pdf::error::PdfError::Reference)
    }
    fn options(&self) -> &pdf::object::ParseOptions {
        static O: pdf::object::ParseOptions = pdf::object::ParseOptions { allow_error_in_option: false, allow_xref_error: false, allow_invalid_ops: false, allow_missing_endobj: false };
        &O
    }
    fn get_data_or_decode(&self, _: pdf::object::PlainRef, _: std::ops::Range<usize>, _: &[pdf::enc::StreamFilter]) -> pdf::error::Result<std::sync::Arc<[u8]>> {
        Err(pdf::error::PdfError::Reference)
    }
    fn stream_data(&self, _: pdf::object::PlainRef, _: std::ops::Range<usize>) -> pdf::error::Result<std::sync::Arc<[u8]>> {
        Err(pdf::error::PdfError::Reference)
    }
}

pub fn check_text_against(want: &[OpDesc], text: &[u8], what: &str) -> Result<(), Failure> {
    check_text_against_opts(want, text, what, false)
}

pub fn check_text_against_opts(want: &[OpDesc], text: &[u8], what: &str, strict_ops: bool) -> Result<(), Failure> {
    let art = || json!({"want": want, "text": Bytes::new(text), "what": what, "strict_ops": strict_ops});
    let got = match panics::catch(|| if strict_ops { parse_ops(text, &StrictOps) } else { parse_ops(text, &NoResolve) }) {
        Err(p) => return Err(panic_failure(&p, art())),
        Ok(Err(e)) => return Err(Failure::new(format!("c08:{}:parse-error", what), format!("{:?}; text={:?}", e, Bytes::new(text)), art())),
        Ok(Ok(g)) => g,
    };
    let got: Vec<OpDesc> = got.iter().map(describe).collect();
    if let Some(d) = descs_equal(want, &got) {
        // name the operator kinds involved for a specific key
        let idx: usize = d.split(' ').nth(1).and_then(|s| s.trim_end_matches(':').parse().ok()).unwrap_or(0);
        let kind = want.get(idx).map(|o| o.kind.clone()).unwrap_or_else(|| "count".into());
        return Err(Failure::new(format!("c08:{}:differs:{}", what, kind), format!("{}; text={:?}", d, Bytes::new(text)), art()));
    }
    Ok(())
}

// ------------------------------------------------------------------ (b) the operator table

#[derive(Clone, Debug)]
pub struct TableCase {
    pub ops: Vec<(usize, Vec<Val>)>,
    pub tape: Vec<u8>,
}

/// pseudo operator numbers >= UNKNOWN_BASE stand for operators that do not exist (compatibility sections)
pub const UNKNOWN_BASE: usize = 1000;
pub const UNKNOWN: [&str; 8] = ["foo", "XX", "zz", "Tq", "sx", "BXX", "EXX", "unknownop"];

pub const OPERATORS: [&str; 73] = [
    "b", "B", "b*", "B*", "BDC", "BI", "BMC", "BT", "BX", "c", "cm", "CS", "cs", "d", "d0", "d1", "Do", "DP", "EI", "EMC", "ET", "EX", "f", "F", "f*", "G", "g", "gs", "h", "i", "ID", "j", "J", "K", "k", "l", "m", "M", "MP", "n", "q", "Q", "re", "RG", "rg", "ri", "s", "S", "SC", "sc", "SCN", "scn", "sh", "T*", "Tc", "Td", "TD", "Tf", "Tj", "TJ", "TL", "Tm", "Tr", "Ts", "Tw", "Tz", "v", "w", "W", "W*", "y", "'", "\"",
];

fn n_strategy() -> impl Strategy<Value = Val> {
    prop_oneof![2 => (-500i64..500).prop_map(Val::Int), 2 => small().prop_map(|f| Val::Real(f as f64)), 1 => valgen::real().prop_map(Val::Real)]
}
fn nums(k: usize) -> impl Strategy<Value = Vec<Val>> {
    proptest::collection::vec(n_strategy(), k..=k)
}
fn vname() -> impl Strategy<Value = Val> {
    valgen::name_bytes(8).prop_map(Val::Name)
}
fn vstr() -> impl Strategy<Value = Val> {
    valgen::string_bytes(16).prop_map(|b| Val::Str(Bytes(b)))
}
fn vprops() -> impl Strategy<Value = Val> {
    prop_oneof![vname(), proptest::collection::vec((valgen::name_bytes(6), prop_oneof![n_strategy(), vname(), vstr()]), 0..3).prop_map(|d| {
        let mut seen = std::collections::HashSet::new();
        Val::Dict(d.into_iter().filter(|(k, _)| seen.insert(k.clone())).collect())
    })]
}

/// well-formed operands for operator index `i`
fn operands(i: usize) -> BoxedStrategy<Vec<Val>> {
    match OPERATORS[i] {
        "b" | "B" | "b*" | "B*" | "BT" | "BX" | "EMC" | "ET" | "EX" | "f" | "F" | "f*" | "h" | "n" | "q" | "Q" | "s" | "S" | "T*" | "W" | "W*" | "d0" | "d1" | "EI" | "ID" => {
            match OPERATORS[i] {
                "d0" => nums(2).boxed(),
                "d1" => nums(6).boxed(),
                _ => Just(vec![]).boxed(),
            }
        }
        "BDC" | "DP" => (vname(), vprops()).prop_map(|(a, b)| vec![a, b]).boxed(),
        "BMC" | "MP" | "CS" | "cs" | "Do" | "gs" | "sh" => vname().prop_map(|a| vec![a]).boxed(),
        "BI" => (1i64..5, 1i64..5, proptest::collection::vec(any::<u8>(), 0..20)).prop_map(|(w, h, data)| vec![Val::Int(w), Val::Int(h), Val::Str(Bytes(data))]).boxed(),
        "c" | "cm" | "Tm" => nums(6).boxed(),
        "v" | "y" | "re" | "K" | "k" => nums(4).boxed(),
        "RG" | "rg" => nums(3).boxed(),
        "l" | "m" | "Td" | "TD" => nums(2).boxed(),
        "G" | "g" | "i" | "M" | "w" | "Tc" | "TL" | "Ts" | "Tw" | "Tz" => nums(1).boxed(),
        "d" => (proptest::collection::vec(n_strategy(), 0..4), n_strategy()).prop_map(|(a, p)| vec![Val::Array(a), p]).boxed(),
        "j" | "J" => (0i64..3).prop_map(|k| vec![Val::Int(k)]).boxed(),
        "Tr" => (0i64..8).prop_map(|k| vec![Val::Int(k)]).boxed(),
        "ri" => prop_oneof![Just("AbsoluteColorimetric"), Just("RelativeColorimetric"), Just("Saturation"), Just("Perceptual")].prop_map(|n| vec![Val::name(n)]).boxed(),
        "SC" | "sc" => proptest::collection::vec(n_strategy(), 1..5).boxed(),
        "SCN" | "scn" => (proptest::collection::vec(n_strategy(), 0..5), proptest::option::of(vname())).prop_map(|(mut v, n)| {
            if let Some(n) = n {
                v.push(n);
            }
            if v.is_empty() {
                v.push(Val::Int(1));
            }
            v
        }).boxed(),
        "Tf" => (vname(), n_strategy()).prop_map(|(a, b)| vec![a, b]).boxed(),
        "Tj" | "'" => vstr().prop_map(|a| vec![a]).boxed(),
        "\"" => (n_strategy(), n_strategy(), vstr()).prop_map(|(a, b, c)| vec![a, b, c]).boxed(),
        "TJ" => proptest::collection::vec(prop_oneof![vstr(), n_strategy()], 0..5).prop_map(|a| vec![Val::Array(a)]).boxed(),
        other => panic!("harness: operator {} has no operand rule", other),
    }
}

fn fnum(v: &Val) -> Val {
    match v {
        Val::Int(i) => Val::Real(*i as f32 as f64),
        v => v.clone(),
    }
}
fn neg(v: &Val) -> Val {
    match v {
        Val::Int(i) => Val::Real(-(*i as f32) as f64),
        Val::Real(r) => Val::Real(-(*r as f32) as f64),
        v => v.clone(),
    }
}

/// Expected expansion per ISO 32000-1 Table A.1 (Appendix B of DESIGN.md).  `cur` = current point.
fn expand(op: &str, a: &[Val], cur: &mut Option<(Val, Val)>, start: &mut Option<(Val, Val)>, compat: &mut bool) -> Vec<OpDesc> {
    let nz = Val::name("NonZero");
    let eo = Val::name("EvenOdd");
    let n = |i: usize| fnum(&a[i]);
    match op {
        "b" => {
            *cur = start.clone();
            vec![od("Close", vec![]), od("FillAndStroke", vec![nz])]
        }
        "B" => vec![od("FillAndStroke", vec![nz])],
        "b*" => {
            *cur = start.clone();
            vec![od("Close", vec![]), od("FillAndStroke", vec![eo])]
        }
        "B*" => vec![od("FillAndStroke", vec![eo])],
        "BDC" => vec![od("BeginMarkedContent", vec![a[0].clone(), a[1].clone()])],
        "BMC" => vec![od("BeginMarkedContent", vec![a[0].clone(), Val::Null])],
        "DP" => vec![od("MarkedContentPoint", vec![a[0].clone(), a[1].clone()])],
        "MP" => vec![od("MarkedContentPoint", vec![a[0].clone(), Val::Null])],
        "EMC" => vec![od("EndMarkedContent", vec![])],
        "BT" => vec![od("BeginText", vec![])],
        "ET" => vec![od("EndText", vec![])],
        "BX" => {
            *compat = true;
            vec![]
        }
        "EX" => {
            *compat = false;
            vec![]
        }
        "d0" | "d1" => vec![],
        "c" => {
            *cur = Some((n(4), n(5)));
            vec![od("CurveTo", (0..6).map(n).collect())]
        }
        "v" => {
            let (cx, cy) = cur.clone().unwrap_or((Val::Real(0.0), Val::Real(0.0)));
            *cur = Some((n(2), n(3)));
            vec![od("CurveTo", vec![cx, cy, n(0), n(1), n(2), n(3)])]
        }
        "y" => {
            *cur = Some((n(2), n(3)));
            vec![od("CurveTo", vec![n(0), n(1), n(2), n(3), n(2), n(3)])]
        }
        "l" => {
            *cur = Some((n(0), n(1)));
            vec![od("LineTo", vec![n(0), n(1)])]
        }
        "m" => {
            *start = Some((n(0), n(1)));
            *cur = Some((n(0), n(1)));
            vec![od("MoveTo", vec![n(0), n(1)])]
        }
        "cm" => vec![od("Transform", (0..6).map(n).collect())],
        "Tm" => vec![od("SetTextMatrix", (0..6).map(n).collect())],
        "CS" => vec![od("StrokeColorSpace", vec![a[0].clone()])],
        "cs" => vec![od("FillColorSpace", vec![a[0].clone()])],
        "d" => vec![od("Dash", vec![match &a[0] { Val::Array(v) => Val::Array(v.iter().map(fnum).collect()), v => v.clone() }, n(1)])],
        "Do" => vec![od("XObject", vec![a[0].clone()])],
        "f" | "F" => vec![od("Fill", vec![nz])],
        "f*" => vec![od("Fill", vec![eo])],
        "G" => vec![od("StrokeColor", vec![Val::name("Gray"), n(0)])],
        "g" => vec![od("FillColor", vec![Val::name("Gray"), n(0)])],
        "RG" => vec![od("StrokeColor", vec![Val::name("Rgb"), n(0), n(1), n(2)])],
        "rg" => vec![od("FillColor", vec![Val::name("Rgb"), n(0), n(1), n(2)])],
        "K" => vec![od("StrokeColor", vec![Val::name("Cmyk"), n(0), n(1), n(2), n(3)])],
        "k" => vec![od("FillColor", vec![Val::name("Cmyk"), n(0), n(1), n(2), n(3)])],
        "SC" | "SCN" => vec![od("StrokeColor", std::iter::once(Val::name("Other")).chain(a.iter().cloned()).collect())],
        "sc" | "scn" => vec![od("FillColor", std::iter::once(Val::name("Other")).chain(a.iter().cloned()).collect())],
        "gs" => vec![od("GraphicsState", vec![a[0].clone()])],
        // ISO 32000-1 8.5.2.1: h closes the subpath (the current point returns to its starting point, as PostScript's
        // closepath); x y w h re is defined as x y m ... h.  Without a known starting point the current point is unknown.
        "h" => {
            *cur = start.clone();
            vec![od("Close", vec![])]
        }
        "i" => vec![od("Flatness", vec![n(0)])],
        "j" => vec![od("LineJoin", vec![a[0].clone()])],
        "J" => vec![od("LineCap", vec![a[0].clone()])],
        "M" => vec![od("MiterLimit", vec![n(0)])],
        "n" => vec![od("EndPath", vec![])],
        "q" => vec![od("Save", vec![])],
        "Q" => vec![od("Restore", vec![])],
        "re" => {
            *start = Some((n(0), n(1)));
            *cur = start.clone();
            vec![od("Rect", (0..4).map(n).collect())]
        }
        "ri" => vec![od("RenderingIntent", vec![a[0].clone()])],
        "s" => {
            *cur = start.clone();
            vec![od("Close", vec![]), od("Stroke", vec![])]
        }
        "S" => vec![od("Stroke", vec![])],
        "sh" => vec![od("Shade", vec![a[0].clone()])],
        "T*" => vec![od("TextNewline", vec![])],
        "Tc" => vec![od("CharSpacing", vec![n(0)])],
        "Td" => vec![od("MoveTextPosition", vec![n(0), n(1)])],
        "TD" => vec![od("Leading", vec![neg(&a[1])]), od("MoveTextPosition", vec![n(0), n(1)])],
        "Tf" => vec![od("TextFont", vec![a[0].clone(), n(1)])],
        "Tj" => vec![od("TextDraw", vec![a[0].clone()])],
        "TJ" => vec![od("TextDrawAdjusted", match &a[0] { Val::Array(v) => v.iter().map(fnum).collect(), _ => vec![] })],
        "TL" => vec![od("Leading", vec![n(0)])],
        "Tr" => vec![od("TextRenderMode", vec![a[0].clone()])],
        "Ts" => vec![od("TextRise", vec![n(0)])],
        "Tw" => vec![od("WordSpacing", vec![n(0)])],
        "Tz" => vec![od("TextScaling", vec![n(0)])],
        "w" => vec![od("LineWidth", vec![n(0)])],
        "W" => vec![od("Clip", vec![nz])],
        "W*" => vec![od("Clip", vec![eo])],
        "'" => vec![od("TextNewline", vec![]), od("TextDraw", vec![a[0].clone()])],
        "\"" => vec![od("WordSpacing", vec![n(0)]), od("CharSpacing", vec![n(1)]), od("TextNewline", vec![]), od("TextDraw", vec![a[2].clone()])],
        "BI" => {
            let (w, h) = (a[0].clone(), a[1].clone());
            vec![od("InlineImage", vec![w, h, Val::Int(8), Val::Bool(false)])]
        }
        _ => vec![],
    }
}

#[derive(Clone, Debug, Serialize, Deserialize)]
pub struct TableRendered {
    pub text: Bytes,
    pub want: Vec<OpDesc>,
    pub operators: Vec<String>,
    pub constructs: Vec<String>,
}

pub fn render_table(c: &TableCase, disabled: &[String]) -> TableRendered {
    let mut t = Tape::new(&c.tape);
    for d in disabled {
        t.disabled.insert(d.clone());
    }
    let mut p = Printer::new(&mut t);
    let mut want = Vec::new();
    let mut cur: Option<(Val, Val)> = None;
    let mut start: Option<(Val, Val)> = None;
    let mut compat = false;
    let mut operators = Vec::new();
    let mut first = true;
    let mut depth = 0u32; // nesting of BX ... EX (ISO 32000-1 Table 32: "until the balancing EX")
    for (i, args) in &c.ops {
        if *i >= UNKNOWN_BASE {
            // an operator that does not exist: legal (and ignored with its operands) only inside a compatibility section
            if depth == 0 {
                continue;
            }
            if !first {
                p.sep(false);
            }
            first = false;
            for a in args {
                p.val(a);
                p.sep(false);
            }
            let name = UNKNOWN[(*i - UNKNOWN_BASE) % UNKNOWN.len()];
            p.raw(name.as_bytes());
            operators.push(format!("unknown@depth{}", depth.min(4)));
            continue;
        }
        let op = OPERATORS[*i];
        match op {
            "BX" => depth += 1,
            "EX" => depth = depth.saturating_sub(1),
            _ => {}
        }
        // `v` is only unambiguous after an operator that defines the current point
        if op == "v" && cur.is_none() {
            continue;
        }
        if matches!(op, "EI" | "ID") {
            continue; // part of the BI ... ID ... EI construct
        }
        if !first {
            p.sep(false);
        }
        first = false;
        operators.push(op.to_string());
        if op == "BI" {
            // BI <dict entries with abbreviated keys> ID <one white-space> data <LF> EI
            let data = match &args[2] {
                Val::Str(b) => {
                    let mut d = b.0.clone();
                    // the data may not contain the end marker
                    while let Some(pos) = d.windows(3).position(|w| w == b"\nEI") {
                        d[pos + 1] = b'e';
                    }
                    d
                }
                _ => vec![],
            };
            p.raw(b"BI");
            p.sep(true);
            p.raw(b"/W");
            p.sep(false);
            p.val(&args[0]);
            p.sep(true);
            p.raw(b"/H");
            p.sep(false);
            p.val(&args[1]);
            p.sep(true);
            p.raw(b"/BPC 8 /CS /G");
            p.ws1();
            p.raw(b"ID ");
            p.raw(&data);
            p.raw(b"\nEI");
            want.extend(expand(op, args, &mut cur, &mut start, &mut compat));
            continue;
        }
        for a in args {
            p.val(a);
            let next_is_delim = false;
            p.sep(next_is_delim);
        }
        p.raw(op.as_bytes());
        want.extend(expand(op, args, &mut cur, &mut start, &mut compat));
    }
    // sections still open are closed
    for _ in 0..depth {
        p.sep(false);
        p.raw(b"EX");
    }
    // the text ends with white-space as content streams do
    p.raw(b"\n");
    let text = Bytes(std::mem::take(&mut p.out));
    let constructs = t.used.iter().map(|s| s.to_string()).collect();
    TableRendered { text, want, operators, constructs }
}

pub fn table_strategy(max_ops: usize) -> impl Strategy<Value = TableCase> {
    (proptest::collection::vec((0usize..OPERATORS.len()).prop_flat_map(|i| operands(i).prop_map(move |a| (i, a))), 1..=max_ops), gen::tape(120)).prop_map(|(ops, tape)| TableCase { ops, tape })
}

/// Compatibility sections nested up to any depth: unknown operators with operands inside them are ignored, known operators
/// keep their meaning, and the section only ends at the balancing EX.
pub fn compat_strategy() -> impl Strategy<Value = TableCase> {
    let known: Vec<usize> = ["q", "Q", "w", "m", "l", "S", "Tc", "g", "cm", "BT", "ET"].iter().map(|o| OPERATORS.iter().position(|p| p == o).unwrap()).collect();
    let bx = OPERATORS.iter().position(|p| *p == "BX").unwrap();
    let ex = OPERATORS.iter().position(|p| *p == "EX").unwrap();
    let unknown = (0usize..UNKNOWN.len(), proptest::collection::vec(prop_oneof![n_strategy(), vname()], 0..4)).prop_map(|(k, a)| (UNKNOWN_BASE + k, a));
    let item = prop_oneof![
        3 => Just((bx, vec![])),
        2 => Just((ex, vec![])),
        4 => unknown,
        3 => proptest::sample::select(known).prop_flat_map(|i| operands(i).prop_map(move |a| (i, a))),
    ];
    (proptest::collection::vec(item, 3..16), gen::tape(120)).prop_map(|(mut ops, tape)| {
        // always begin inside a section so that most cases nest
        ops.insert(0, (OPERATORS.iter().position(|p| *p == "BX").unwrap(), vec![]));
        TableCase { ops, tape }
    })
}

/// Path construction and painting operators only, so that the current point is exercised across m l c v y h re and the
/// closing painters (v after h / re / s / b takes the start of the closed subpath, 8.5.2.1).
pub fn path_strategy(max_ops: usize) -> impl Strategy<Value = TableCase> {
    const PATH: [&str; 16] = ["m", "l", "c", "v", "v", "v", "y", "h", "h", "re", "re", "s", "b", "b*", "S", "n"];
    let idx: Vec<usize> = PATH.iter().map(|o| OPERATORS.iter().position(|p| p == o).unwrap()).collect();
    (proptest::collection::vec(proptest::sample::select(idx).prop_flat_map(|i| operands(i).prop_map(move |a| (i, a))), 2..=max_ops), gen::tape(120)).prop_map(|(ops, tape)| TableCase { ops, tape })
}

pub fn run_table(c: &TableCase, info: &mut CaseInfo) -> Result<(), Failure> {
    run_table_opts(c, info, false)
}

pub fn run_table_opts(c: &TableCase, info: &mut CaseInfo, strict_ops: bool) -> Result<(), Failure> {
    let r = render_table(c, &[]);
    for o in &r.operators {
        info.label(format!("operator/{}", o));
    }
    info.nontrivial(!r.operators.is_empty());
    info.distinct(&r.text.0);
    info.sample = Some(json!({"text": Bytes::new(&r.text[..r.text.len().min(200)]), "operators": r.operators}));
    check_text_against_opts(&r.want, &r.text, &format!("table[{}]", r.operators.join(" ")), strict_ops)
        .map_err(|mut f| {
            // keys name the single operator when there is one
            if r.operators.len() > 1 {
                f.key = format!("c08:table-sequence:{}", f.key.rsplit(':').next().unwrap_or(""));
            }
            f
        })
}

pub fn replay(_ctx: &Ctx, _check: &str, art: &serde_json::Value, info: &mut CaseInfo) -> Result<(), Failure> {
    info.nontrivial(true);
    let want: Vec<OpDesc> = serde_json::from_value(art["want"].clone()).map_err(|e| Failure::new("harness-bad-artifact", e.to_string(), art.clone()))?;
    let text: Bytes = serde_json::from_value(art["text"].clone()).map_err(|e| Failure::new("harness-bad-artifact", e.to_string(), art.clone()))?;
    check_text_against_opts(&want, &text, art["what"].as_str().unwrap_or("replay"), art["strict_ops"].as_bool().unwrap_or(false))
}

pub fn run(ctx: &Ctx) {
    let cases = ctx.tier.pick(30_000, 2_000_000);
    ctx.run_cases("roundtrip-sequences", cases, seq_strategy, |ops, info| check_roundtrip(ops, info));
    // every operator of the table, alone
    let per = ctx.tier.pick(60, 3_000);
    ctx.run_cases(
        "operator-table-single",
        per * OPERATORS.len() as u64,
        || ((0usize..OPERATORS.len()).prop_flat_map(|i| operands(i).prop_map(move |a| (i, a))), gen::tape(60), point()).prop_map(|((i, a), tape, start)| {
            // `v` needs a defined current point: prefix a moveto
            let mut ops = Vec::new();
            if OPERATORS[i] == "v" {
                ops.push((36usize, vec![Val::Real(start.x as f64), Val::Real(start.y as f64)]));
            }
            ops.push((i, a));
            TableCase { ops, tape }
        }),
        |c, info| run_table(c, info),
    );
    let scases = ctx.tier.pick(10_000, 600_000);
    ctx.run_cases("operator-table-sequences", scases, || table_strategy(6), |c, info| run_table(c, info));
    let pcases = ctx.tier.pick(10_000, 400_000);
    ctx.run_cases("path-current-point", pcases, || path_strategy(8), |c, info| run_table(c, info));
    let ccases = ctx.tier.pick(6_000, 300_000);
    ctx.run_cases("compatibility-sections", ccases, compat_strategy, |c, info| run_table_opts(c, info, true));
    // unknown operators are ignored inside BX ... EX and operands do not leak out
    ctx.run_one("compatibility-section", "BX-EX", |info| {
        info.nontrivial(true);
        let want = vec![od("Save", vec![]), od("LineWidth", vec![Val::Real(2.0)]), od("Restore", vec![])];
        check_text_against(&want, b"q BX 1 2 (x) /N unknownop 3 foo EX 2 w Q\n", "compat")
    });
}

pub const RULE: &str = "cases = (a) sequences of operations over every Op variant except InlineImage (which the serializer rejects) with finite f32 operands, Unicode names and arbitrary byte strings, biased towards the adjacency patterns behind the writer's shorthands (s b b* ' \" TD v y); (b) each of the 73 operators of ISO 32000-1 Table A.1 with generated well-formed operands spelled by the randomised printer, alone and in sequences of 1-6; oracle = (a) parse_ops(serialize_ops(ops)) equals ops under an independent structural description, (b) the parsed operations equal the table's expansion with operands in order, sequences giving the concatenation (no operand leaks), v using the tracked current point (which h, s, b, b* return to the start of the subpath and re sets to the rectangle's origin; extra section of path operators only), and compatibility sections nested to any depth with non-existent operators and operands inside (ignored until the balancing EX; parsed with allow_invalid_ops = false, because both stock option sets swallow operator errors); non-trivial (a) = a shorthand fired in the written text, (b) = at least one operator; distinct by text";
