//! C14 — hostile but well-formed object graphs end in an error, not a crash.
use crate::engine::bytes::Bytes;
use crate::engine::gen;
use crate::engine::runner::{CaseInfo, Ctx, Failure, Tier};
use crate::engine::val::Val;
use crate::engine::writer::{FilterSpec, Writer};
use crate::props::c01::check_input;
use proptest::prelude::*;
use serde_json::json;

#[derive(Clone, Debug)]
pub struct Fragment {
    pub name: &'static str,
    pub objects: Vec<(u64, Val)>,
    pub trailer: Vec<(Bytes, Val)>,
    pub xref_stream: bool,
    pub compress: bool,
}

fn n(s: &str) -> Val {
    Val::name(s)
}
fn i(x: i64) -> Val {
    Val::Int(x)
}
fn r(x: u64) -> Val {
    Val::Ref(x, 0)
}
fn arr(v: Vec<Val>) -> Val {
    Val::Array(v)
}
fn d(v: Vec<(&str, Val)>) -> Val {
    Val::dict(v)
}
fn st(dict: Vec<(&str, Val)>, data: &[u8]) -> Val {
    Val::Stream(dict.into_iter().map(|(k, v)| (Bytes::from(k), v)).collect(), Bytes(data.to_vec()))
}
fn rect(w: i64, h: i64) -> Val {
    arr(vec![i(0), i(0), i(w), i(h)])
}

/// A minimal document skeleton: catalog 1, page tree 2, page 3; `extra_cat` entries go to the catalog,
/// `extra_page` to the page.
fn skeleton(extra_cat: Vec<(&str, Val)>, extra_page: Vec<(&str, Val)>) -> Vec<(u64, Val)> {
    let mut cat = vec![("Type", n("Catalog")), ("Pages", r(2))];
    cat.extend(extra_cat);
    let mut page = vec![("Type", n("Page")), ("Parent", r(2)), ("MediaBox", rect(612, 792))];
    page.extend(extra_page);
    vec![(1, d(cat)), (2, d(vec![("Type", n("Pages")), ("Kids", arr(vec![r(3)])), ("Count", i(1))])), (3, d(page))]
}

pub fn fragments() -> Vec<Fragment> {
    let mut out = Vec::new();
    let tr = |root: u64| vec![(Bytes::from("Root"), r(root))];
    // 1. page tree with an inner node
    out.push(Fragment {
        name: "page-tree",
        objects: vec![
            (1, d(vec![("Type", n("Catalog")), ("Pages", r(2))])),
            (2, d(vec![("Type", n("Pages")), ("Kids", arr(vec![r(4), r(3)])), ("Count", i(3)), ("MediaBox", rect(612, 792))])),
            (3, d(vec![("Type", n("Page")), ("Parent", r(2)), ("Rotate", i(90))])),
            (4, d(vec![("Type", n("Pages")), ("Parent", r(2)), ("Kids", arr(vec![r(5), r(6)])), ("Count", i(2))])),
            (5, d(vec![("Type", n("Page")), ("Parent", r(4)), ("CropBox", rect(100, 100))])),
            (6, d(vec![("Type", n("Page")), ("Parent", r(4)), ("Resources", d(vec![]))])),
        ],
        trailer: tr(1),
        xref_stream: false,
        compress: false,
    });
    // 2. name tree + number tree + outlines in the catalog
    {
        let dest = |p: u64| arr(vec![r(p), n("XYZ"), i(0), i(700), Val::Null]);
        let mut objs = skeleton(
            vec![
                ("Names", d(vec![("Dests", r(10)), ("EmbeddedFiles", r(13))])),
                ("PageLabels", r(20)),
                ("Outlines", r(30)),
            ],
            vec![],
        );
        objs.extend(vec![
            (10, d(vec![("Kids", arr(vec![r(11), r(12)]))])),
            (11, d(vec![("Limits", arr(vec![Val::str(b"a"), Val::str(b"b")])), ("Names", arr(vec![Val::str(b"a"), dest(3), Val::str(b"b"), dest(3)]))])),
            (12, d(vec![("Limits", arr(vec![Val::str(b"c"), Val::str(b"c")])), ("Kids", arr(vec![r(11)]))])),
            (13, d(vec![("Names", arr(vec![Val::str(b"f"), d(vec![("Type", n("Filespec")), ("EF", d(vec![("F", r(14))]))])]))])),
            (14, st(vec![("Type", n("EmbeddedFile")), ("Params", d(vec![("Size", i(5))]))], b"hello")),
            (20, d(vec![("Kids", arr(vec![r(21), r(22)]))])),
            (21, d(vec![("Limits", arr(vec![i(0), i(1)])), ("Nums", arr(vec![i(0), d(vec![("S", n("r"))]), i(1), d(vec![("S", n("D")), ("St", i(1)), ("P", Val::str(b"p"))])]))])),
            (22, d(vec![("Limits", arr(vec![i(2), i(2)])), ("Nums", arr(vec![i(2), d(vec![("S", n("A"))])]))])),
            (30, d(vec![("Type", n("Outlines")), ("First", r(31)), ("Last", r(32)), ("Count", i(2))])),
            (31, d(vec![("Title", Val::str(b"one")), ("Parent", r(30)), ("Next", r(32)), ("First", r(33)), ("Last", r(33)), ("Count", i(1)), ("Dest", dest(3))])),
            (32, d(vec![("Title", Val::str(b"two")), ("Parent", r(30)), ("Prev", r(31)), ("A", d(vec![("S", n("GoTo")), ("D", dest(3))]))])),
            (33, d(vec![("Title", Val::str(b"sub")), ("Parent", r(31))])),
        ]);
        out.push(Fragment { name: "catalog-trees-outlines", objects: objs, trailer: tr(1), xref_stream: false, compress: false });
    }
    // 3. fonts
    {
        let res = d(vec![("Font", d(vec![("F1", r(10)), ("F2", r(20))]))]);
        let mut objs = skeleton(vec![], vec![("Resources", res), ("Contents", r(30))]);
        objs.extend(vec![
            (10, d(vec![("Type", n("Font")), ("Subtype", n("Type0")), ("BaseFont", n("A")), ("Encoding", n("Identity-H")), ("DescendantFonts", arr(vec![r(11)])), ("ToUnicode", r(13))])),
            (
                11,
                d(vec![
                    ("Type", n("Font")),
                    ("Subtype", n("CIDFontType2")),
                    ("BaseFont", n("A")),
                    ("CIDSystemInfo", d(vec![("Registry", Val::str(b"Adobe")), ("Ordering", Val::str(b"Identity")), ("Supplement", i(0))])),
                    ("FontDescriptor", r(12)),
                    ("DW", i(1000)),
                    ("W", arr(vec![i(1), arr(vec![i(500), i(600)]), i(10), i(20), i(700), i(30), r(14)])),
                    ("CIDToGIDMap", r(15)),
                ]),
            ),
            (12, d(vec![("Type", n("FontDescriptor")), ("FontName", n("A")), ("Flags", i(4)), ("FontBBox", rect(1000, 1000)), ("ItalicAngle", i(0)), ("Ascent", i(800)), ("Descent", i(-200)), ("StemV", i(80)), ("FontFile2", r(16))])),
            (13, st(vec![], b"1 begincodespacerange <0000> <FFFF> endcodespacerange\n2 beginbfchar\n<0001> <0041>\n<0002> <D83DDE00>\nendbfchar\n1 beginbfrange\n<0010> <0012> <0061>\nendbfrange\n1 beginbfrange\n<0020> <0021> [<0062> <0063>]\nendbfrange\n")),
            (14, arr(vec![i(300), i(301)])),
            (15, st(vec![], &[0, 1, 0, 2, 0, 3])),
            (16, st(vec![("Length1", i(8))], b"fontdata")),
            (20, d(vec![("Type", n("Font")), ("Subtype", n("TrueType")), ("BaseFont", n("B")), ("FirstChar", i(32)), ("LastChar", i(34)), ("Widths", arr(vec![i(250), i(300), i(350)])), ("FontDescriptor", r(12)), ("Encoding", d(vec![("Type", n("Encoding")), ("BaseEncoding", n("WinAnsiEncoding")), ("Differences", arr(vec![i(32), n("space"), i(65), n("A"), n("B")]))]))])),
            (30, st(vec![], b"BT /F1 12 Tf (ab) Tj /F2 10 Tf [(x) -100 (y)] TJ ET")),
        ]);
        out.push(Fragment { name: "fonts", objects: objs, trailer: tr(1), xref_stream: false, compress: false });
    }
    // 4. colour spaces and functions
    {
        let f2 = d(vec![("FunctionType", i(2)), ("Domain", arr(vec![i(0), i(1)])), ("Range", arr(vec![i(0), i(1)])), ("C0", arr(vec![i(1)])), ("C1", arr(vec![i(0)])), ("N", i(1))]);
        let cs = d(vec![
            ("Idx", arr(vec![n("Indexed"), r(10), i(3), Val::str(&[0, 1, 2, 3, 4, 5, 6, 7, 8, 9, 10, 11])])),
            ("Sep", arr(vec![n("Separation"), n("Spot"), r(11), f2.clone()])),
            ("DevN", arr(vec![n("DeviceN"), arr(vec![n("A"), n("B")]), r(10), r(13)])),
            ("Icc", arr(vec![n("ICCBased"), r(12)])),
            ("Samp", arr(vec![n("Separation"), n("S2"), n("DeviceGray"), r(14)])),
            ("Lab", arr(vec![n("CalRGB"), d(vec![("WhitePoint", arr(vec![i(1), i(1), i(1)]))])])),
            // the same kinds as indirect objects, so that a substitution can make them refer to themselves or each other
            ("DevN2", r(15)),
            ("Sep2", r(16)),
            ("Idx2", r(17)),
        ]);
        let mut objs = skeleton(vec![], vec![("Resources", d(vec![("ColorSpace", cs), ("XObject", d(vec![("Im", r(20))])), ("Pattern", d(vec![("P1", r(21))]))])), ("Contents", r(30))]);
        objs.extend(vec![
            (10, arr(vec![n("ICCBased"), r(12)])),
            (11, arr(vec![n("Indexed"), n("DeviceRGB"), i(1), Val::str(&[0, 0, 0, 255, 255, 255])])),
            (12, st(vec![("N", i(3)), ("Alternate", r(11)), ("Range", arr(vec![i(0), i(1), i(0), i(1), i(0), i(1)]))], b"icc profile bytes")),
            (13, st(vec![("FunctionType", i(4)), ("Domain", arr(vec![i(0), i(1), i(0), i(1)])), ("Range", arr(vec![i(0), i(1), i(0), i(1), i(0), i(1)]))], b"{ dup 3 1 roll add 2 index mul exch pop 0.5 }")),
            (14, st(vec![("FunctionType", i(0)), ("Domain", arr(vec![i(0), i(1)])), ("Range", arr(vec![i(0), i(1)])), ("Size", arr(vec![i(4)])), ("BitsPerSample", i(8)), ("Encode", arr(vec![i(0), i(3)])), ("Decode", arr(vec![i(0), i(1)])), ("Order", i(1))], &[0, 64, 128, 255])),
            (15, arr(vec![n("DeviceN"), arr(vec![n("A")]), r(11), f2.clone()])),
            (16, arr(vec![n("Separation"), n("S3"), r(15), f2.clone()])),
            (17, arr(vec![n("Indexed"), r(16), i(1), Val::str(&[0, 255])])),
            (20, st(vec![("Type", n("XObject")), ("Subtype", n("Image")), ("Width", i(2)), ("Height", i(2)), ("ColorSpace", r(11)), ("BitsPerComponent", i(8)), ("SMask", r(22)), ("Decode", arr(vec![i(0), i(1)]))], &[0, 1, 1, 0])),
            (21, st(vec![("Type", n("Pattern")), ("PatternType", i(1)), ("PaintType", i(1)), ("TilingType", i(1)), ("BBox", rect(10, 10)), ("XStep", i(10)), ("YStep", i(10)), ("Resources", r(23))], b"0 0 5 5 re f")),
            (22, st(vec![("Type", n("XObject")), ("Subtype", n("Image")), ("Width", i(2)), ("Height", i(2)), ("ColorSpace", n("DeviceGray")), ("BitsPerComponent", i(8))], &[9, 9, 9, 9])),
            (23, d(vec![("ColorSpace", d(vec![("Again", r(10))]))])),
            (30, st(vec![], b"/Idx cs 1 sc /Sep CS 0.5 SCN /Im Do /Pattern cs /P1 scn 0 0 10 10 re f")),
        ]);
        out.push(Fragment { name: "colour-spaces-functions", objects: objs, trailer: tr(1), xref_stream: false, compress: false });
    }
    // 5. streams: lengths, filters, predictors, forms, annotations
    {
        let flate = |data: &[u8]| crate::engine::filters::flate_encode(data, false, 6);
        let mut objs = skeleton(vec![("AcroForm", d(vec![("Fields", arr(vec![r(40)])), ("DR", d(vec![]))]))], vec![("Resources", d(vec![("XObject", d(vec![("Fm", r(10)), ("Im", r(12)), ("Fax", r(14)), ("Jb", r(15))])), ("ExtGState", d(vec![("G", d(vec![("Font", arr(vec![r(50), i(10)])), ("LW", i(1))]))]))])), ("Contents", arr(vec![r(20), r(21)])), ("Annots", arr(vec![r(30)]))]);
        let pred = crate::engine::filters::png_encode(&[1, 2, 3, 4, 5, 6, 7, 8], crate::engine::filters::Geometry { colors: 1, bpc: 8, columns: 4 }, |_| 1);
        objs.extend(vec![
            (10, st(vec![("Type", n("XObject")), ("Subtype", n("Form")), ("BBox", rect(10, 10)), ("Resources", d(vec![("XObject", d(vec![("Self", r(10)), ("Other", r(11))]))])), ("Length", r(13))], b"/Self Do /Other Do")),
            (11, st(vec![("Type", n("XObject")), ("Subtype", n("Form")), ("BBox", rect(10, 10)), ("Matrix", arr(vec![i(1), i(0), i(0), i(1), i(0), i(0)]))], b"0 0 m 1 1 l S")),
            (12, st(vec![("Type", n("XObject")), ("Subtype", n("Image")), ("Width", i(4)), ("Height", i(2)), ("ColorSpace", n("DeviceGray")), ("BitsPerComponent", i(8)), ("Filter", arr(vec![n("ASCIIHexDecode"), n("FlateDecode")])), ("DecodeParms", arr(vec![Val::Null, d(vec![("Predictor", i(11)), ("Colors", i(1)), ("BitsPerComponent", i(8)), ("Columns", i(4))])]))], &{
                let z = flate(&pred);
                let mut t = crate::engine::tape::Tape::new(&[]);
                crate::engine::filters::hex_encode(&z, &mut t)
            })),
            (13, i(18)),
            // a fax image (its geometry is hostile under the numeric substitutions) and a JBIG2 image with a globals stream
            (14, st(vec![("Type", n("XObject")), ("Subtype", n("Image")), ("Width", i(8)), ("Height", i(2)), ("ColorSpace", n("DeviceGray")), ("BitsPerComponent", i(1)), ("Filter", n("CCITTFaxDecode")), ("DecodeParms", d(vec![("K", i(-1)), ("Columns", i(8)), ("Rows", i(2))]))], &[0x00, 0x10, 0x01])),
            (15, st(vec![("Type", n("XObject")), ("Subtype", n("Image")), ("Width", i(8)), ("Height", i(2)), ("ColorSpace", n("DeviceGray")), ("BitsPerComponent", i(1)), ("Filter", n("JBIG2Decode")), ("DecodeParms", d(vec![("JBIG2Globals", r(16))]))], &[0, 0, 0, 0])),
            (16, st(vec![("Filter", n("JBIG2Decode")), ("DecodeParms", d(vec![("JBIG2Globals", r(11))]))], &[0, 0])),
            (20, st(vec![("Filter", n("LZWDecode")), ("DecodeParms", d(vec![("EarlyChange", i(1)), ("Predictor", i(2)), ("Colors", i(1)), ("BitsPerComponent", i(8)), ("Columns", i(2))]))], &{
                let mut t = crate::engine::tape::Tape::new(&[]);
                crate::engine::filters::lzw_encode(b"q Q q Q ", 1, &mut t)
            })),
            (21, st(vec![("Filter", n("RunLengthDecode"))], &[3, b' ', b'q', b' ', b'Q', 128])),
            (30, d(vec![("Type", n("Annot")), ("Subtype", n("Widget")), ("Rect", rect(5, 5)), ("P", r(3)), ("AP", d(vec![("N", r(31)), ("D", r(11))])), ("Parent", r(40)), ("F", i(4))])),
            (31, d(vec![("On", r(11)), ("Off", r(31))])),
            (40, d(vec![("FT", n("Btn")), ("T", Val::str(b"f")), ("Kids", arr(vec![r(30), r(41)])), ("Ff", i(0))])),
            (41, d(vec![("FT", n("Tx")), ("T", Val::str(b"k")), ("Parent", r(40)), ("Kids", arr(vec![r(40)])), ("MaxLen", i(5))])),
            (50, d(vec![("Type", n("Font")), ("Subtype", n("Type1")), ("BaseFont", n("Helvetica"))])),
        ]);
        out.push(Fragment { name: "streams-forms-annots", objects: objs, trailer: tr(1), xref_stream: true, compress: false });
    }
    // 6. the same page tree, compressed into object streams (references into / out of object streams)
    out.push(Fragment { name: "page-tree-compressed", objects: out[0].objects.clone(), trailer: tr(1), xref_stream: true, compress: true });
    // 7. encryption dictionary
    {
        let mut objs = skeleton(vec![], vec![("Contents", r(5))]);
        let cs = crate::engine::docgen::crypt_spec(5, b"", b"seed").unwrap();
        let e = crate::engine::crypt::Encryptor::new(&cs);
        objs.push((4, e.dict()));
        objs.push((5, st(vec![], b"0 0 m")));
        out.push(Fragment { name: "encrypt-dict", objects: objs, trailer: vec![(Bytes::from("Root"), r(1)), (Bytes::from("Encrypt"), r(4)), (Bytes::from("ID"), arr(vec![Val::Str(cs.id0.clone()), Val::Str(cs.id0.clone())]))], xref_stream: false, compress: false });
    }
    out
}

#[derive(Clone, Copy, Debug, PartialEq)]
pub enum SlotKind {
    Ref,
    Num,
}

/// Enumerate the slots (references and numbers) of a fragment in a fixed traversal order.
pub fn slots(objs: &[(u64, Val)]) -> Vec<(usize, SlotKind, String)> {
    fn rec(v: &Val, path: &str, oi: usize, out: &mut Vec<(usize, SlotKind, String)>) {
        match v {
            Val::Ref(..) => out.push((oi, SlotKind::Ref, path.to_string())),
            Val::Int(_) | Val::Real(_) => out.push((oi, SlotKind::Num, path.to_string())),
            Val::Array(a) => a.iter().enumerate().for_each(|(k, x)| rec(x, &format!("{}[{}]", path, k), oi, out)),
            Val::Dict(d) | Val::Stream(d, _) => d.iter().for_each(|(k, x)| rec(x, &format!("{}/{}", path, String::from_utf8_lossy(k)), oi, out)),
            _ => {}
        }
    }
    let mut out = Vec::new();
    for (oi, (num, v)) in objs.iter().enumerate() {
        rec(v, &format!("{}", num), oi, &mut out);
    }
    out
}

pub fn replace_slot(objs: &[(u64, Val)], slot: usize, with: &Val) -> Vec<(u64, Val)> {
    fn rec(v: &Val, counter: &mut usize, slot: usize, with: &Val) -> Val {
        match v {
            Val::Ref(..) | Val::Int(_) | Val::Real(_) => {
                let me = *counter;
                *counter += 1;
                if me == slot {
                    with.clone()
                } else {
                    v.clone()
                }
            }
            Val::Array(a) => Val::Array(a.iter().map(|x| rec(x, counter, slot, with)).collect()),
            Val::Dict(d) => Val::Dict(d.iter().map(|(k, x)| (k.clone(), rec(x, counter, slot, with))).collect()),
            Val::Stream(d, data) => Val::Stream(d.iter().map(|(k, x)| (k.clone(), rec(x, counter, slot, with))).collect(), data.clone()),
            other => other.clone(),
        }
    }
    let mut counter = 0usize;
    objs.iter().map(|(n, v)| (*n, rec(v, &mut counter, slot, with))).collect()
}

pub fn boundary_numbers() -> Vec<Val> {
    vec![
        Val::Int(-1),
        Val::Int(0),
        Val::Int(1),
        Val::Int(2147483647),
        Val::Int(4294967295),
        Val::Real(18446744073709551615.0),
        Val::Int(-2147483648),
        Val::Int(65536),
        Val::Int(255),
        Val::Real(0.5),
        Val::Real(-1e30),
        Val::Real(3.4e38),
    ]
}

pub fn write_fragment(f: &Fragment, objs: &[(u64, Val)]) -> Vec<u8> {
    let mut w = Writer::new(b"", "1.6");
    let max = objs.iter().map(|o| o.0).max().unwrap_or(1);
    let mut members: Vec<(u64, Val)> = Vec::new();
    for (num, v) in objs {
        match v {
            Val::Stream(dict, data) => {
                w.stream_obj(*num, 0, dict, data);
            }
            other => {
                if f.compress && *num != 1 {
                    members.push((*num, other.clone()));
                } else {
                    w.obj(*num, 0, other);
                }
            }
        }
    }
    if !members.is_empty() {
        w.objstm(max + 1, &members, &[FilterSpec::Flate { raw: false, level: 6 }], true, &[]);
    }
    if f.xref_stream {
        w.xref_stream(max + 2, max + 3, &f.trailer, false, &[], false);
    } else {
        w.free(0, 0, 65535);
        w.xref_table(max + 3, &f.trailer, false);
    }
    w.finish()
}

/// Raw-structure cases that the typed fragments cannot express: /Prev loops, xref stream parameters, object stream lies, nesting.
pub fn structural_cases() -> Vec<(String, Vec<u8>)> {
    let mut out = Vec::new();
    let base = |w: &mut Writer| {
        for (n, v) in crate::engine::writer::minimal_catalog(1, 2, 3, 1) {
            w.obj(n, 0, &v);
        }
    };
    // /Prev loops of length 1..3 (classic tables and xref streams): every section's /Prev is written as a
    // 10-digit placeholder and patched afterwards, so section k points at section (k+1) mod len
    for stream in [false, true] {
        for len in 1..=3usize {
            let mut w = Writer::new(b"", "1.5");
            base(&mut w);
            let mut offsets = Vec::new();
            for k in 0..len {
                w.obj(10 + k as u64, 0, &Val::Int(k as i64));
                w.last_xref = Some(1_999_999_990 + k);
                let off = if stream { w.xref_stream(20 + k as u64, 30, &[(Bytes::from("Root"), r(1))], false, &[], false) } else { w.xref_table(30, &[(Bytes::from("Root"), r(1))], false) };
                offsets.push(off);
            }
            let mut file = w.finish();
            for k in 0..len {
                let placeholder = format!("{}", 1_999_999_990u64 + k as u64);
                let target = format!("{:010}", offsets[(k + 1) % len]);
                if let Some(pos) = file.windows(10).position(|x| x == placeholder.as_bytes()) {
                    file[pos..pos + 10].copy_from_slice(target.as_bytes());
                }
            }
            out.push((format!("prev-loop/{}-len{}", if stream { "stream" } else { "table" }, len), file));
        }
    }
    // xref stream with hostile /W, /Index, /Size
    for (label, wv, index, size) in [
        ("w-zero-large-index", vec![0i64, 0, 0], vec![0i64, 2147483647], 10i64),
        ("w-zero-huge-index", vec![0, 0, 0], vec![0, 4294967295], 10),
        ("w-nine", vec![1, 9, 1], vec![0, 5], 10),
        ("w-negative", vec![1, -1, 1], vec![0, 5], 10),
        ("index-odd", vec![1, 2, 1], vec![0], 10),
        ("index-negative", vec![1, 2, 1], vec![-1, 5], 10),
        ("size-huge", vec![1, 2, 1], vec![0, 5], 2147483647),
        ("size-negative", vec![1, 2, 1], vec![0, 5], -1),
        ("size-just-over-limit", vec![1, 2, 1], vec![0, 5], 1000001),
        ("index-beyond-size", vec![1, 2, 1], vec![999990, 20], 1000000),
    ] {
        let mut w = Writer::new(b"", "1.5");
        base(&mut w);
        let xoff = w.off();
        let data: Vec<u8> = vec![1, 0, 15, 0, 1, 0, 60, 0, 1, 0, 120, 0, 1, 0, 200, 0, 1, 1, 0, 0];
        let dict = vec![
            (Bytes::from("Type"), n("XRef")),
            (Bytes::from("Size"), i(size)),
            (Bytes::from("Root"), r(1)),
            (Bytes::from("W"), arr(wv.iter().map(|x| i(*x)).collect())),
            (Bytes::from("Index"), arr(index.iter().map(|x| i(*x)).collect())),
            (Bytes::from("Length"), i(data.len() as i64)),
        ];
        w.obj(9, 0, &Val::Stream(dict, Bytes(data)));
        w.buf.extend_from_slice(format!("startxref\n{}\n%%EOF\n", xoff).as_bytes());
        out.push((format!("xref-stream/{}", label), w.finish()));
    }
    // object streams that lie: N too large, First beyond the data, member = the stream itself, /Extends self
    for (label, nval, first, member, extends) in [("n-huge", 2147483647i64, 10i64, 20u64, None), ("n-negative", -1, 10, 20, None), ("first-beyond", 1, 100000, 20, None), ("first-negative", 1, -5, 20, None), ("contains-itself", 1, 5, 10, None), ("extends-itself", 1, 5, 20, Some(10u64))] {
        let mut w = Writer::new(b"", "1.5");
        base(&mut w);
        let body = format!("{} 0 <</A 1>>", member);
        let mut dict = vec![(Bytes::from("Type"), n("ObjStm")), (Bytes::from("N"), i(nval)), (Bytes::from("First"), i(first))];
        if let Some(e) = extends {
            dict.push((Bytes::from("Extends"), r(e)));
        }
        w.stream_obj(10, 0, &dict, body.as_bytes());
        w.pending.insert(member, crate::engine::writer::XEntry::Compressed { stm: 10, idx: 0 });
        w.xref_stream(11, 30, &[(Bytes::from("Root"), r(1))], false, &[], false);
        out.push((format!("objstm/{}", label), w.finish()));
    }
    // object streams whose offset table holds boundary numbers (object number and offset of each member)
    for (k, table) in ["20 2147483647", "20 4294967295", "20 9223372036854775807", "20 18446744073709551615", "20 99999999999999999999999999", "18446744073709551615 0", "20 5 21 0", "20 0 21 18446744073709551615", "20 18446744073709551615 21 18446744073709551615", "20 -1"].iter().enumerate() {
        let mut w = Writer::new(b"", "1.5");
        base(&mut w);
        let nmembers = table.split(' ').count() / 2;
        let body = format!("{} <</A 1>> <</B 2>>", table);
        let dict = vec![(Bytes::from("Type"), n("ObjStm")), (Bytes::from("N"), i(nmembers as i64)), (Bytes::from("First"), i(table.len() as i64 + 1))];
        w.stream_obj(10, 0, &dict, body.as_bytes());
        for m in 0..nmembers {
            w.pending.insert(20 + m as u64, crate::engine::writer::XEntry::Compressed { stm: 10, idx: m });
        }
        // cross-reference entries whose index is exactly N, N+1 and far beyond
        for (j, idx) in [nmembers, nmembers + 1, 255, 65535].into_iter().enumerate() {
            w.pending.insert(24 + j as u64, crate::engine::writer::XEntry::Compressed { stm: 10, idx });
        }
        w.xref_stream(11, 30, &[(Bytes::from("Root"), r(1)), (Bytes::from("Extra"), arr(vec![r(20), r(21)]))], false, &[], false);
        out.push((format!("objstm/offset-table-{}", k), w.finish()));
    }
    // an object whose whole value is a reference (to itself, to another such object, to a real object)
    for (label, objs5, objs6) in [("self", 5u64, 6u64), ("pair", 6, 5), ("real", 3, 3), ("chain-end", 6, 3)] {
        for slot in ["Contents", "Resources", "Annots", "MediaBox", "Kids", "Root-entry"] {
            let mut w = Writer::new(b"", "1.4");
            let mut objs = crate::engine::writer::minimal_catalog(1, 2, 3, 1);
            match slot {
                "Kids" => {
                    if let Val::Dict(d2) = &mut objs[1].1 {
                        d2.retain(|(k, _)| k.as_slice() != b"Kids");
                        d2.push((Bytes::from("Kids"), r(5)));
                    }
                }
                "Root-entry" => {
                    if let Val::Dict(d1) = &mut objs[0].1 {
                        d1.push((Bytes::from("Outlines"), r(5)));
                        d1.push((Bytes::from("Names"), r(5)));
                        d1.push((Bytes::from("PageLabels"), r(5)));
                    }
                }
                other => {
                    if let Val::Dict(d3) = &mut objs[2].1 {
                        d3.retain(|(k, _)| k.as_slice() != other.as_bytes());
                        d3.push((Bytes::from(other), r(5)));
                    }
                }
            }
            for (num, v) in objs {
                w.obj(num, 0, &v);
            }
            w.obj(5, 0, &r(objs5));
            w.obj(6, 0, &r(objs6));
            w.free(0, 0, 65535);
            w.xref_table(7, &[(Bytes::from("Root"), r(1)), (Bytes::from("ID"), r(5))], false);
            out.push((format!("object-is-reference/{}-{}", label, slot), w.finish()));
        }
    }
    // chains of distinct objects that are loaded eagerly: /Parent links above the root page-tree node
    for len in [10usize, 40, 60, 300, 3000] {
        let mut w = Writer::new(b"", "1.4");
        w.obj(1, 0, &d(vec![("Type", n("Catalog")), ("Pages", r(2))]));
        w.obj(2, 0, &d(vec![("Type", n("Pages")), ("Kids", arr(vec![r(3)])), ("Count", i(1)), ("Parent", r(10))]));
        w.obj(3, 0, &d(vec![("Type", n("Page")), ("Parent", r(2)), ("MediaBox", rect(100, 100))]));
        for k in 0..len as u64 {
            let mut e = vec![("Type", n("Pages")), ("Kids", arr(vec![])), ("Count", i(0))];
            if k + 1 < len as u64 {
                e.push(("Parent", r(11 + k)));
            }
            w.obj(10 + k, 0, &d(e));
        }
        w.free(0, 0, 65535);
        w.xref_table(10 + len as u64, &[(Bytes::from("Root"), r(1))], false);
        out.push((format!("parent-chain/{}", len), w.finish()));
    }
    // inputs found by reading the code (kept as a regression corpus under corpus/hostile)
    {
        let dir = format!("{}/corpus/hostile", std::env::var("VERIF_DIR").unwrap_or_else(|_| "/verif".into()));
        let mut names: Vec<_> = std::fs::read_dir(&dir).map(|rd| rd.flatten().map(|e| e.path()).collect()).unwrap_or_default();
        names.sort();
        for p in names {
            if let Ok(bytes) = std::fs::read(&p) {
                out.push((format!("hostile-corpus/{}", p.file_name().map(|x| x.to_string_lossy().to_string()).unwrap_or_default()), bytes));
            }
        }
    }
    // date strings (information dictionary, read when the file is opened, and an annotation): every prefix of a full date
    // followed by a multi-byte character, an invalid byte, letters, or nothing
    {
        let full = b"D:20240229123456+05'30'";
        let tails: [&[u8]; 6] = [b"", "\u{e9}".as_bytes(), "\u{20ac}".as_bytes(), "\u{1F600}".as_bytes(), b"\xff", b"x-"];
        for cut in 0..=full.len() {
            for (ti, tail) in tails.iter().enumerate() {
                let mut date = full[..cut].to_vec();
                date.extend_from_slice(tail);
                let mut w = Writer::new(b"", "1.4");
                let mut objs = crate::engine::writer::minimal_catalog(1, 2, 3, 1);
                if let Val::Dict(d) = &mut objs[2].1 {
                    d.push((Bytes::from("Annots"), arr(vec![r(5)])));
                }
                for (num, v) in objs {
                    w.obj(num, 0, &v);
                }
                w.obj(4, 0, &d(vec![("CreationDate", Val::Str(Bytes(date.clone()))), ("ModDate", Val::Str(Bytes(date.clone())))]));
                w.obj(5, 0, &d(vec![("Type", n("Annot")), ("Subtype", n("Text")), ("Rect", rect(10, 10)), ("M", Val::Str(Bytes(date.clone())))]));
                w.free(0, 0, 65535);
                w.xref_table(6, &[(Bytes::from("Root"), r(1)), (Bytes::from("Info"), r(4))], false);
                out.push((format!("date/{}-{}", cut, ti), w.finish()));
            }
        }
    }
    // nesting beyond the supported depth
    for depth in [19usize, 20, 21, 100, 10000] {
        for kind in 0..3 {
            let mut w = Writer::new(b"", "1.4");
            base(&mut w);
            let mut text = Vec::new();
            for k in 0..depth {
                match kind {
                    0 => text.extend_from_slice(b"["),
                    1 => text.extend_from_slice(b"<</K"),
                    _ => text.extend_from_slice(if k % 2 == 0 { b"[" } else { b"<</K" }),
                }
            }
            text.extend_from_slice(b" 1 ");
            for k in (0..depth).rev() {
                match kind {
                    0 => text.extend_from_slice(b"]"),
                    1 => text.extend_from_slice(b">>"),
                    _ => text.extend_from_slice(if k % 2 == 0 { b"]" } else { b">>" }),
                }
            }
            let off = w.off();
            w.buf.extend_from_slice(b"10 0 obj\n");
            w.buf.extend_from_slice(&text);
            w.buf.extend_from_slice(b"\nendobj\n");
            w.pending.insert(10, crate::engine::writer::XEntry::InUse { off, gen: 0 });
            w.free(0, 0, 65535);
            w.xref_table(11, &[(Bytes::from("Root"), r(1))], false);
            out.push((format!("nesting/depth{}-kind{}", depth, kind), w.finish()));
        }
    }
    // ladders: every intermediate node lists the same child twice, 40 levels deep (2^40 root-to-leaf paths in a 6 KB file)
    for kind in ["names", "numbers"] {
        let mut w = Writer::new(b"", "1.4");
        let depth = 40u64;
        let first = 10u64;
        let cat = if kind == "names" { d(vec![("Type", n("Catalog")), ("Pages", r(2)), ("Names", d(vec![("Dests", r(first)), ("IDS", r(first))]))]) } else { d(vec![("Type", n("Catalog")), ("Pages", r(2)), ("PageLabels", r(first))]) };
        w.obj(1, 0, &cat);
        w.obj(2, 0, &d(vec![("Type", n("Pages")), ("Kids", arr(vec![r(3)])), ("Count", i(1))]));
        w.obj(3, 0, &d(vec![("Type", n("Page")), ("Parent", r(2)), ("MediaBox", rect(10, 10))]));
        for k in 0..depth {
            w.obj(first + k, 0, &d(vec![("Kids", arr(vec![r(first + k + 1), r(first + k + 1)]))]));
        }
        let leaf = if kind == "names" { d(vec![("Names", arr(vec![Val::str(b"a"), arr(vec![r(3), n("Fit")])]))]) } else { d(vec![("Nums", arr(vec![i(0), d(vec![("S", n("D"))])]))]) };
        w.obj(first + depth, 0, &leaf);
        w.free(0, 0, 65535);
        w.xref_table(first + depth + 1, &[(Bytes::from("Root"), r(1))], false);
        out.push((format!("ladder/{}-depth{}", kind, depth), w.finish()));
    }
    // the same structures behind a few bytes of junk before the header (offsets are header-relative)
    let with_prefix: Vec<(String, Vec<u8>)> = out
        .iter()
        .filter(|(l, _)| l.starts_with("prev-loop") || l.starts_with("xref-stream") || l.starts_with("objstm"))
        .map(|(l, f)| {
            let mut d = b"\xEF\xBB\xBFjunk".to_vec();
            d.extend_from_slice(f);
            (format!("prefixed/{}", l), d)
        })
        .collect();
    out.extend(with_prefix);
    out
}

pub fn replay(ctx: &Ctx, check: &str, art: &serde_json::Value, info: &mut CaseInfo) -> Result<(), Failure> {
    crate::props::c01::replay(ctx, check, art, info)
}

pub fn run(ctx: &Ctx) {
    let frags = fragments();
    // 1. every reference slot pointed at every object of the fragment (and at a missing one); every numeric slot at every boundary value
    let mut jobs: Vec<(usize, usize, Val, String)> = Vec::new();
    let nums = boundary_numbers();
    for (fi, f) in frags.iter().enumerate() {
        let sl = slots(&f.objects);
        for (si, (_, kind, path)) in sl.iter().enumerate() {
            match kind {
                SlotKind::Ref => {
                    let mut targets: Vec<u64> = f.objects.iter().map(|o| o.0).collect();
                    targets.push(0);
                    targets.push(9999);
                    for t in targets {
                        jobs.push((fi, si, Val::Ref(t, 0), format!("{}:{}->{}", f.name, path, t)));
                    }
                }
                SlotKind::Num => {
                    let take = nums.len();
                    for v in nums.iter().take(take) {
                        jobs.push((fi, si, v.clone(), format!("{}:{}={:?}", f.name, path, v)));
                    }
                }
            }
        }
    }
    // quick: a deterministic third of the single-slot space, rotating with the seed; thorough: all of it
    let stride: u64 = 1;
    let phase = ctx.seed % stride;
    let chosen: Vec<&(usize, usize, Val, String)> = jobs.iter().enumerate().filter(|(k, _)| (*k as u64) % stride == phase).map(|(_, j)| j).collect();
    ctx.run_enum(
        &format!("single-slot-substitutions-{}", if stride == 1 { "all".to_string() } else { format!("1-of-{}", stride) }),
        chosen.len() as u64,
        |k| chosen[k as usize].clone(),
        |(fi, si, with, label), info| {
            let f = &frags[*fi];
            let objs = replace_slot(&f.objects, *si, with);
            let file = write_fragment(f, &objs);
            info.label(format!("fragment/{}", f.name));
            info.label(match with {
                Val::Ref(..) => "slot/reference".to_string(),
                v => format!("slot/number={:?}", v),
            });
            info.distinct(label);
            let v = check_input(&file, b"", label, &json!({"case": label}))?;
            info.nontrivial(v.loaded_any);
            info.label(if v.loaded_any { "loaded" } else { "rejected" });
            info.sample = Some(json!({"case": label, "file_len": file.len()}));
            Ok(())
        },
    );
    // 2. the unmodified fragments must load (generator self-check) and structural cases
    for f in &frags {
        ctx.run_one("fragments-unmodified", f.name, |info| {
            let file = write_fragment(f, &f.objects);
            let v = check_input(&file, b"", f.name, &json!({}))?;
            info.nontrivial(true);
            if !v.loaded_any {
                return Err(Failure::new("harness-c14-fragment-does-not-load", f.name.to_string(), json!({})));
            }
            Ok(())
        });
    }
    let structural = structural_cases();
    ctx.run_enum(
        "structural-cases",
        structural.len() as u64,
        |k| k as usize,
        |k, info| {
            let (label, file) = &structural[*k];
            info.label(format!("structural/{}", label.split('/').next().unwrap_or("")));
            info.distinct(label);
            let v = check_input(file, b"", label, &json!({"case": label}))?;
            info.nontrivial(true);
            info.label(if v.loaded_any { "loaded" } else { "rejected" });
            info.sample = Some(json!({"case": label}));
            Ok(())
        },
    );
    // 3. random multi-slot substitutions
    let cases = ctx.tier.pick(1_500, 80_000);
    let nf = frags.len();
    ctx.run_cases(
        "multi-slot-substitutions",
        cases,
        || (0usize..nf, proptest::collection::vec((any::<u16>(), any::<u16>()), 2..6)),
        |(fi, subs), info| {
            let f = &frags[*fi];
            let sl = slots(&f.objects);
            let mut objs = f.objects.clone();
            let mut desc = Vec::new();
            for (a, b) in subs {
                let si = gen::pick_index(*a, sl.len());
                let with = match sl[si].1 {
                    SlotKind::Ref => {
                        let k = gen::pick_index(*b, f.objects.len() + 1);
                        Val::Ref(f.objects.get(k).map(|o| o.0).unwrap_or(9999), 0)
                    }
                    SlotKind::Num => nums[gen::pick_index(*b, nums.len())].clone(),
                };
                desc.push(format!("{}={:?}", sl[si].2, with));
                objs = replace_slot(&objs, si, &with);
            }
            let file = write_fragment(f, &objs);
            info.label(format!("fragment/{}", f.name));
            info.distinct(&file);
            let v = check_input(&file, b"", f.name, &json!({"subs": desc}))?;
            info.nontrivial(v.loaded_any);
            info.label(if v.loaded_any { "loaded" } else { "rejected" });
            info.sample = Some(json!({"fragment": f.name, "substitutions": desc}));
            Ok(())
        },
    );
}

pub const RULE: &str = "cases = syntactically valid files written by the harness from 7 typed schema fragments (page tree direct and compressed, name/number trees and outlines, fonts, colour spaces and functions, streams/forms/annotations/fields, encryption dictionary): every reference slot pointed in turn at every object of its fragment, at object 0 and at a missing object; every numeric slot set in turn to each of {-1, 0, 1, 2^31-1, 2^32-1, 2^64-1, -2^31, 65536, 255, 0.5, -1e30, 3.4e38} (all single-slot substitutions in both tiers); random 2-5 slot combinations; structural cases (/Prev loops of length 1-3, hostile xref-stream /W /Index /Size, object streams lying about N/First or containing/extending themselves or with boundary numbers in their offset table, nesting 19/20/21/100/10000 deep, date strings cut at every length and continued with multi-byte, invalid or alphabetic bytes, objects whose whole value is a reference (to itself, in pairs, in chains) in every slot of the skeleton, /Parent chains of 10-3000 distinct nodes above the root, and the regression corpus corpus/hostile); oracle = C01's: the deep walk in a worker process returns from every call, no panic, no abnormal exit, no confirmed time-out, allocation within the proportional bound; non-trivial = the file loaded (typed loading reached the planted structure); distinct by substitution";
