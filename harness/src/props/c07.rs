//! C07 — page n is the n-th leaf of the page tree; attributes come from the nearest ancestor.
use crate::engine::bytes::Bytes;
use crate::engine::errs;
use crate::engine::gen;
use crate::engine::open::{open, AnyFile};
use crate::engine::runner::{CaseInfo, Ctx, Failure};
use crate::engine::val::Val;
use crate::engine::writer::{FilterSpec, Writer};
use crate::with_file;
use proptest::prelude::*;
use serde::{Deserialize, Serialize};
use serde_json::json;

#[derive(Clone, Debug)]
pub struct Attrs {
    pub media: bool,
    pub crop: bool,
    pub res: bool,
}

#[derive(Clone, Debug)]
pub enum Node {
    Leaf(Attrs),
    Tree(Attrs, Vec<Node>),
}

#[derive(Clone, Debug)]
pub struct Case {
    pub root: Node,
    pub compress: Vec<bool>,
    pub tape: Vec<u8>,
}

/// What the model expects for one leaf.
#[derive(Clone, Debug, Serialize, Deserialize)]
pub struct LeafExpect {
    pub obj: u64,
    /// id of the node whose MediaBox / CropBox / Resources applies (None = nowhere)
    pub media: Option<u64>,
    pub crop: Option<u64>,
    pub res: Option<u64>,
}

#[derive(Clone, Debug, Serialize, Deserialize)]
pub struct Rendered {
    pub file: Bytes,
    pub leaves: Vec<LeafExpect>,
    pub depth: usize,
    pub labels: Vec<String>,
}

const MAX_LEAVES: usize = 80;

struct Build {
    objs: Vec<(u64, Val)>,
    leaves: Vec<LeafExpect>,
    next: u64,
    max_depth: usize,
    uneven: bool,
    inherited: bool,
    empty_nodes: usize,
}

fn attrs_entries(id: u64, a: &Attrs) -> Vec<(&'static str, Val)> {
    let mut e = Vec::new();
    if a.media {
        e.push(("MediaBox", Val::Array(vec![Val::Int(0), Val::Int(0), Val::Int(1000 + id as i64), Val::Int(50)])));
    }
    if a.crop {
        e.push(("CropBox", Val::Array(vec![Val::Int(1), Val::Int(1), Val::Int(5000 + id as i64), Val::Int(40)])));
    }
    if a.res {
        e.push(("Resources", Val::dict(vec![("ExtGState", Val::Dict(vec![(Bytes(format!("GS{}", id).into_bytes()), Val::dict(vec![("LW", Val::Int(1))]))]))])));
    }
    e
}

/// returns (object number, leaf count)
fn build(n: &Node, parent: Option<u64>, inh: (Option<u64>, Option<u64>, Option<u64>), depth: usize, b: &mut Build) -> (u64, usize) {
    let id = b.next;
    b.next += 1;
    b.max_depth = b.max_depth.max(depth);
    match n {
        Node::Leaf(a) => {
            let idx = b.leaves.len();
            let mut e = vec![("Type", Val::name("Page")), ("Idx", Val::Int(idx as i64))];
            if let Some(p) = parent {
                e.push(("Parent", Val::Ref(p, 0)));
            }
            e.extend(attrs_entries(id, a));
            let media = if a.media { Some(id) } else { inh.0 };
            let crop = if a.crop { Some(id) } else { inh.1 };
            let res = if a.res { Some(id) } else { inh.2 };
            if (!a.media && inh.0.is_some()) || (!a.crop && inh.1.is_some()) || (!a.res && inh.2.is_some()) {
                b.inherited = true;
            }
            b.leaves.push(LeafExpect { obj: id, media, crop, res });
            b.objs.push((id, Val::dict(e)));
            (id, 1)
        }
        Node::Tree(a, kids) => {
            let inh2 = (if a.media { Some(id) } else { inh.0 }, if a.crop { Some(id) } else { inh.1 }, if a.res { Some(id) } else { inh.2 });
            let mut kid_refs = Vec::new();
            let mut count = 0usize;
            let mut counts = Vec::new();
            for k in kids {
                if b.leaves.len() >= MAX_LEAVES {
                    break;
                }
                let (kid_id, c) = build(k, Some(id), inh2, depth + 1, b);
                kid_refs.push(Val::Ref(kid_id, 0));
                count += c;
                counts.push(c);
            }
            if kids.is_empty() || count == 0 {
                b.empty_nodes += 1;
            }
            if counts.iter().any(|c| *c != counts[0]) {
                b.uneven = true;
            }
            let mut e = vec![("Type", Val::name("Pages")), ("Kids", Val::Array(kid_refs)), ("Count", Val::Int(count as i64))];
            if let Some(p) = parent {
                e.push(("Parent", Val::Ref(p, 0)));
            }
            e.extend(attrs_entries(id, a));
            b.objs.push((id, Val::dict(e)));
            (id, count)
        }
    }
}

pub fn render(c: &Case) -> Rendered {
    let mut b = Build { objs: Vec::new(), leaves: Vec::new(), next: 10, max_depth: 0, uneven: false, inherited: false, empty_nodes: 0 };
    let root = match &c.root {
        Node::Tree(..) => c.root.clone(),
        leaf => Node::Tree(Attrs { media: false, crop: false, res: false }, vec![leaf.clone()]),
    };
    let (root_id, _) = build(&root, None, (None, None, None), 1, &mut b);
    let mut w = Writer::new(b"", "1.5");
    w.set_tape(&c.tape);
    w.obj(1, 0, &Val::dict(vec![("Type", Val::name("Catalog")), ("Pages", Val::Ref(root_id, 0))]));
    let mut members = Vec::new();
    let mut any_compressed = false;
    for (i, (id, v)) in b.objs.iter().enumerate() {
        if c.compress.get(i % c.compress.len().max(1)).copied().unwrap_or(false) {
            members.push((*id, v.clone()));
            any_compressed = true;
        } else {
            w.obj(*id, 0, v);
        }
    }
    let stm = b.next;
    if !members.is_empty() {
        w.objstm(stm, &members, &[FilterSpec::Flate { raw: false, level: 6 }], true, &[]);
    }
    let x = b.next + 1;
    w.xref_stream(x, x + 1, &[(Bytes::from("Root"), Val::Ref(1, 0))], false, &[], false);
    let mut labels = vec![format!("depth/{}", b.max_depth), format!("leaves/{}", match b.leaves.len() { 0 => "0".to_string(), 1 => "1".into(), 2..=5 => "2-5".into(), 6..=20 => "6-20".into(), _ => "21+".into() })];
    if b.uneven {
        labels.push("uneven-fanout".into());
    }
    if b.inherited {
        labels.push("inherited-attribute".into());
    }
    if b.empty_nodes > 0 {
        labels.push("empty-intermediate-node".into());
    }
    if any_compressed {
        labels.push("compressed-nodes".into());
    }
    if b.leaves.iter().any(|l| l.media.is_none()) {
        labels.push("leaf-without-any-mediabox".into());
    }
    if b.leaves.iter().any(|l| l.crop.is_none() && l.media.is_some()) {
        labels.push("crop-falls-back-to-media".into());
    }
    Rendered { file: Bytes(w.finish()), leaves: b.leaves, depth: b.max_depth, labels }
}

pub fn check_rendered(r: &Rendered) -> Result<(), Failure> {
    let art = || serde_json::to_value(r).unwrap();
    let n = r.leaves.len() as u32;
    for cached in [false, true] {
        let cfg = if cached { "cached" } else { "uncached" };
        let f: AnyFile = open(&r.file, cached, false, b"").map_err(|e| Failure::new(format!("c07:load-error:{}", errs::root_kind(&e)), format!("{} load failed: {:?}", cfg, e), art()))?;
        with_file!(f, file => {
            if file.num_pages() != n {
                return Err(Failure::new("c07:num-pages", format!("{}: num_pages() = {}, the tree has {} leaves", cfg, file.num_pages(), n), art()));
            }
            let listed: Vec<_> = file.pages().collect();
            if listed.len() != n as usize {
                return Err(Failure::new("c07:pages-iter-len", format!("{}: pages() yields {} items, want {}", cfg, listed.len(), n), art()));
            }
            for (i, exp) in r.leaves.iter().enumerate() {
                for (how, page) in [("get_page", file.get_page(i as u32)), ("pages()", match &listed[i] { Ok(p) => Ok(p.clone()), Err(e) => Err(pdf::error::PdfError::Other { msg: format!("{:?}", e) }) })] {
                    let page = page.map_err(|e| Failure::new(format!("c07:page-error:{}", errs::root_kind(&e)), format!("{}: {}({}) failed: {:?}", cfg, how, i, e), art()))?;
                    let obj = page.get_ref().get_inner().id;
                    let idx = page.other.get("Idx").and_then(|p| p.as_integer().ok());
                    if obj != exp.obj || idx != Some(i as i32) {
                        return Err(Failure::new("c07:wrong-leaf", format!("{}: {}({}) returned object {} (Idx {:?}); the {}-th leaf in document order is object {}", cfg, how, i, obj, idx, i, exp.obj), art()));
                    }
                    // media box
                    match (page.media_box(), exp.media) {
                        (Ok(b), Some(id)) => {
                            if b.right != (1000 + id) as f32 || b.top != 50.0 {
                                return Err(Failure::new("c07:media-box-origin", format!("{}: page {}: media box {:?} but nearest definition is node {}", cfg, i, b, id), art()));
                            }
                        }
                        (Err(e), None) => {
                            if errs::root_kind(&e) != "MissingEntry" {
                                return Err(Failure::new("c07:media-box-error-kind", format!("{}: page {}: {:?}", cfg, i, e), art()));
                            }
                        }
                        (Ok(b), None) => return Err(Failure::new("c07:media-box-invented", format!("{}: page {}: media box {:?} but no node defines one", cfg, i, b), art())),
                        (Err(e), Some(id)) => return Err(Failure::new("c07:media-box-missing", format!("{}: page {}: node {} defines a media box, got {:?}", cfg, i, id, e), art())),
                    }
                    // crop box: own -> nearest ancestor -> media box
                    let want_crop: Option<(f32, f32)> = match (exp.crop, exp.media) {
                        (Some(id), _) => Some(((5000 + id) as f32, 40.0)),
                        (None, Some(id)) => Some(((1000 + id) as f32, 50.0)),
                        (None, None) => None,
                    };
                    match (page.crop_box(), want_crop) {
                        (Ok(b), Some((right, top))) => {
                            if b.right != right || b.top != top {
                                return Err(Failure::new("c07:crop-box-origin", format!("{}: page {}: crop box {:?}, want right={} top={}", cfg, i, b, right, top), art()));
                            }
                        }
                        (Err(e), None) => {
                            if errs::root_kind(&e) != "MissingEntry" {
                                return Err(Failure::new("c07:crop-box-error-kind", format!("{}: page {}: {:?}", cfg, i, e), art()));
                            }
                        }
                        (Ok(b), None) => return Err(Failure::new("c07:crop-box-invented", format!("{}: page {}: {:?}", cfg, i, b), art())),
                        (Err(e), Some(_)) => return Err(Failure::new("c07:crop-box-missing", format!("{}: page {}: {:?}", cfg, i, e), art())),
                    }
                    match (page.resources(), exp.res) {
                        (Ok(res), Some(id)) => {
                            let key = format!("GS{}", id);
                            if res.graphics_states.len() != 1 || !res.graphics_states.contains_key(key.as_str()) {
                                return Err(Failure::new("c07:resources-origin", format!("{}: page {}: resources have ExtGState keys {:?}, nearest definition is node {}", cfg, i, res.graphics_states.keys().collect::<Vec<_>>(), id), art()));
                            }
                        }
                        (Err(e), None) => {
                            if errs::root_kind(&e) != "MissingEntry" {
                                return Err(Failure::new("c07:resources-error-kind", format!("{}: page {}: {:?}", cfg, i, e), art()));
                            }
                        }
                        (Ok(_), None) => return Err(Failure::new("c07:resources-invented", format!("{}: page {}", cfg, i), art())),
                        (Err(e), Some(id)) => return Err(Failure::new("c07:resources-missing", format!("{}: page {}: node {} defines resources, got {:?}", cfg, i, id, e), art())),
                    }
                }
            }
            for i in [n, n + 1, n + 2, u32::MAX] {
                match file.get_page(i) {
                    Ok(p) => return Err(Failure::new("c07:out-of-bounds-ok", format!("{}: get_page({}) with {} pages returned object {}", cfg, i, n, p.get_ref().get_inner().id), art())),
                    Err(e) => {
                        if errs::root_kind(&e) != "PageOutOfBounds" {
                            return Err(Failure::new(format!("c07:out-of-bounds-error-kind:{}", errs::root_kind(&e)), format!("{}: get_page({}) with {} pages: {:?}", cfg, i, n, e), art()));
                        }
                    }
                }
            }
        });
    }
    Ok(())
}

fn attrs() -> impl Strategy<Value = Attrs> {
    (prop::bool::weighted(0.35), prop::bool::weighted(0.25), prop::bool::weighted(0.3)).prop_map(|(media, crop, res)| Attrs { media, crop, res })
}

fn node(depth: u32) -> impl Strategy<Value = Node> {
    let leaf = attrs().prop_map(Node::Leaf);
    leaf.prop_recursive(depth, 64, 5, |inner| (attrs(), proptest::collection::vec(inner, 0..6)).prop_map(|(a, k)| Node::Tree(a, k)))
}

/// a spine `d` levels deep with random side branches, so deep trees are frequent
fn spine() -> impl Strategy<Value = Node> {
    (2usize..=12, proptest::collection::vec((attrs(), proptest::collection::vec(node(1), 0..3), any::<bool>()), 12), attrs()).prop_map(|(d, levels, leaf_attrs)| {
        let mut cur = Node::Leaf(leaf_attrs);
        for (lvl, (a, mut sides, before)) in levels.into_iter().take(d - 1).enumerate() {
            // keep the whole tree within 12 levels: side branches (up to 2 levels) only where they fit
            if d - lvl + 1 > 12 {
                sides.clear();
            }
            let mut kids = Vec::new();
            if before {
                kids.extend(sides.clone());
                kids.push(cur);
            } else {
                kids.push(cur);
                kids.extend(sides.clone());
            }
            cur = Node::Tree(a, kids);
        }
        cur
    })
}

pub fn case_strategy() -> impl Strategy<Value = Case> {
    (prop_oneof![3 => node(5), 2 => spine(), 1 => (attrs(), proptest::collection::vec(node(3), 0..7)).prop_map(|(a, k)| Node::Tree(a, k))], proptest::collection::vec(any::<bool>(), 1..8), gen::tape(30)).prop_map(|(root, compress, tape)| Case { root, compress, tape })
}

pub fn run_case(c: &Case, info: &mut CaseInfo) -> Result<(), Failure> {
    let r = render(c);
    for l in &r.labels {
        info.label(l.clone());
    }
    let nt = r.depth >= 3 && r.labels.iter().any(|l| l == "uneven-fanout") && r.labels.iter().any(|l| l == "inherited-attribute");
    info.nontrivial(nt);
    info.distinct(&r.file.0);
    info.sample = Some(json!({"leaves": r.leaves.len(), "depth": r.depth, "labels": r.labels, "tree": format!("{:?}", c.root).chars().take(400).collect::<String>()}));
    check_rendered(&r)
}

pub fn replay(_ctx: &Ctx, _check: &str, art: &serde_json::Value, info: &mut CaseInfo) -> Result<(), Failure> {
    let r: Rendered = serde_json::from_value(art.clone()).map_err(|e| Failure::new("harness-bad-artifact", e.to_string(), art.clone()))?;
    info.nontrivial(true);
    info.distinct(&r.file.0);
    check_rendered(&r)
}

/// All rooted ordered trees with exactly `n` nodes below the root, as nested Node values (attributes
/// chosen by `bits`).  Enumerated through balanced-parenthesis words (Catalan).
fn trees_with_nodes(n: usize) -> Vec<Vec<u8>> {
    // each tree = a Dyck word of length 2n; generate all
    fn rec(open: usize, close: usize, n: usize, cur: &mut Vec<u8>, out: &mut Vec<Vec<u8>>) {
        if cur.len() == 2 * n {
            out.push(cur.clone());
            return;
        }
        if open < n {
            cur.push(1);
            rec(open + 1, close, n, cur, out);
            cur.pop();
        }
        if close < open {
            cur.push(0);
            rec(open, close + 1, n, cur, out);
            cur.pop();
        }
    }
    let mut out = Vec::new();
    rec(0, 0, n, &mut Vec::new(), &mut out);
    out
}

fn dyck_to_forest(word: &[u8], leaf_is_page: &mut dyn FnMut() -> bool, attr: &mut dyn FnMut() -> Attrs) -> Vec<Node> {
    // parse forest
    fn parse(word: &[u8], pos: &mut usize, leaf_is_page: &mut dyn FnMut() -> bool, attr: &mut dyn FnMut() -> Attrs) -> Vec<Node> {
        let mut nodes = Vec::new();
        while *pos < word.len() && word[*pos] == 1 {
            *pos += 1;
            let kids = parse(word, pos, leaf_is_page, attr);
            *pos += 1; // closing
            if kids.is_empty() && leaf_is_page() {
                nodes.push(Node::Leaf(attr()));
            } else {
                nodes.push(Node::Tree(attr(), kids));
            }
        }
        nodes
    }
    let mut pos = 0;
    parse(word, &mut pos, leaf_is_page, attr)
}

pub fn run(ctx: &Ctx) {
    let cases = ctx.tier.pick(3_000, 150_000);
    ctx.run_cases("generated-trees", cases, case_strategy, |c, info| run_case(c, info));
    // exhaustive over all tree shapes with <= 6 (quick) / 7 (thorough) nodes below the root; childless nodes are
    // pages, except that each shape is also tried with its childless nodes alternately being empty /Pages nodes;
    // attribute placement from a small set of patterns
    let maxn = ctx.tier.pick(6, 7) as usize;
    let mut shapes: Vec<Vec<u8>> = Vec::new();
    for n in 0..=maxn {
        shapes.extend(trees_with_nodes(n));
    }
    let variants = 6u64;
    let total = shapes.len() as u64 * variants;
    ctx.run_enum(
        &format!("exhaustive-shapes-<={}-nodes", maxn),
        total,
        |i| {
            let shape = &shapes[(i / variants) as usize];
            let variant = i % variants;
            let mut k = 0u32;
            let mut leaf_is_page = || {
                k += 1;
                match variant {
                    0..=2 => true,
                    3 => k % 2 == 0,
                    4 => k % 3 != 0,
                    _ => k % 2 == 1,
                }
            };
            let mut j = 0u32;
            let mut attr = || {
                j += 1;
                match variant {
                    0 => Attrs { media: false, crop: false, res: false },
                    1 => Attrs { media: j % 2 == 0, crop: j % 3 == 0, res: j % 2 == 1 },
                    2 => Attrs { media: j % 3 == 1, crop: j % 2 == 0, res: j % 4 == 0 },
                    _ => Attrs { media: j % 4 == 1, crop: j % 5 == 0, res: j % 3 == 0 },
                }
            };
            let kids = dyck_to_forest(shape, &mut leaf_is_page, &mut attr);
            let root = Node::Tree(Attrs { media: variant % 2 == 1, crop: false, res: variant == 2 }, kids);
            Case { root, compress: vec![variant == 5, false, variant >= 4], tape: vec![] }
        },
        |c, info| run_case(c, info),
    );
}

pub const RULE: &str = "cases = page trees written by the harness writer: generated ordered trees (depth 1-12, fan-out 0-5, empty intermediate nodes, <=80 leaves, accurate /Count and /Parent, MediaBox/CropBox/Resources tagged with their node and placed independently on any node, nodes direct or in an object stream), plus every tree shape with <=6 (quick) / <=7 (thorough) nodes below the root x 6 attribute/emptiness patterns; oracle = model: num_pages, get_page(i) and pages() give the i-th DFS leaf for every i, indices count..count+2 and u32::MAX give PageOutOfBounds, media/crop/resources come from the nearest definition (crop falls back to media; MissingEntry when none); cached and uncached; non-trivial = depth>=3, uneven fan-out and an inherited attribute; distinct by file bytes";
