use crate::engine::runner::{CaseInfo, Ctx, Failure};
use serde_json::Value;

pub mod c01;
pub mod c02;
pub mod c03;
pub mod c04;
pub mod c05;
pub mod c06;
pub mod c07;
pub mod c08;
pub mod c09;
pub mod c10;
pub mod c11;
pub mod c12;
pub mod c13;
pub mod c14;
pub mod c15;
pub mod c16;
pub mod c17;
pub mod c18;
pub mod c19;
pub mod c20;

pub struct Prop {
    pub id: &'static str,
    pub run: fn(&Ctx),
    pub replay: fn(&Ctx, &str, &Value, &mut CaseInfo) -> Result<(), Failure>,
    pub rule: &'static str,
    pub assumptions: &'static [&'static str],
}

pub fn all() -> Vec<Prop> {
    vec![
        Prop { id: "C01", run: c01::run, replay: c01::replay, rule: c01::RULE, assumptions: &["the walk covers what engine/walker.rs reads", "never-hangs is judged by a 40 s wall-clock budget per walk confirmed at 160 s; inputs are < 1 MB and normal walks take milliseconds"] },
        Prop { id: "C02", run: c02::run, replay: c02::replay, rule: c02::RULE, assumptions: &["the harness writer (engine/writer.rs) produces well-formed incremental updates: generation numbers never decrease, freed numbers are reused with the bumped generation, object 0 heads the free list", "hybrid-reference files and compressed objects with generation > 0 are not generated"] },
        Prop { id: "C03", run: c03::run, replay: c03::replay, rule: c03::RULE, assumptions: &["the printer in harness/src/engine/printer.rs is my reading of ISO 32000-1 7.2-7.3", "std's decimal->f32 conversion is correctly rounded (used to define the denoted value of a real)"] },
        Prop { id: "C04", run: c04::run, replay: c04::replay, rule: c04::RULE, assumptions: &["placement strings (\"N G obj\\n\" .. \"endobj\\n\") mirror Storage::save"] },
        Prop { id: "C05", run: c05::run, replay: c05::replay, rule: c05::RULE, assumptions: &["harness encoders follow ISO 32000-1 7.4 (LZW cross-checked against weezl in unit tests; Flate from flate2)"] },
        Prop { id: "C06", run: c06::run, replay: c06::replay, rule: c06::RULE, assumptions: &["harness/src/engine/crypt.rs implements Algorithms 1, 1.A, 2, 2.B, 3, 4, 5, 8, 9, 10 independently (own RC4 and key schedules); MD5, SHA-2 and AES primitives come from crates and are trusted", "only variants the library accepts are generated (StmF == StrF, no Identity filter, V in 1,2,4,5)"] },
        Prop { id: "C07", run: c07::run, replay: c07::replay, rule: c07::RULE, assumptions: &["trees are well-formed by construction (accurate /Count, correct /Parent, acyclic)"] },
        Prop { id: "C08", run: c08::run, replay: c08::replay, rule: c08::RULE, assumptions: &["the expansion table in harness/src/props/c08.rs is my reading of ISO 32000-1 Table A.1 (DESIGN.md Appendix B)"] },
        Prop { id: "C09", run: c09::run, replay: c09::replay, rule: c09::RULE, assumptions: &["objects that loading itself reads (catalog-level typed fields, info dictionary, page-tree root) are not overwritten with arbitrary values: that would make the file invalid rather than test the property", "saved bytes are obtained through File::save_to on a scratch file under /verif/work"] },
        Prop { id: "C10", run: c10::run, replay: c10::replay, rule: c10::RULE, assumptions: &["the structural check is my strict reader's reading of ISO 32000-1 7.5", "operation equality is C08's structural description"] },
        Prop { id: "C11", run: c11::run, replay: c11::replay, rule: c11::RULE, assumptions: &["object streams and filters are produced by the harness's own writer and encoders"] },
        Prop { id: "C12", run: c12::run, replay: c12::replay, rule: c12::RULE, assumptions: &["outcomes are compared as digests of canonical values or root-cause error kinds (wrappers Try/Shared/FromPrimitive peeled)"] },
        Prop { id: "C13", run: c13::run, replay: c13::replay, rule: c13::RULE, assumptions: &["interleavings inside globalcache's own mutex/condvar are exercised by real threads (stress), not enumerated", "a thread that the kernel reports sleeping outside a yield point (or that does not reach one within 30 ms) is treated as blocked and the controller moves on, so a schedule is a valid interleaving but not always exactly reproducible"] },
        Prop { id: "C14", run: c14::run, replay: c14::replay, rule: c14::RULE, assumptions: &["same oracle and resource bound as C01", "fragments are written by the harness writer, so the syntax is always valid"] },
        Prop { id: "C15", run: c15::run, replay: c15::replay, rule: c15::RULE, assumptions: &["the model table in harness/src/engine/schema.rs (full instances, required keys, defaults) is my reading of the #[pdf(..)] attributes and of ISO 32000-1", "values whose writer is explicitly unimplemented (unimplemented!/todo!) or returns Err are outside 'can both read and write' and only counted", "Font is not treated as a catch-all model: its private _other copy is not a #[pdf(other)] field"] },
        Prop { id: "C16", run: c16::run, replay: c16::replay, rule: c16::RULE, assumptions: &["reference decoders in harness/src/engine/filters.rs follow ISO 32000-1 7.4 (LZW cross-checked against weezl with code size 8 in unit tests)", "flate2/miniz_oxide is a correct zlib implementation"] },
        Prop { id: "C17", run: c17::run, replay: c17::replay, rule: c17::RULE, assumptions: &["corpus files are copies of /repo/files kept under /verif/corpus/files"] },
        Prop { id: "C18", run: c18::run, replay: c18::replay, rule: c18::RULE, assumptions: &["'treated as absent' is judged against the same instance with a literal null (ISO 32000-1 7.3.10: a reference to an undefined object is a reference to null) and, for entries, with the entry removed", "a reference that the model merely carries (Ref<T>, Lazy<T>, Primitive fields) is not dereferenced by reading and is accepted as is", "array elements whose element type cannot be null (the null variant fails too) are not asserted"] },
        Prop { id: "C19", run: c19::run, replay: c19::replay, rule: c19::RULE, assumptions: &["fonts are read through get::<Font> from a file written by the harness"] },
        Prop { id: "C20", run: c20::run, replay: c20::replay, rule: c20::RULE, assumptions: &["resource content is compared with references followed, /Parent and /P excluded, revisits replaced by a marker", "imports the library refuses (Err) are outside the property and only counted"] },
    ]
}
