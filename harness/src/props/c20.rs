//! C20 — imported pages (placeholder).
use serde_json::{json, Value};
pub fn import_job(_h: &Value, _blob: &[u8]) -> Value {
    json!({"harness_error": "import job not implemented"})
}
