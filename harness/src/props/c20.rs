//! C20 — a page imported into another document is equal and self-contained.
use crate::engine::bytes::{from_hex, to_hex, Bytes};
use crate::engine::corpus;
use crate::engine::docgen;
use crate::engine::errs;
use crate::engine::isolate::{self, Reply};
use crate::engine::panics;
use crate::engine::reader::Reader;
use crate::engine::runner::{CaseInfo, Ctx, Failure};
use crate::engine::val::{canon, Canon, Val};
use crate::props::c08::{describe, descs_equal, OpDesc};
use pdf::build::{CatalogBuilder, Importer, PageBuilder, PdfBuilder};
use pdf::content::{Color, Op};
use pdf::file::FileOptions;
use pdf::object::*;
use pdf::primitive::{Dictionary, Primitive};
use proptest::prelude::*;
use serde_json::{json, Value};
use std::time::Duration;

/// Value with references followed (streams: dictionary + raw data); revisits and depth overruns become markers.
pub fn deep<R: Resolve>(r: &R, p: &Primitive, path: &mut Vec<u64>, budget: &mut usize) -> Val {
    if *budget == 0 {
        return Val::name("@budget");
    }
    *budget -= 1;
    match p {
        Primitive::Reference(x) => {
            if path.contains(&x.id) {
                return Val::name("@cycle");
            }
            if path.len() > 10 {
                return Val::name("@deep");
            }
            match r.resolve(*x) {
                Ok(t) => {
                    path.push(x.id);
                    let v = deep(r, &t, path, budget);
                    path.pop();
                    v
                }
                Err(_) => Val::name("@missing"),
            }
        }
        Primitive::Array(a) => Val::Array(a.iter().map(|x| deep(r, x, path, budget)).collect()),
        Primitive::Dictionary(d) => Val::Dict(deep_dict(r, d, path, budget)),
        Primitive::Stream(s) => {
            let mut d = deep_dict(r, &s.info, path, budget);
            d.retain(|(k, _)| k.as_slice() != b"Length");
            let data = s.raw_data(r).map(|d| d.to_vec()).unwrap_or_else(|_| b"@unreadable".to_vec());
            Val::Stream(d, Bytes(data))
        }
        other => crate::engine::val::from_primitive_nr(other),
    }
}
fn deep_dict<R: Resolve>(r: &R, d: &Dictionary, path: &mut Vec<u64>, budget: &mut usize) -> Vec<(Bytes, Val)> {
    // /Parent and /P point back up the tree: follow neither (they are context, not content)
    d.iter().filter(|(k, _)| !matches!(k.as_str(), "Parent" | "P" | "StructParent" | "StructParents")).map(|(k, v)| (Bytes(k.as_str().as_bytes().to_vec()), deep(r, v, path, budget))).collect()
}

/// The page's resource dictionary (own or inherited), raw.
fn raw_resources<R: Resolve>(r: &R, page_id: u64) -> Option<Dictionary> {
    let mut cur = page_id;
    for _ in 0..20 {
        let d = match r.resolve(PlainRef { id: cur, gen: 0 }).ok()? {
            Primitive::Dictionary(d) => d,
            _ => return None,
        };
        if let Some(res) = d.get("Resources") {
            return res.clone().resolve(r).ok()?.into_dictionary().ok();
        }
        match d.get("Parent") {
            Some(Primitive::Reference(p)) => cur = p.id,
            _ => return None,
        }
    }
    None
}
fn raw_entry<R: Resolve>(r: &R, res: &Dictionary, category: &str, name: &str) -> Option<Primitive> {
    let cat = res.get(category)?.clone().resolve(r).ok()?.into_dictionary().ok()?;
    cat.get(name).cloned()
}

/// (category, name) pairs the operations use.
fn used_resources(ops: &[Op]) -> Vec<(&'static str, String)> {
    let mut out: Vec<(&'static str, String)> = Vec::new();
    let mut push = |c: &'static str, n: &str| {
        if !out.iter().any(|(a, b)| *a == c && b == n) {
            out.push((c, n.to_string()));
        }
    };
    for op in ops {
        match op {
            Op::GraphicsState { name } => push("ExtGState", name.as_str()),
            Op::TextFont { name, .. } => push("Font", name.as_str()),
            Op::XObject { name } => push("XObject", name.as_str()),
            Op::FillColorSpace { name } | Op::StrokeColorSpace { name } => {
                if !matches!(name.as_str(), "DeviceGray" | "DeviceRGB" | "DeviceCMYK" | "Pattern") {
                    push("ColorSpace", name.as_str());
                }
            }
            Op::FillColor { color: Color::Other(args) } | Op::StrokeColor { color: Color::Other(args) } => {
                if let Some(Primitive::Name(n)) = args.last() {
                    push("Pattern", n.as_str());
                }
            }
            Op::Shade { name } => push("Shading", name.as_str()),
            Op::BeginMarkedContent { properties: Some(Primitive::Name(n)), .. } | Op::MarkedContentPoint { properties: Some(Primitive::Name(n)), .. } => push("Properties", n.as_str()),
            _ => {}
        }
    }
    out
}

/// (resource name, "len:hash" of the decoded data or "err:kind") for every XObject of the page's resources
fn decoded_xobjects<R: Resolve>(r: &R, page: &Page) -> Vec<(String, String)> {
    let mut out = Vec::new();
    if let Ok(res) = page.resources() {
        let mut names: Vec<_> = res.xobjects.iter().collect();
        names.sort_by(|a, b| a.0.as_str().cmp(b.0.as_str()));
        for (name, xref) in names.into_iter().take(12) {
            let d = match r.get(*xref) {
                Err(e) => format!("err:get:{}", errs::root_kind(&e)),
                Ok(x) => {
                    let data = match &*x {
                        XObject::Image(i) => i.inner.data(r),
                        XObject::Form(f) => f.stream.data(r),
                        XObject::Postscript(p) => p.data(r),
                    };
                    match data {
                        Ok(d) => format!("{}:{:016x}", d.len(), crate::engine::walker::h64(&d[..])),
                        Err(e) => format!("err:data:{}", errs::root_kind(&e)),
                    }
                }
            };
            out.push((name.as_str().to_string(), d));
        }
    }
    out
}

fn fail(key: &str, msg: String) -> Value {
    json!({"failure": {"key": format!("c20:{}", key), "msg": msg}})
}

/// Executed in a worker: import the given pages of the source into a new document, reload it, compare.
pub fn import_job(h: &Value, blob: &[u8]) -> Value {
    let pw = h["password"].as_str().and_then(from_hex).unwrap_or_default();
    let pages: Vec<u32> = h["pages"].as_array().map(|a| a.iter().filter_map(|x| x.as_u64()).map(|x| x as u32).collect()).unwrap_or_default();
    let mut labels: Vec<String> = Vec::new();
    let skip: Vec<String> = h["skip_categories"].as_array().map(|a| a.iter().filter_map(|x| x.as_str().map(|s| s.to_string())).collect()).unwrap_or_default();
    let res = panics::catch(|| -> Result<Value, pdf::error::PdfError> {
        let old = match FileOptions::cached().password(&pw).load(blob.to_vec()) {
            Ok(f) => f,
            Err(e) => return Ok(json!({"skipped": format!("source does not load: {}", errs::root_kind(&e))})),
        };
        let old_r = old.resolver();
        let mut src_pages = Vec::new();
        for &i in &pages {
            match old.get_page(i) {
                Ok(p) => src_pages.push(p),
                Err(e) => return Ok(json!({"skipped": format!("source page {} does not load: {}", i, errs::root_kind(&e))})),
            }
        }
        // what a viewer does with the same open source: decode the XObject streams, before or after the import
        let inspect = h["inspect"].as_u64().unwrap_or(0);
        // reference: the decoded streams of a separately loaded copy of the source
        let reference: Vec<Vec<(String, String)>> = match FileOptions::uncached().password(&pw).load(blob.to_vec()) {
            Ok(f) => pages.iter().map(|&i| f.get_page(i).map(|p| decoded_xobjects(&f.resolver(), &p)).unwrap_or_default()).collect(),
            Err(_) => vec![],
        };
        if inspect == 1 {
            labels.push("source-inspected-before-import".into());
            for p in &src_pages {
                let _ = decoded_xobjects(&old_r, p);
            }
        }
        // ---- import
        let mut builder = PdfBuilder::new(FileOptions::cached());
        let mut new_pages = Vec::new();
        {
            let mut importer = Importer::new(old.resolver(), &mut builder.storage);
            for p in &src_pages {
                match PageBuilder::clone_page(p, &mut importer) {
                    Ok(b) => new_pages.push(b),
                    // the property speaks about imports that succeed
                    Err(e) => return Ok(json!({"skipped": format!("import refused: {}", errs::root_kind(&e)), "import_refused": true})),
                }
            }
        }
        let bytes = match builder.build(CatalogBuilder::from_pages(new_pages)) {
            Ok(b) => {
                if let Ok(path) = std::env::var("VH_C20_DUMP") {
                    let _ = std::fs::write(path, &b);
                }
                b
            }
            Err(e) => return Ok(json!({"skipped": format!("build refused: {}", errs::root_kind(&e)), "import_refused": true})),
        };
        // ---- every reference of the new document points into the new document
        match Reader::load(&bytes) {
            Err(m) => return Ok(fail("new-document-unreadable", format!("independent reader: {}", m))),
            Ok(rd) => {
                if let Some(p) = rd.validate().into_iter().find(|m| m.contains("refers to object") || m.contains("points at offset") || m.contains("/Length")) {
                    let key = if p.contains("refers to object") { "dangling-reference-in-new-document" } else if p.contains("/Length") { "new-document-stream-length" } else { "new-document-xref-entry" };
                    return Ok(fail(key, p));
                }
            }
        }
        let new = match FileOptions::cached().load(bytes.clone()) {
            Ok(f) => f,
            Err(e) => return Ok(fail(&format!("new-document-does-not-load:{}", errs::root_kind(&e)), format!("{:?}", e))),
        };
        let new_r = new.resolver();
        if new.num_pages() as usize != src_pages.len() {
            return Ok(fail("page-count", format!("{} pages imported, new document has {}", src_pages.len(), new.num_pages())));
        }
        let mut shared_src: std::collections::HashMap<(String, String, u64), Vec<usize>> = Default::default();
        let mut new_refs: std::collections::HashMap<(usize, String, String), u64> = Default::default();
        for (k, sp) in src_pages.iter().enumerate() {
            let np = match new.get_page(k as u32) {
                Ok(p) => p,
                Err(e) => return Ok(fail("new-page-error", format!("page {}: {:?}", k, e))),
            };
            // boxes and rotation
            let (sm, nm) = (sp.media_box().ok(), np.media_box().ok());
            let (sc, nc) = (sp.crop_box().ok(), np.crop_box().ok());
            let r4 = |b: &Option<Rectangle>| b.map(|b| (b.left.to_bits(), b.bottom.to_bits(), b.right.to_bits(), b.top.to_bits()));
            if r4(&sm) != r4(&nm) || r4(&sc) != r4(&nc) || r4(&sp.trim_box) != r4(&np.trim_box) {
                return Ok(fail("boxes", format!("page {}: source media {:?} crop {:?} trim {:?}; new media {:?} crop {:?} trim {:?}", pages[k], sm, sc, sp.trim_box, nm, nc, np.trim_box)));
            }
            if sp.rotate != np.rotate {
                return Ok(fail("rotate", format!("page {}: {} vs {}", pages[k], sp.rotate, np.rotate)));
            }
            // operations
            let sops = match sp.contents.as_ref().map(|c| c.operations(&old_r)).transpose() {
                Ok(o) => o.unwrap_or_default(),
                Err(_) => return Ok(json!({"skipped": "source operations do not parse"})),
            };
            let nops = match np.contents.as_ref().map(|c| c.operations(&new_r)).transpose() {
                Ok(o) => o.unwrap_or_default(),
                Err(e) => return Ok(fail("new-operations-error", format!("page {}: {:?}", pages[k], e))),
            };
            // (references inside operands, e.g. an inline property list << /K 7 0 R >>, are renumbered by the import)
            fn unref(v: &Val) -> Val {
                match v {
                    Val::Ref(..) => Val::name("@reference"),
                    Val::Array(a) => Val::Array(a.iter().map(unref).collect()),
                    Val::Dict(d) => Val::Dict(d.iter().map(|(k, v)| (k.clone(), unref(v))).collect()),
                    o => o.clone(),
                }
            }
            let norm = |mut d: OpDesc| {
                d.args = d.args.iter().map(unref).collect();
                d
            };
            let a: Vec<OpDesc> = sops.iter().filter(|o| !matches!(o, Op::InlineImage { .. })).map(describe).map(norm).collect();
            let b: Vec<OpDesc> = nops.iter().filter(|o| !matches!(o, Op::InlineImage { .. })).map(describe).map(norm).collect();
            if let Some(d) = descs_equal(&a, &b) {
                return Ok(fail("operations", format!("page {}: {}", pages[k], d)));
            }
            // resources used by the operations
            let used = used_resources(&sops);
            if !used.is_empty() {
                labels.push("uses-named-resource".into());
            }
            let sres = raw_resources(&old_r, sp.get_ref().get_inner().id).unwrap_or_default();
            let nres = raw_resources(&new_r, np.get_ref().get_inner().id).unwrap_or_default();
            for (cat, name) in used {
                let Some(se) = raw_entry(&old_r, &sres, cat, &name) else { continue };
                labels.push(format!("resource/{}", cat));
                if let Primitive::Reference(x) = &se {
                    shared_src.entry((cat.to_string(), name.clone(), x.id)).or_default().push(k);
                }
                let Some(ne) = raw_entry(&new_r, &nres, cat, &name) else {
                    if skip.iter().any(|c| c == cat) {
                        // open finding for this resource category: counted, and the rest of the page is still compared
                        labels.push(format!("excluded-by-gate/resource-missing:{}", cat));
                        continue;
                    }
                    return Ok(fail(&format!("resource-missing:{}", cat), format!("page {}: the operations use /{} {} but the imported page has no such resource", pages[k], cat, name)));
                };
                if let Primitive::Reference(x) = &ne {
                    new_refs.insert((k, cat.to_string(), name.clone()), x.id);
                }
                let (mut b1, mut b2) = (4000usize, 4000usize);
                let sv = deep(&old_r, &se, &mut vec![], &mut b1);
                let nv = deep(&new_r, &ne, &mut vec![], &mut b2);
                if matches!(sv, Val::Stream(..)) {
                    labels.push("resource-with-stream".into());
                }
                if b1 > 0 && b2 > 0 {
                    if let Some(diff) = first_difference(&canon(&sv), &canon(&nv), "") {
                        return Ok(fail(&format!("resource-differs:{}", cat), format!("page {}: /{} {}: {}", pages[k], cat, name, diff)));
                    }
                }
            }
        }
        // the source still decodes as a separately loaded copy does, and the imported streams decode to the same data
        if inspect == 2 {
            labels.push("source-inspected-after-import".into());
        }
        if !reference.is_empty() {
            for (k, sp) in src_pages.iter().enumerate() {
                let now = decoded_xobjects(&old_r, sp);
                if now != reference[k] {
                    return Ok(fail("source-changed-by-import", format!("page {}: decoded XObject streams of the open source {:?}, of a fresh copy {:?}", pages[k], now, reference[k])));
                }
                if let Ok(np) = new.get_page(k as u32) {
                    let imported = decoded_xobjects(&new_r, &np);
                    for (name, want) in &reference[k] {
                        if want.starts_with("err") {
                            continue;
                        }
                        if let Some((_, got)) = imported.iter().find(|(n, _)| n == name) {
                            if got != want {
                                return Ok(fail("imported-stream-decodes-differently", format!("page {}: XObject {}: source decodes to {}, imported copy to {}", pages[k], name, want, got)));
                            }
                        }
                    }
                }
            }
        }
        // shared source objects are copied once
        for ((cat, name, _src_id), users) in shared_src.iter().filter(|(_, u)| u.len() >= 2) {
            labels.push("shared-resource".into());
            let ids: Vec<Option<&u64>> = users.iter().map(|k| new_refs.get(&(*k, cat.clone(), name.clone()))).collect();
            // (categories whose typed model holds the value inline, e.g. ExtGState, have no object to share)
            if ids.iter().all(|i| i.is_none()) {
                continue;
            }
            if ids.iter().any(|i| i.is_none()) || ids.windows(2).any(|w| w[0] != w[1]) {
                return Ok(fail("shared-object-copied-more-than-once", format!("/{} {} is one object in the source for pages {:?}, but the new document has objects {:?}", cat, name, users, ids)));
            }
        }
        Ok(json!({"ok": true}))
    });
    let mut reply = match res {
        Ok(Ok(v)) => v,
        Ok(Err(e)) => json!({"skipped": format!("error: {}", errs::root_kind(&e))}),
        Err(p) => json!({"failure": {"key": if p.in_lib { p.key() } else { format!("harness-{}", p.key()) }, "msg": format!("panic at {}:{} in {}: {}", p.file, p.line, p.func, p.msg)}}),
    };
    labels.sort();
    labels.dedup();
    reply["labels"] = json!(labels);
    reply
}

/// Where two canonical values differ first (entries that only state a default are ignored, see is_default_entry).
fn first_difference(a: &Canon, b: &Canon, path: &str) -> Option<String> {
    // /Filter and /DecodeParms may be given as a single value or as a one-element array: the same thing
    if path.ends_with("/Filter") || path.ends_with("/DecodeParms") {
        let unwrap1 = |c: &Canon| -> Canon {
            match c {
                Canon::Array(v) if v.len() == 1 => v[0].clone(),
                other => other.clone(),
            }
        };
        let (a1, b1) = (unwrap1(a), unwrap1(b));
        if a1 != *a || b1 != *b {
            return first_difference(&a1, &b1, &format!("{}[0]", path));
        }
    }
    match (a, b) {
        (Canon::Dict(x), Canon::Dict(y)) => dict_diff(x, y, path),
        (Canon::Stream(x, dx), Canon::Stream(y, dy)) => {
            if let Some(d) = dict_diff(x, y, path) {
                return Some(d);
            }
            if dx != dy {
                return Some(format!("{}: stream data differs ({} vs {} bytes)", path, dx.len(), dy.len()));
            }
            None
        }
        (Canon::Array(x), Canon::Array(y)) => {
            if x.len() != y.len() {
                return Some(format!("{}: array length {} vs {}", path, x.len(), y.len()));
            }
            x.iter().zip(y).enumerate().find_map(|(i, (p, q))| first_difference(p, q, &format!("{}[{}]", path, i)))
        }
        (p, q) if p == q => None,
        (p, q) => Some(format!("{}: source {:?}, imported {:?}", path, trunc(p), trunc(q))),
    }
}
fn trunc(c: &Canon) -> String {
    let s = crate::engine::val::show(c);
    s.chars().take(120).collect()
}
/// An entry that only spells out the specification's default (or an empty collection) carries no content:
/// the typed re-serialisation adds or drops such entries, which leaves the resource equal.
fn is_default_entry(path: &str, key: &[u8], v: &Canon) -> bool {
    let in_parms = path.contains("/DecodeParms");
    match (key, v) {
        (_, Canon::Dict(d)) if d.iter().all(|(k2, v2)| is_default_entry(&format!("{}/{}", path, String::from_utf8_lossy(key)), k2, v2)) => true,
        (_, Canon::Array(a)) if a.is_empty() => true,
        (b"FormType", Canon::Num(n)) => *n == 1.0,
        (b"ImageMask", Canon::Bool(false)) | (b"Interpolate", Canon::Bool(false)) => true,
        (b"Predictor", Canon::Num(n)) | (b"Colors", Canon::Num(n)) | (b"Columns", Canon::Num(n)) | (b"EarlyChange", Canon::Num(n)) if in_parms => *n == 1.0,
        (b"BitsPerComponent", Canon::Num(n)) if in_parms => *n == 8.0,
        // (one element per filter: null, or a dictionary that only states defaults)
        (b"DecodeParms", Canon::Array(a)) => a.iter().all(|x| matches!(x, Canon::Null) || matches!(x, Canon::Dict(d) if d.iter().all(|(k2, v2)| is_default_entry(&format!("{}/DecodeParms", path), k2, v2)))),
        // an optional /Type that states the obvious
        (b"Type", Canon::Name(n)) => matches!(n.as_slice(), b"XObject" | b"Font" | b"ExtGState" | b"FontDescriptor" | b"Pattern" | b"Encoding"),
        (b"F", Canon::Num(n)) | (b"Rotate", Canon::Num(n)) => *n == 0.0,
        // font descriptor metrics whose default is 0
        (b"Leading", Canon::Num(n)) | (b"XHeight", Canon::Num(n)) | (b"StemV", Canon::Num(n)) | (b"StemH", Canon::Num(n)) | (b"AvgWidth", Canon::Num(n)) | (b"MaxWidth", Canon::Num(n)) | (b"MissingWidth", Canon::Num(n)) if path.contains("FontDescriptor") => *n == 0.0,
        (b"DW", Canon::Num(n)) => *n == 1000.0,
        _ => false,
    }
}

fn dict_diff(x: &[(Vec<u8>, Canon)], y: &[(Vec<u8>, Canon)], path: &str) -> Option<String> {
    for (k, v) in x {
        let kp = format!("{}/{}", path, String::from_utf8_lossy(k));
        match y.iter().find(|(k2, _)| k2 == k) {
            None if is_default_entry(path, k, v) => {}
            None => return Some(format!("{}: entry lost by the import (source {})", kp, trunc(v))),
            Some((_, w)) => {
                if let Some(d) = first_difference(v, w, &kp) {
                    return Some(d);
                }
            }
        }
    }
    for (k, w) in y {
        if !x.iter().any(|(k2, _)| k2 == k) && !is_default_entry(path, k, w) {
            return Some(format!("{}/{}: entry invented by the import ({})", path, String::from_utf8_lossy(k), trunc(w)));
        }
    }
    None
}

pub fn check(data: &[u8], pw: &[u8], pages: &[u32], name: &str, skip: &[String], info: &mut CaseInfo) -> Result<(), Failure> {
    for inspect in 0..3u64 {
        check_mode(data, pw, pages, name, skip, inspect, info)?;
    }
    Ok(())
}

fn check_mode(data: &[u8], pw: &[u8], pages: &[u32], name: &str, skip: &[String], inspect: u64, info: &mut CaseInfo) -> Result<(), Failure> {
    let art = || json!({"source": Bytes::new(data), "password": Bytes::new(pw), "pages": pages, "name": name, "inspect": inspect});
    let header = json!({"kind": "import", "password": to_hex(pw), "pages": pages, "skip_categories": skip, "inspect": inspect});
    match isolate::request(&header, data, Duration::from_secs(60)) {
        Reply::Timeout { seconds } => Err(Failure::new("c20:import-does-not-return", format!("{} pages {:?}: no answer within {} s", name, pages, seconds), art())),
        Reply::Died { signal, code, stderr_tail } => {
            let what = if stderr_tail.contains("overflowed its stack") { "stack-overflow" } else if stderr_tail.contains("memory allocation") { "allocation-failure" } else { "abort" };
            Err(Failure::new(format!("c20:crash:{}", what), format!("{} pages {:?}: worker died (signal {:?}, code {:?}): {}", name, pages, signal, code, stderr_tail), art()))
        }
        Reply::Ok(r) => {
            if let Some(l) = r["labels"].as_array() {
                for x in l {
                    let l = x.as_str().unwrap_or("");
                    if let Some(g) = l.strip_prefix("excluded-by-gate/") {
                        info.excluded.push(g.to_string());
                    } else {
                        info.label(l.to_string());
                    }
                }
            }
            if let Some(f) = r.get("failure") {
                return Err(Failure::new(f["key"].as_str().unwrap_or("c20:?").to_string(), format!("{} pages {:?}: {}", name, pages, f["msg"].as_str().unwrap_or("")), art()));
            }
            if let Some(s) = r.get("skipped") {
                info.label(format!("skipped/{}", s.as_str().unwrap_or("").split(':').next().unwrap_or("")));
                info.nontrivial(false);
            } else {
                info.label("imported");
                info.nontrivial(info.labels.iter().any(|l| l == "uses-named-resource"));
            }
            if let Some(e) = r.get("harness_error") {
                return Err(Failure::new("harness-worker", e.to_string(), json!({})));
            }
            Ok(())
        }
    }
}

pub fn replay(_ctx: &Ctx, _check: &str, art: &Value, info: &mut CaseInfo) -> Result<(), Failure> {
    let data: Bytes = serde_json::from_value(art["source"].clone()).map_err(|e| Failure::new("harness-bad-artifact", e.to_string(), json!({})))?;
    let pw: Bytes = serde_json::from_value(art["password"].clone()).unwrap_or_default();
    let pages: Vec<u32> = serde_json::from_value(art["pages"].clone()).unwrap_or_default();
    check(&data, &pw, &pages, art["name"].as_str().unwrap_or("replay"), &[], info)
}

pub const GATED: [&str; 4] = ["ColorSpace", "Pattern", "Shading", "Properties"];

pub fn run(ctx: &Ctx) {
    let files = corpus::load(&ctx.verif_dir, false);
    let skip: Vec<String> = GATED.iter().filter(|c| ctx.known.is_open("C20", &format!("c20:resource-missing:{}", c))).map(|c| c.to_string()).collect();
    // focused probes for the gated categories: a page whose content names a resource of that category
    for cat in GATED {
        ctx.run_one("probe-resource-category", cat, |info| {
            let file = probe_document(cat);
            info.nontrivial(true);
            check(&file, b"", &[0], &format!("probe-{}", cat), &[], info)
        });
    }
    // 1. every page of every corpus file alone, and small ordered subsets
    let mut jobs: Vec<(usize, Vec<u32>)> = Vec::new();
    for (fi, f) in files.iter().enumerate() {
        let n = match FileOptions::uncached().password(&f.password).load(f.data.clone()) {
            Ok(file) => file.num_pages().min(ctx.tier.pick(6, 40) as u32),
            Err(_) => 0,
        };
        for i in 0..n {
            jobs.push((fi, vec![i]));
        }
        for i in 0..n.min(3) {
            for j in 0..n.min(3) {
                if i != j {
                    jobs.push((fi, vec![i, j]));
                }
            }
        }
        if n >= 1 {
            jobs.push((fi, vec![0, 0]));
        }
    }
    ctx.run_enum(
        "corpus-pages",
        jobs.len() as u64,
        |k| jobs[k as usize].clone(),
        |(fi, pages), info| {
            let f = &files[*fi];
            info.label(format!("file/{}", f.name));
            info.distinct((&f.name, pages));
            info.sample = Some(json!({"file": f.name, "pages": pages}));
            check(&f.data, &f.password, pages, &f.name, &skip, info)
        },
    );
    // 1b. hostile sources: C14's typed fragments (a form listed in its own resources, colour spaces and fonts that refer
    //     to each other ...), its structural cases and the regression corpus: an import may be refused, it must not
    //     panic, abort or run away
    let mut hostile: Vec<(String, Vec<u8>)> = Vec::new();
    for f in crate::props::c14::fragments() {
        hostile.push((format!("fragment/{}", f.name), crate::props::c14::write_fragment(&f, &f.objects)));
    }
    for (name, bytes) in crate::props::c14::structural_cases() {
        if name.starts_with("hostile-corpus/") || name.starts_with("object-is-reference/") {
            hostile.push((name, bytes));
        }
    }
    // typed reference cycles and an object copied through two kinds of reference
    {
        use crate::engine::val::Val;
        use crate::engine::writer::Writer;
        let n = |x: &str| Val::name(x);
        let r = |x: u64| Val::Ref(x, 0);
        let rect = Val::Array(vec![Val::Int(0), Val::Int(0), Val::Int(10), Val::Int(10)]);
        for (label, res, content, extra) in [
            ("image-own-smask", Val::dict(vec![("XObject", Val::dict(vec![("Im", r(7))]))]), &b"/Im Do"[..], vec![(7u64, Val::Stream(vec![(Bytes::from("Type"), n("XObject")), (Bytes::from("Subtype"), n("Image")), (Bytes::from("Width"), Val::Int(1)), (Bytes::from("Height"), Val::Int(1)), (Bytes::from("ColorSpace"), n("DeviceGray")), (Bytes::from("BitsPerComponent"), Val::Int(8)), (Bytes::from("SMask"), r(7))], Bytes(vec![0])))]),
            ("image-smask-pair", Val::dict(vec![("XObject", Val::dict(vec![("Im", r(7))]))]), &b"/Im Do"[..], vec![
                (7u64, Val::Stream(vec![(Bytes::from("Type"), n("XObject")), (Bytes::from("Subtype"), n("Image")), (Bytes::from("Width"), Val::Int(1)), (Bytes::from("Height"), Val::Int(1)), (Bytes::from("ColorSpace"), n("DeviceGray")), (Bytes::from("BitsPerComponent"), Val::Int(8)), (Bytes::from("SMask"), r(8))], Bytes(vec![0]))),
                (8u64, Val::Stream(vec![(Bytes::from("Type"), n("XObject")), (Bytes::from("Subtype"), n("Image")), (Bytes::from("Width"), Val::Int(1)), (Bytes::from("Height"), Val::Int(1)), (Bytes::from("ColorSpace"), n("DeviceGray")), (Bytes::from("BitsPerComponent"), Val::Int(8)), (Bytes::from("SMask"), r(7))], Bytes(vec![1]))),
            ]),
            ("form-in-own-resources", Val::dict(vec![("XObject", Val::dict(vec![("Fm", r(7))]))]), &b"/Fm Do"[..], vec![(7u64, Val::Stream(vec![(Bytes::from("Type"), n("XObject")), (Bytes::from("Subtype"), n("Form")), (Bytes::from("BBox"), rect.clone()), (Bytes::from("Resources"), Val::dict(vec![("XObject", Val::dict(vec![("Self", r(7))]))]))], Bytes(b"/Self Do".to_vec())))]),
            ("property-list-inline-and-by-name", Val::dict(vec![("Properties", Val::dict(vec![("MC0", r(7))]))]), &b"/Span << /K 7 0 R >> BDC EMC /Span /MC0 BDC EMC"[..], vec![(7u64, Val::dict(vec![("Type", n("OCG")), ("Name", Val::str(b"L"))]))]),
            ("font-through-gs-and-type0", Val::dict(vec![("ExtGState", Val::dict(vec![("G", Val::dict(vec![("Font", Val::Array(vec![r(8), Val::Int(10)]))]))])), ("Font", Val::dict(vec![("F0", r(7))]))]), &b"/G gs BT /F0 10 Tf (x) Tj ET"[..], vec![
                (7u64, Val::dict(vec![("Type", n("Font")), ("Subtype", n("Type0")), ("BaseFont", n("T")), ("Encoding", n("Identity-H")), ("DescendantFonts", Val::Array(vec![r(8)]))])),
                (8u64, Val::dict(vec![("Type", n("Font")), ("Subtype", n("CIDFontType2")), ("BaseFont", n("T")), ("CIDSystemInfo", Val::dict(vec![("Registry", Val::str(b"Adobe")), ("Ordering", Val::str(b"Identity")), ("Supplement", Val::Int(0))])), ("FontDescriptor", Val::dict(vec![("Type", n("FontDescriptor")), ("FontName", n("T")), ("Flags", Val::Int(4)), ("FontBBox", rect.clone()), ("ItalicAngle", Val::Int(0))]))])),
            ]),
        ] {
            let mut w = Writer::new(b"", "1.5");
            w.obj(1, 0, &Val::dict(vec![("Type", n("Catalog")), ("Pages", r(2))]));
            w.obj(2, 0, &Val::dict(vec![("Type", n("Pages")), ("Kids", Val::Array(vec![r(3), r(4)])), ("Count", Val::Int(2))]));
            for pg in [3u64, 4] {
                w.obj(pg, 0, &Val::dict(vec![("Type", n("Page")), ("Parent", r(2)), ("MediaBox", rect.clone()), ("Resources", res.clone()), ("Contents", r(5))]));
            }
            w.stream_obj(5, 0, &[], content);
            for (num, v) in extra {
                match v {
                    Val::Stream(dct, data) => {
                        w.stream_obj(num, 0, &dct, &data);
                    }
                    v => {
                        w.obj(num, 0, &v);
                    }
                }
            }
            w.free(0, 0, 65535);
            w.xref_table(9, &[(Bytes::from("Root"), r(1))], false);
            hostile.push((format!("typed-cycle/{}", label), w.finish()));
        }
    }
    ctx.run_enum(
        "hostile-sources",
        hostile.len() as u64 * 2,
        |k| k as usize,
        |k, info| {
            let (name, data) = &hostile[*k / 2];
            let pages: Vec<u32> = if *k % 2 == 0 { vec![0] } else { vec![0, 1, 0] };
            info.label("hostile-source");
            info.distinct((name, &pages));
            let r = check(data, b"", &pages, name, &skip, info);
            info.nontrivial(true);
            r
        },
    );
    // 2. generated documents (shared fonts/XObjects between pages, nested forms, compressed and encrypted sources)
    let cases = ctx.tier.pick(400, 30_000);
    ctx.run_cases(
        "generated-documents",
        cases,
        || (docgen::spec_strategy(), proptest::collection::vec(0u32..3, 1..4)),
        |(spec, sel), info| {
            let b = docgen::build(spec);
            let pages: Vec<u32> = sel.iter().map(|s| s % b.n_pages as u32).collect();
            for l in &b.labels {
                if l.starts_with("encrypt/") || l.starts_with("storage/") {
                    info.label(l.clone());
                }
            }
            info.distinct((&b.file, &pages));
            info.sample = Some(json!({"generated": b.labels, "pages": pages}));
            check(&b.file, &b.password, &pages, "generated", &skip, info)
        },
    );
}

/// A one-page document whose content uses one named resource of the given category.
pub fn probe_document(cat: &str) -> Vec<u8> {
    use crate::engine::writer::Writer;
    let n = Val::name;
    let r = |x: u64| Val::Ref(x, 0);
    let (content, res): (&[u8], Val) = match cat {
        "ColorSpace" => (b"/CS1 cs 0.5 sc 0 0 10 10 re f", Val::dict(vec![("ColorSpace", Val::dict(vec![("CS1", Val::Array(vec![n("Indexed"), n("DeviceRGB"), Val::Int(1), Val::str(&[0, 0, 0, 255, 255, 255])]))]))])),
        "Pattern" => (b"/Pattern cs /P1 scn 0 0 10 10 re f", Val::dict(vec![("Pattern", Val::dict(vec![("P1", r(6))]))])),
        "Shading" => (b"/Sh1 sh", Val::dict(vec![("Shading", Val::dict(vec![("Sh1", Val::dict(vec![("ShadingType", Val::Int(2)), ("ColorSpace", n("DeviceGray")), ("Coords", Val::Array(vec![Val::Int(0), Val::Int(0), Val::Int(1), Val::Int(1)])), ("Function", Val::dict(vec![("FunctionType", Val::Int(2)), ("Domain", Val::Array(vec![Val::Int(0), Val::Int(1)])), ("N", Val::Int(1))]))]))]))])),
        _ => (b"/Tag /MC1 BDC EMC", Val::dict(vec![("Properties", Val::dict(vec![("MC1", Val::dict(vec![("Kind", n("Layer"))]))]))])),
    };
    let mut w = Writer::new(b"", "1.4");
    w.obj(1, 0, &Val::dict(vec![("Type", n("Catalog")), ("Pages", r(2))]));
    w.obj(2, 0, &Val::dict(vec![("Type", n("Pages")), ("Kids", Val::Array(vec![r(3)])), ("Count", Val::Int(1))]));
    w.obj(3, 0, &Val::dict(vec![("Type", n("Page")), ("Parent", r(2)), ("MediaBox", Val::Array(vec![Val::Int(0), Val::Int(0), Val::Int(100), Val::Int(100)])), ("Resources", res), ("Contents", r(4))]));
    w.stream_obj(4, 0, &[], content);
    w.stream_obj(6, 0, &[(Bytes::from("Type"), n("Pattern")), (Bytes::from("PatternType"), Val::Int(1)), (Bytes::from("PaintType"), Val::Int(1)), (Bytes::from("TilingType"), Val::Int(1)), (Bytes::from("BBox"), Val::Array(vec![Val::Int(0), Val::Int(0), Val::Int(5), Val::Int(5)])), (Bytes::from("XStep"), Val::Int(5)), (Bytes::from("YStep"), Val::Int(5)), (Bytes::from("Resources"), Val::dict(vec![]))], b"0 0 2 2 re f");
    w.free(0, 0, 65535);
    w.xref_table(7, &[(Bytes::from("Root"), r(1))], false);
    w.finish()
}

pub const RULE: &str = "cases = (source document, ordered list of 1-3 page indices, repeats allowed): every page of every corpus file alone and in small ordered subsets, and pages of generated documents (pages sharing fonts, images and a form XObject with its own resources, object streams, encryption); the pages are imported with one Importer into a PdfBuilder document, built, and reloaded - all inside a worker process; oracle (only when import and build return Ok) = page count; boxes and rotation equal; operation sequences equal (C08 equality); for every resource name the operations use (ExtGState, Font, XObject, ColorSpace, Pattern, Shading, Properties) the imported resource with references followed (dictionaries and raw stream data) equals the source's; the independent reader finds no dangling reference in the new file; a source object shared by two imported pages is one object in the new file; the worker neither panics, dies nor times out; non-trivial = the page's operations use a named resource; distinct by (source, pages)";
