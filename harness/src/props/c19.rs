//! C19 — glyph widths and Unicode maps follow the font dictionaries exactly.
use crate::engine::bytes::Bytes;
use crate::engine::errs;
use crate::engine::gen;
use crate::engine::open::open;
use crate::engine::panics;
use crate::engine::runner::{panic_failure, CaseInfo, Ctx, Failure};
use crate::engine::val::Val;
use crate::engine::writer::Writer;
use crate::with_file;
use pdf::font::{write_cmap, Font, ToUnicodeMap};
use pdf::object::{Ref, Resolve};
use proptest::prelude::*;
use serde::{Deserialize, Serialize};
use serde_json::json;
use std::collections::BTreeMap;

#[derive(Clone, Debug, Serialize, Deserialize)]
pub struct FontFile {
    /// the /W array (None for a simple font)
    pub w: Option<Val>,
    pub w_sub_indirect: Vec<Val>,
    pub dw: Option<f64>,
    /// simple font: FirstChar and Widths
    pub simple: Option<(i64, Vec<f64>)>,
    /// /MissingWidth of the font descriptor (simple fonts; absent = 0)
    #[serde(default)]
    pub missing_width: Option<f64>,
    /// ToUnicode stream text
    pub cmap: Option<Bytes>,
    /// expected widths for the probed codes
    pub width_probes: Vec<(u32, f64)>,
    /// expected code -> text (exactly these entries)
    pub unicode: Option<Vec<(u16, String)>>,
    pub labels: Vec<String>,
}

fn name(s: &str) -> Val {
    Val::name(s)
}

fn build_file(f: &FontFile) -> Vec<u8> {
    let mut w = Writer::new(b"", "1.4");
    w.obj(1, 0, &Val::dict(vec![("Type", name("Catalog")), ("Pages", Val::Ref(2, 0))]));
    w.obj(2, 0, &Val::dict(vec![("Type", name("Pages")), ("Kids", Val::Array(vec![Val::Ref(3, 0)])), ("Count", Val::Int(1))]));
    w.obj(3, 0, &Val::dict(vec![("Type", name("Page")), ("Parent", Val::Ref(2, 0)), ("MediaBox", Val::Array(vec![Val::Int(0), Val::Int(0), Val::Int(10), Val::Int(10)]))]));
    let fd = Val::dict(vec![
        ("Type", name("FontDescriptor")),
        ("FontName", name("Test")),
        ("Flags", Val::Int(4)),
        ("FontBBox", Val::Array(vec![Val::Int(0), Val::Int(0), Val::Int(1000), Val::Int(1000)])),
        ("ItalicAngle", Val::Int(0)),
        ("Ascent", Val::Int(800)),
        ("Descent", Val::Int(-200)),
        ("StemV", Val::Int(80)),
    ]);
    let fd = match (fd, f.missing_width) {
        (Val::Dict(mut d), Some(m)) => {
            d.push((Bytes::from("MissingWidth"), num(m)));
            Val::Dict(d)
        }
        (fd, _) => fd,
    };
    w.obj(12, 0, &fd);
    if let Some((first, widths)) = &f.simple {
        let mut d = vec![("Type", name("Font")), ("Subtype", name("TrueType")), ("BaseFont", name("Test")), ("FirstChar", Val::Int(*first)), ("LastChar", Val::Int(*first + widths.len() as i64 - 1)), ("Widths", Val::Array(widths.iter().map(|x| num(*x)).collect())), ("FontDescriptor", Val::Ref(12, 0))];
        if f.cmap.is_some() {
            d.push(("ToUnicode", Val::Ref(13, 0)));
        }
        w.obj(10, 0, &Val::dict(d));
    } else {
        let mut d = vec![("Type", name("Font")), ("Subtype", name("Type0")), ("BaseFont", name("Test")), ("Encoding", name("Identity-H")), ("DescendantFonts", Val::Array(vec![Val::Ref(11, 0)]))];
        if f.cmap.is_some() {
            d.push(("ToUnicode", Val::Ref(13, 0)));
        }
        w.obj(10, 0, &Val::dict(d));
        let mut cd = vec![
            ("Type", name("Font")),
            ("Subtype", name("CIDFontType2")),
            ("BaseFont", name("Test")),
            ("CIDSystemInfo", Val::dict(vec![("Registry", Val::str(b"Adobe")), ("Ordering", Val::str(b"Identity")), ("Supplement", Val::Int(0))])),
            ("FontDescriptor", Val::Ref(12, 0)),
        ];
        if let Some(dw) = f.dw {
            cd.push(("DW", num(dw)));
        }
        if let Some(wv) = &f.w {
            cd.push(("W", wv.clone()));
        }
        w.obj(11, 0, &Val::dict(cd));
        for (i, sub) in f.w_sub_indirect.iter().enumerate() {
            w.obj(30 + i as u64, 0, sub);
        }
    }
    if let Some(c) = &f.cmap {
        w.stream_obj(13, 0, &[], c);
    }
    w.free(0, 0, 65535);
    w.xref_table(40, &[(Bytes::from("Root"), Val::Ref(1, 0))], false);
    w.finish()
}

fn num(x: f64) -> Val {
    if x.fract() == 0.0 && x.abs() < 1e6 {
        Val::Int(x as i64)
    } else {
        Val::Real(x)
    }
}

pub fn check(f: &FontFile) -> Result<(), Failure> {
    let art = || serde_json::to_value(f).unwrap();
    let file = build_file(f);
    let any = open(&file, false, false, b"").map_err(|e| Failure::new("harness-c19-load", format!("{:?}", e), art()))?;
    with_file!(any, doc => {
        let r = doc.resolver();
        let font = r.get(Ref::<Font>::from_id(10)).map_err(|e| Failure::new(format!("c19:font-load-error:{}", errs::root_kind(&e)), format!("{:?}", e), art()))?;
        if !f.width_probes.is_empty() {
            let widths = match panics::catch(|| font.widths(&r)) {
                Err(p) => return Err(panic_failure(&p, art())),
                Ok(Err(e)) => return Err(Failure::new(format!("c19:widths-error:{}", errs::root_kind(&e)), format!("{:?}", e), art())),
                Ok(Ok(None)) => return Err(Failure::new("c19:widths-none", "widths() returned None", art())),
                Ok(Ok(Some(w))) => w,
            };
            for (code, want) in &f.width_probes {
                let got = widths.get(*code as usize);
                if got != *want as f32 {
                    let kind = if f.simple.is_some() { "simple" } else { "cid" };
                    return Err(Failure::new(format!("c19:width-differs:{}", kind), format!("width of code {} is {}, the font dictionary assigns {} (W = {:?}, DW = {:?}, simple = {:?})", code, got, want, f.w, f.dw, f.simple.as_ref().map(|s| (s.0, s.1.len()))), art()));
                }
            }
        }
        if let Some(want) = &f.unicode {
            let map = match panics::catch(|| font.to_unicode(&r)) {
                Err(p) => return Err(panic_failure(&p, art())),
                Ok(None) => return Err(Failure::new("c19:to-unicode-none", "to_unicode() returned None", art())),
                Ok(Some(Err(e))) => return Err(Failure::new(format!("c19:to-unicode-error:{}", errs::root_kind(&e)), format!("{:?}", e), art())),
                Ok(Some(Ok(m))) => m,
            };
            let mut got: Vec<(u16, String)> = map.iter().map(|(k, v)| (k, v.to_string())).collect();
            got.sort();
            let mut want = want.clone();
            want.sort();
            if got != want {
                let first = want.iter().find(|e| !got.contains(e)).map(|e| format!("missing/wrong {:?} (got {:?})", e, map.get(e.0))).or_else(|| got.iter().find(|e| !want.contains(e)).map(|e| format!("extra {:?}", e))).unwrap_or_default();
                return Err(Failure::new("c19:unicode-map-differs", format!("{} entries read, {} expected; {}; cmap text = {:?}", got.len(), want.len(), first, f.cmap.as_ref().map(|c| Bytes::new(&c[..c.len().min(300)]))), art()));
            }
        }
    });
    Ok(())
}

// ------------------------------------------------------------------ generators

#[derive(Clone, Debug)]
pub struct Group {
    pub len: u16,
    pub range_form: bool,
    pub widths: Vec<u16>,
    pub indirect: bool,
}

#[derive(Clone, Debug)]
pub struct WCase {
    pub groups: Vec<Group>,
    /// gaps between consecutive ranges (in code order)
    pub gaps: Vec<u16>,
    /// permutation seeds: the order in which groups are written
    pub order: Vec<u16>,
    pub dw: Option<u16>,
    pub start: u16,
    pub probes: Vec<u16>,
    pub real_widths: bool,
}

pub fn render_w(c: &WCase) -> FontFile {
    // lay the groups out over disjoint code ranges
    let mut labels = Vec::new();
    let mut code = c.start as u32 % 2000;
    let mut placed: Vec<(u32, u32, Vec<f64>, bool, bool)> = Vec::new(); // (first, last, widths, range_form, indirect)
    for (i, g) in c.groups.iter().enumerate() {
        code += c.gaps.get(i).copied().unwrap_or(0) as u32 % 400;
        let len = 1 + (g.len as u32 % 8);
        let first = code;
        let last = code + len - 1;
        if last > 65535 {
            break;
        }
        let ws: Vec<f64> = if g.range_form {
            vec![wval(g.widths.first().copied().unwrap_or(500), c.real_widths); len as usize]
        } else {
            (0..len as usize).map(|k| wval(g.widths.get(k).copied().unwrap_or((k * 13 + 250) as u16), c.real_widths)).collect()
        };
        placed.push((first, last, ws, g.range_form, g.indirect && !g.range_form));
        code = last + 1;
    }
    // boundary placements
    if c.start % 5 == 0 && placed.last().map(|p| p.1 < 65535).unwrap_or(true) {
        placed.push((65535, 65535, vec![777.0], c.start % 2 == 0, false));
        labels.push("group-at-65535".to_string());
    }
    let model: BTreeMap<u32, f64> = placed.iter().flat_map(|(f, _, ws, _, _)| ws.iter().enumerate().map(move |(k, w)| (*f + k as u32, *w))).collect();
    // write order
    let mut idx: Vec<usize> = (0..placed.len()).collect();
    for (k, o) in c.order.iter().enumerate() {
        if idx.len() > 1 {
            let a = k % idx.len();
            let b = gen::pick_index(*o, idx.len());
            idx.swap(a, b);
        }
    }
    let ascending = idx.windows(2).all(|w| w[0] < w[1]);
    let mut w: Vec<Val> = Vec::new();
    let mut subs = Vec::new();
    // classify growth cases as the reader will meet them
    let (mut lo, mut hi): (Option<u32>, Option<u32>) = (None, None);
    for &i in &idx {
        let (first, last, ws, range_form, indirect) = &placed[i];
        match (lo, hi) {
            (None, _) => labels.push("growth/empty".into()),
            (Some(l), Some(h)) => {
                if *first == h + 1 {
                    labels.push("growth/append".into());
                } else if *first > h + 1 {
                    labels.push("growth/gap".into());
                } else if *last < l {
                    labels.push("growth/prepend".into());
                } else {
                    labels.push("growth/inside".into());
                }
            }
            _ => {}
        }
        lo = Some(lo.map(|l| l.min(*first)).unwrap_or(*first));
        hi = Some(hi.map(|h| h.max(*last)).unwrap_or(*last));
        w.push(Val::Int(*first as i64));
        if *range_form {
            w.push(Val::Int(*last as i64));
            w.push(num(ws[0]));
            labels.push("form/range".into());
        } else if *indirect {
            w.push(Val::Ref(30 + subs.len() as u64, 0));
            subs.push(Val::Array(ws.iter().map(|x| num(*x)).collect()));
            labels.push("form/indirect-array".into());
        } else {
            w.push(Val::Array(ws.iter().map(|x| num(*x)).collect()));
            labels.push("form/array".into());
        }
    }
    if placed.len() >= 3 && !ascending {
        labels.push("order/non-ascending>=3-groups".into());
    }
    let dw = c.dw.map(|d| (d % 2000) as f64);
    let default = dw.unwrap_or(1000.0);
    // probes: every boundary +-1, 0, 65535, random
    let mut codes: Vec<u32> = vec![0, 1, 65535, 65534];
    for (f, l, _, _, _) in &placed {
        for c in [f.saturating_sub(1), *f, f + 1, l.saturating_sub(1), *l, l + 1] {
            if c <= 65535 {
                codes.push(c);
            }
        }
    }
    codes.extend(c.probes.iter().map(|p| *p as u32));
    codes.sort();
    codes.dedup();
    let width_probes = codes.into_iter().map(|c| (c, model.get(&c).copied().unwrap_or(default))).collect();
    labels.sort();
    labels.dedup();
    FontFile { w: Some(Val::Array(w)), w_sub_indirect: subs, dw, simple: None, missing_width: None, cmap: None, width_probes, unicode: None, labels }
}

fn wval(x: u16, real: bool) -> f64 {
    if real {
        ((x % 4000) as f64) / 4.0
    } else {
        (x % 1500) as f64
    }
}

fn w_strategy() -> impl Strategy<Value = WCase> {
    (
        proptest::collection::vec((any::<u16>(), any::<bool>(), proptest::collection::vec(any::<u16>(), 0..8), prop::bool::weighted(0.2)).prop_map(|(len, range_form, widths, indirect)| Group { len, range_form, widths, indirect }), 0..13),
        proptest::collection::vec(prop_oneof![3 => Just(0u16), 2 => 1u16..5, 2 => any::<u16>()], 13),
        proptest::collection::vec(any::<u16>(), 0..13),
        proptest::option::of(any::<u16>()),
        any::<u16>(),
        proptest::collection::vec(any::<u16>(), 0..6),
        any::<bool>(),
    )
        .prop_map(|(groups, gaps, order, dw, start, probes, real_widths)| WCase { groups, gaps, order, dw, start, probes, real_widths })
}

#[derive(Clone, Debug)]
pub struct MapCase {
    pub entries: Vec<(u16, Vec<u32>)>,
    pub runs: Vec<(u16, u8, Vec<u32>)>,
}

fn text_of(cps: &[u32]) -> String {
    let s: String = cps.iter().filter_map(|c| char::from_u32(*c)).filter(|c| *c != '\0').collect();
    if s.is_empty() {
        "x".to_string()
    } else {
        s
    }
}
fn codepoint() -> impl Strategy<Value = u32> {
    prop_oneof![4 => 0x20u32..0x7f, 3 => 0xa0u32..0xd7ff, 1 => 0xe000u32..0xffff, 2 => 0x10000u32..0x10ffff, 1 => Just(0x1F600u32)]
}
fn map_strategy() -> impl Strategy<Value = MapCase> {
    // codes are biased towards the ends of the code space and the one-byte / two-byte boundary
    let code = || prop_oneof![6 => any::<u16>(), 2 => 65520u16..=65535, 1 => 0u16..4, 1 => 250u16..262];
    (proptest::collection::vec((code(), proptest::collection::vec(codepoint(), 1..4)), 0..20), proptest::collection::vec((code(), 2u8..12, proptest::collection::vec(codepoint(), 0..3)), 0..5)).prop_map(|(entries, runs)| MapCase { entries, runs })
}

/// model map from a MapCase: single entries plus runs of consecutive codes (each with its own text)
fn model_map(c: &MapCase) -> BTreeMap<u16, String> {
    let mut m = BTreeMap::new();
    for (code, cps) in &c.entries {
        m.insert(*code, text_of(cps));
    }
    for (start, len, cps) in &c.runs {
        for k in 0..*len as u32 {
            let code = *start as u32 + k;
            if code > 65535 {
                break;
            }
            // vary the text per code so that entries are distinguishable
            let mut t = if cps.is_empty() { String::new() } else { text_of(cps) };
            // even-length runs get consecutive final characters (the increment form applies), odd ones do not
            let step = if len % 2 == 0 { 1 } else { 3 };
            if len % 4 == 0 {
                // the run's last text ends in byte 0xFF (the increment form may run up to, not past, 0xFF)
                t.push(char::from_u32(0x100 - *len as u32 + k).unwrap());
            } else if len % 4 == 2 {
                // consecutive texts whose last UTF-16 unit passes from ..FF to ..00 inside the run (a writer that uses the
                // increment form must split there); BMP or, for odd starts, a supplementary plane (low surrogate crosses)
                let h = 1 + (*start as u32 % 5);
                let base = if start % 2 == 0 { 0x100 * h } else { 0x10000 + 0x100 * h };
                t.push(char::from_u32(base - *len as u32 / 2 + k).unwrap());
            } else {
                t.push(char::from_u32(0x41 + ((k * step) % 50)).unwrap());
            }
            m.insert(code as u16, t);
        }
    }
    m
}

fn utf16_hex(s: &str) -> String {
    let mut out = String::new();
    for u in s.encode_utf16() {
        out.push_str(&format!("{:04X}", u));
    }
    out
}

/// An independent, conformant CMap text for `m` using bfchar and both bfrange forms.
pub fn cmap_text(m: &BTreeMap<u16, String>, tape: &[u8], one_byte: bool) -> (Vec<u8>, Vec<String>) {
    let mut t = crate::engine::tape::Tape::new(tape);
    let mut labels = Vec::new();
    let mut out = String::from("/CIDInit /ProcSet findresource begin\n12 dict begin\nbegincmap\n/CIDSystemInfo << /Registry (Adobe) /Ordering (UCS) /Supplement 0 >> def\n/CMapName /Adobe-Identity-UCS def\n/CMapType 2 def\n1 begincodespacerange\n");
    out.push_str(if one_byte { "<00> <FF>\n" } else { "<0000> <FFFF>\n" });
    out.push_str("endcodespacerange\n");
    let code = |c: u16| if one_byte { format!("<{:02X}>", c) } else { format!("<{:04X}>", c) };
    // split into blocks: runs of consecutive codes whose texts allow form 1 (same prefix, last UTF-16 unit's low byte increasing by one, no overflow), else form 2 or bfchar
    let items: Vec<(u16, String)> = m.iter().map(|(k, v)| (*k, v.clone())).collect();
    let mut chars: Vec<(u16, String)> = Vec::new();
    let mut ranges: Vec<String> = Vec::new();
    let mut i = 0;
    while i < items.len() {
        let mut j = i;
        while j + 1 < items.len() && items[j + 1].0 == items[j].0 + 1 && (!one_byte || items[j + 1].0 <= 255) && j - i < 90 {
            j += 1;
        }
        if j > i && t.choose(4) != 0 {
            // try form 1: incrementing last byte
            let first_hex = utf16_hex(&items[i].1);
            let form1_ok = (i..=j).all(|k| {
                let h = utf16_hex(&items[k].1);
                let d = (k - i) as u32;
                h.len() == first_hex.len() && h[..h.len() - 2] == first_hex[..first_hex.len() - 2] && u32::from_str_radix(&h[h.len() - 2..], 16).unwrap() == u32::from_str_radix(&first_hex[first_hex.len() - 2..], 16).unwrap() + d
            });
            if form1_ok {
                ranges.push(format!("{} {} <{}>", code(items[i].0), code(items[j].0), first_hex));
                labels.push("bfrange/increment-form".to_string());
            } else {
                let arr: Vec<String> = (i..=j).map(|k| format!("<{}>", utf16_hex(&items[k].1))).collect();
                let sep = [" ", "\n", ""][t.choose(3)];
                ranges.push(format!("{} {} [{}]", code(items[i].0), code(items[j].0), arr.join(sep)));
                labels.push("bfrange/array-form".to_string());
            }
            i = j + 1;
        } else {
            if t.choose(5) == 1 {
                // a range of one code in the string form
                ranges.push(format!("{} {} <{}>", code(items[i].0), code(items[i].0), utf16_hex(&items[i].1)));
                labels.push("bfrange/one-code".to_string());
            } else {
                chars.push(items[i].clone());
            }
            i += 1;
        }
    }
    for block in chars.chunks(100) {
        out.push_str(&format!("{} beginbfchar\n", block.len()));
        for (c, s) in block {
            out.push_str(&format!("{} <{}>\n", code(*c), utf16_hex(s)));
        }
        out.push_str("endbfchar\n");
        labels.push("bfchar".to_string());
    }
    for block in ranges.chunks(100) {
        out.push_str(&format!("{} beginbfrange\n", block.len()));
        for r in block {
            out.push_str(r);
            out.push('\n');
        }
        out.push_str("endbfrange\n");
    }
    out.push_str("endcmap\nCMapName currentdict /CMap defineresource pop\nend\nend\n");
    labels.sort();
    labels.dedup();
    (out.into_bytes(), labels)
}

pub fn replay(_ctx: &Ctx, _check: &str, art: &serde_json::Value, info: &mut CaseInfo) -> Result<(), Failure> {
    let f: FontFile = serde_json::from_value(art.clone()).map_err(|e| Failure::new("harness-bad-artifact", e.to_string(), art.clone()))?;
    info.nontrivial(true);
    check(&f)
}

pub fn run(ctx: &Ctx) {
    let cases = ctx.tier.pick(6_000, 500_000);
    ctx.run_cases("cid-w-arrays", cases, w_strategy, |c, info| {
        let f = render_w(c);
        for l in &f.labels {
            info.label(l.clone());
        }
        info.nontrivial(f.labels.iter().any(|l| l == "order/non-ascending>=3-groups"));
        info.distinct(format!("{:?}{:?}", f.w, f.dw));
        info.sample = Some(json!({"W": format!("{:?}", f.w).chars().take(300).collect::<String>(), "DW": f.dw, "probes": f.width_probes.len()}));
        check(&f)
    });
    let scases = ctx.tier.pick(2_000, 100_000);
    ctx.run_cases(
        "simple-font-widths",
        scases,
        || (0i64..=255, proptest::collection::vec(0u16..2000, 0..=256), proptest::collection::vec(any::<u16>(), 0..6), proptest::option::weighted(0.6, 0u16..1500)),
        |(first, widths, probes, missing), info| {
            let missing_width = missing.map(|m| m as f64 / 2.0);
            if missing_width.is_some() {
                info.label("descriptor/MissingWidth");
            }
            let n = widths.len().min((256 - *first) as usize);
            let ws: Vec<f64> = widths[..n].iter().map(|w| *w as f64).collect();
            if ws.is_empty() {
                info.label("widths/empty");
            }
            let mut codes: Vec<u32> = vec![0, 255, 256, 1000, first.saturating_sub(1) as u32, *first as u32, (*first as u32) + ws.len() as u32, ((*first as u32) + ws.len() as u32).saturating_sub(1)];
            codes.extend(probes.iter().map(|p| (*p % 400) as u32));
            codes.sort();
            codes.dedup();
            let width_probes = codes
                .into_iter()
                .map(|c| {
                    let inside = c as i64 >= *first && ((c as i64 - *first) as usize) < ws.len();
                    (c, if inside { ws[(c as i64 - *first) as usize] } else { missing_width.unwrap_or(0.0) })
                })
                .collect();
            let f = FontFile { w: None, w_sub_indirect: vec![], dw: None, simple: Some((*first, ws)), missing_width, cmap: None, width_probes, unicode: None, labels: vec![] };
            info.nontrivial(n > 0);
            info.distinct((first, widths));
            check(&f)
        },
    );
    let mcases = ctx.tier.pick(4_000, 300_000);
    ctx.run_cases("write_cmap-roundtrip", mcases, map_strategy, |c, info| {
        let m = model_map(c);
        let map = ToUnicodeMap::create(m.iter().map(|(k, v)| (*k, v.as_str().into())));
        let text = match panics::catch(|| write_cmap(&map)) {
            Err(p) => return Err(panic_failure(&p, json!({}))),
            Ok(t) => t,
        };
        let has_run = m.keys().zip(m.keys().skip(1)).any(|(a, b)| *b == *a + 1);
        info.label(if has_run { "map/has-run-of-consecutive-codes" } else { "map/no-run" });
        if m.values().any(|v| v.chars().any(|c| c as u32 > 0xffff)) {
            info.label("map/supplementary-plane");
        }
        if m.values().any(|v| v.chars().count() > 1) {
            info.label("map/multi-char");
        }
        info.nontrivial(has_run);
        info.distinct(&text);
        info.sample = Some(json!({"entries": m.len(), "written": text.chars().take(300).collect::<String>()}));
        let f = FontFile { w: None, w_sub_indirect: vec![], dw: None, simple: None, missing_width: None, cmap: Some(Bytes(text.into_bytes())), width_probes: vec![], unicode: Some(m.into_iter().collect()), labels: vec![] };
        check(&f)
    });
    ctx.run_cases(
        "conformant-cmap-texts",
        mcases,
        || (map_strategy(), gen::tape(40), prop::bool::weighted(0.2)),
        |(c, tape, one_byte), info| {
            let mut m = model_map(c);
            if *one_byte {
                m = m.into_iter().filter(|(k, _)| *k <= 255).collect();
                info.label("codes/1-byte");
            } else {
                info.label("codes/2-byte");
            }
            let (text, labels) = cmap_text(&m, tape, *one_byte);
            for l in &labels {
                info.label(l.clone());
            }
            info.nontrivial(labels.iter().any(|l| l.starts_with("bfrange")));
            info.distinct(&text);
            info.sample = Some(json!({"entries": m.len(), "text_tail": String::from_utf8_lossy(&text[text.len().saturating_sub(300)..])}));
            let f = FontFile { w: None, w_sub_indirect: vec![], dw: None, simple: None, missing_width: None, cmap: Some(Bytes(text)), width_probes: vec![], unicode: Some(m.into_iter().collect()), labels };
            check(&f)
        },
    );
}

pub const RULE: &str = "cases = (a) composite fonts whose /W array has 0-13 groups over disjoint code ranges in 0..65535 written in any order, in both forms (c [w...] incl. an indirect array, c1 c2 w), with or without /DW; queried at every range boundary +-1, 0, 65535 and random codes; (b) simple fonts with FirstChar 0-255, 0-256 widths and, in 60% of the cases, a /MissingWidth in the font descriptor (the width of every code outside the table); (c) maps u16 -> non-empty strings (BMP, supplementary planes, multi-character, runs of consecutive codes whose texts are unrelated, consecutive, consecutive up to a final byte 0xFF, or consecutive across a ..FF/..00 boundary, as one character or after a common prefix) written by write_cmap and read back; (d) independent conformant CMap texts (boilerplate, codespace ranges, bfchar, both bfrange forms incl. one-code ranges and increment runs ending in byte 0xFF, 1- and 2-byte codes, blocks <= 100); all read through a font object in a file written by the harness; oracle = model map / model widths; non-trivial = >=3 groups not in ascending order, a map with a run of consecutive codes, a text with a bfrange; distinct by array / text";
