//! C10 — documents built from scratch reload with the same pages and are valid PDF.
use crate::engine::bytes::Bytes;
use crate::engine::errs;
use crate::engine::panics;
use crate::engine::reader::Reader;
use crate::engine::runner::{panic_failure, CaseInfo, Ctx, Failure};
use crate::engine::val::{canon, from_primitive_nr, to_dict, to_primitive, Val};
use crate::engine::valgen;
use crate::props::c08::{describe, descs_equal, seq_strategy, OpDesc};
use pdf::build::{CatalogBuilder, PageBuilder, PdfBuilder};
use pdf::content::Op;
use pdf::file::FileOptions;
use pdf::font::Font;
use pdf::object::*;
use pdf::primitive::{Date, PdfString, Primitive, TimeRel};
use proptest::prelude::*;
use serde_json::json;

#[derive(Clone, Debug)]
pub struct PageSpec {
    pub ops: Vec<Op>,
    pub media: Option<[f32; 4]>,
    pub crop: Option<[f32; 4]>,
    pub trim: Option<[f32; 4]>,
    pub rotate: i32,
    pub fonts: Vec<(String, usize)>,
    pub gs: Vec<(String, f32)>,
    pub other: Vec<(Bytes, Val)>,
    pub metadata: Option<Val>,
    pub lgi: Option<Val>,
    pub vp: Option<Val>,
}

#[derive(Clone, Debug)]
pub struct InfoSpec {
    pub title: Option<Vec<u8>>,
    pub author: Option<Vec<u8>>,
    pub subject: Option<Vec<u8>>,
    pub keywords: Option<Vec<u8>>,
    pub creator: Option<Vec<u8>>,
    pub producer: Option<Vec<u8>>,
    pub creation: Option<(u16, u8, u8, u8, u8, u8, u8, u8, u8)>,
    pub modified: Option<(u16, u8, u8, u8, u8, u8, u8, u8, u8)>,
    pub trapped: Option<u8>,
}

#[derive(Clone, Debug)]
pub struct Case {
    pub pages: Vec<PageSpec>,
    pub nfonts: usize,
    pub info: Option<InfoSpec>,
    pub cached: bool,
    /// the file identifier given to PdfBuilder::id
    pub id: Option<(String, String)>,
}

fn rect(r: &[f32; 4]) -> Rectangle {
    Rectangle { left: r[0], bottom: r[1], right: r[2], top: r[3] }
}
fn rect_eq(a: &Option<Rectangle>, b: &Option<[f32; 4]>) -> bool {
    match (a, b) {
        (None, None) => true,
        (Some(a), Some(b)) => a.left == b[0] && a.bottom == b[1] && a.right == b[2] && a.top == b[3],
        _ => false,
    }
}
fn date(d: &(u16, u8, u8, u8, u8, u8, u8, u8, u8)) -> Date {
    Date { year: d.0, month: d.1, day: d.2, hour: d.3, minute: d.4, second: d.5, rel: [TimeRel::Earlier, TimeRel::Later, TimeRel::Universal][(d.6 % 3) as usize], tz_hour: if d.6 % 3 == 2 { 0 } else { d.7 }, tz_minute: if d.6 % 3 == 2 { 0 } else { d.8 } }
}
fn date_eq(a: &Option<Date>, b: &Option<(u16, u8, u8, u8, u8, u8, u8, u8, u8)>) -> bool {
    match (a, b) {
        (None, None) => true,
        (Some(a), Some(b)) => {
            let b = date(b);
            a.year == b.year && a.month == b.month && a.day == b.day && a.hour == b.hour && a.minute == b.minute && a.second == b.second && a.rel == b.rel && a.tz_hour == b.tz_hour && a.tz_minute == b.tz_minute
        }
        _ => false,
    }
}

fn test_font(k: usize) -> Val {
    Val::dict(vec![
        ("Type", Val::name("Font")),
        ("Subtype", Val::name(if k % 2 == 0 { "Type1" } else { "TrueType" })),
        ("BaseFont", Val::Name(Bytes(format!("Font{}", k).into_bytes()))),
        ("FirstChar", Val::Int(32)),
        ("LastChar", Val::Int(34)),
        ("Widths", Val::Array(vec![Val::Int(250 + k as i64), Val::Int(300), Val::Int(350)])),
    ])
}

pub fn check_case(c: &Case, info: &mut CaseInfo) -> Result<(), Failure> {
    let art = || json!({"case_debug": format!("{:?}", c).chars().take(6000).collect::<String>()});
    let fail = |key: &str, msg: String| Failure::new(format!("c10:{}", key), msg, art());
    let built: Result<Result<Vec<u8>, pdf::error::PdfError>, panics::PanicSig> = panics::catch(|| {
        macro_rules! go {
            ($opts:expr) => {{
                let mut builder = PdfBuilder::new($opts);
                let mut font_refs = Vec::new();
                for k in 0..c.nfonts {
                    let f = Font::from_primitive(to_primitive(&test_font(k)), &NoResolve)?;
                    font_refs.push(builder.storage.create(f)?);
                }
                let mut pages = Vec::new();
                for p in &c.pages {
                    let mut res = Resources::default();
                    for (name, k) in &p.fonts {
                        if let Some(fr) = font_refs.get(*k % font_refs.len().max(1)) {
                            res.fonts.insert(name.as_str().into(), Lazy::from(fr.clone()));
                        }
                    }
                    for (name, lw) in &p.gs {
                        let gs = GraphicsStateParameters::from_primitive(to_primitive(&Val::dict(vec![("Type", Val::name("ExtGState")), ("LW", Val::Real(*lw as f64))])), &NoResolve)?;
                        res.graphics_states.insert(name.as_str().into(), gs);
                    }
                    pages.push(PageBuilder {
                        ops: p.ops.clone(),
                        media_box: p.media.as_ref().map(rect),
                        crop_box: p.crop.as_ref().map(rect),
                        trim_box: p.trim.as_ref().map(rect),
                        resources: res,
                        rotate: p.rotate,
                        metadata: p.metadata.as_ref().map(to_primitive),
                        lgi: p.lgi.as_ref().map(to_primitive),
                        vp: p.vp.as_ref().map(to_primitive),
                        other: to_dict(&p.other),
                    });
                }
                if let Some(i) = &c.info {
                    let s = |v: &Option<Vec<u8>>| v.as_ref().map(|b| PdfString::new(b.as_slice().into()));
                    builder = builder.info(InfoDict {
                        title: s(&i.title),
                        author: s(&i.author),
                        subject: s(&i.subject),
                        keywords: s(&i.keywords),
                        creator: s(&i.creator),
                        producer: s(&i.producer),
                        creation_date: i.creation.as_ref().map(date),
                        mod_date: i.modified.as_ref().map(date),
                        trapped: i.trapped.map(|t| match t % 3 { 0 => Trapped::True, 1 => Trapped::False, _ => Trapped::Unknown }),
                    });
                }
                if let Some((a, b)) = &c.id {
                    builder = builder.id(a.clone(), b.clone());
                }
                builder.build(CatalogBuilder::from_pages(pages))
            }};
        }
        if c.cached {
            go!(FileOptions::cached())
        } else {
            go!(FileOptions::uncached())
        }
    });
    let bytes = match built {
        Err(p) => return Err(panic_failure(&p, art())),
        Ok(Err(e)) => return Err(fail(&format!("build-error:{}", errs::root_kind(&e)), format!("build failed: {:?}", e))),
        Ok(Ok(b)) => b,
    };
    if bytes.len() > 65_536 {
        info.label("file>64KiB");
    }
    info.sample = Some(json!({"pages": c.pages.len(), "file_len": bytes.len(), "ops_per_page": c.pages.iter().map(|p| p.ops.len()).collect::<Vec<_>>(), "info": c.info.is_some()}));
    let fail = |key: &str, msg: String| Failure::new(format!("c10:{}", key), msg, json!({"case_debug": format!("{:?}", c).chars().take(6000).collect::<String>(), "file": Bytes::new(&bytes[..])}));
    // (B) independent structural check
    match Reader::load(&bytes) {
        Err(m) => return Err(fail("structure:unreadable", format!("the independent reader cannot read the produced file: {}", m))),
        Ok(r) => {
            let problems = r.validate();
            if let Some(first) = problems.first() {
                let kind = if first.contains("refers to object") { "undefined-reference" } else if first.contains("/Size") { "size" } else if first.contains("/Length") { "stream-length" } else if first.contains("points at offset") { "entry-offset" } else { "other" };
                return Err(fail(&format!("structure:{}", kind), format!("{} structural problems, first: {}", problems.len(), first)));
            }
        }
    }
    // (A) reload with the library
    for reload_cached in [false, true] {
        let f = crate::engine::open::open(&bytes, reload_cached, false, b"").map_err(|e| fail(&format!("reload-error:{}", errs::root_kind(&e)), format!("{:?}", e)))?;
        crate::with_file!(f, file => {
            let r = file.resolver();
            if file.num_pages() as usize != c.pages.len() {
                return Err(fail("page-count", format!("{} pages given, {} after reload", c.pages.len(), file.num_pages())));
            }
            for (i, want) in c.pages.iter().enumerate() {
                let page = file.get_page(i as u32).map_err(|e| fail(&format!("page-error:{}", errs::root_kind(&e)), format!("page {}: {:?}", i, e)))?;
                if !rect_eq(&page.media_box, &want.media) || !rect_eq(&page.crop_box, &want.crop) || !rect_eq(&page.trim_box, &want.trim) {
                    return Err(fail("boxes", format!("page {}: boxes {:?} {:?} {:?}, given {:?} {:?} {:?}", i, page.media_box, page.crop_box, page.trim_box, want.media, want.crop, want.trim)));
                }
                if page.rotate != want.rotate {
                    return Err(fail("rotate", format!("page {}: rotate {} given {}", i, page.rotate, want.rotate)));
                }
                let other = from_primitive_nr(&Primitive::Dictionary(page.other.clone()));
                if canon(&other) != canon(&Val::Dict(want.other.clone())) {
                    return Err(fail("other-entries", format!("page {}: extra entries {:?}, given {:?}", i, other, want.other)));
                }
                for (got, given, what) in [(&page.metadata, &want.metadata, "metadata"), (&page.lgi, &want.lgi, "lgi"), (&page.vp, &want.vp, "vp")] {
                    let g = got.as_ref().map(from_primitive_nr).map(|v| canon(&v));
                    let w = given.as_ref().map(canon).filter(|c| *c != crate::engine::val::Canon::Null);
                    let g = g.filter(|c| *c != crate::engine::val::Canon::Null);
                    if g != w {
                        return Err(fail(what, format!("page {}: /{} {:?}, given {:?}", i, what, got, given)));
                    }
                }
                let res = page.resources().map_err(|e| fail("resources-error", format!("page {}: {:?}", i, e)))?;
                let mut fk: Vec<String> = res.fonts.keys().map(|k| k.as_str().to_string()).collect();
                fk.sort();
                let mut wk: Vec<String> = if c.nfonts > 0 { want.fonts.iter().map(|f| f.0.clone()).collect() } else { vec![] };
                wk.sort();
                wk.dedup();
                if fk != wk {
                    return Err(fail("resource-keys:fonts", format!("page {}: font keys {:?}, given {:?}", i, fk, wk)));
                }
                let mut gk: Vec<(String, Option<u32>)> = res.graphics_states.iter().map(|(k, v)| (k.as_str().to_string(), v.line_width.map(|f| f.to_bits()))).collect();
                gk.sort();
                let mut last: std::collections::BTreeMap<String, Option<u32>> = Default::default();
                for (k, lw) in &want.gs {
                    last.insert(k.clone(), Some(lw.to_bits()));
                }
                let wg: Vec<(String, Option<u32>)> = last.into_iter().collect();
                if gk != wg {
                    return Err(fail("resource-keys:graphics-states", format!("page {}: graphics states {:?}, given {:?}", i, gk, wg)));
                }
                for (name, _) in &res.fonts {
                    let f = res.fonts[name].load(&r).map_err(|e| fail("font-load-error", format!("page {} font {}: {:?}", i, name.as_str(), e)))?;
                    if f.name.is_none() {
                        return Err(fail("font-content", format!("page {} font {} lost its BaseFont", i, name.as_str())));
                    }
                }
                let got_ops = match page.contents.as_ref() {
                    Some(ct) => ct.operations(&r).map_err(|e| fail(&format!("operations-error:{}", errs::root_kind(&e)), format!("page {}: {:?}", i, e)))?,
                    None => vec![],
                };
                let a: Vec<OpDesc> = want.ops.iter().map(describe).collect();
                let b: Vec<OpDesc> = got_ops.iter().map(describe).collect();
                if let Some(d) = descs_equal(&a, &b) {
                    return Err(fail("operations", format!("page {}: {}", i, d)));
                }
            }
            if let Some((a, b)) = &c.id {
                let got: Vec<Vec<u8>> = file.trailer.id.iter().map(|s| s.as_bytes().to_vec()).collect();
                if got != vec![a.as_bytes().to_vec(), b.as_bytes().to_vec()] {
                    return Err(fail("file-identifier", format!("identifier given [{:?}, {:?}], the reloaded trailer has {:?}", a, b, got.iter().map(|g| String::from_utf8_lossy(g).to_string()).collect::<Vec<_>>())));
                }
            }
            match file.get_page(c.pages.len() as u32) {
                Ok(_) => return Err(fail("extra-page", "a page beyond the given ones exists".into())),
                Err(_) => {}
            }
            // information dictionary
            let got = file.trailer.info_dict.as_ref();
            match (&c.info, got) {
                (None, None) => {}
                (Some(w), Some(g)) => {
                    let s = |v: &Option<PdfString>| v.as_ref().map(|s| s.as_bytes().to_vec());
                    if s(&g.title) != w.title || s(&g.author) != w.author || s(&g.subject) != w.subject || s(&g.keywords) != w.keywords || s(&g.creator) != w.creator || s(&g.producer) != w.producer {
                        return Err(fail("info:strings", format!("info strings differ: got {:?}, given {:?}", g, w)));
                    }
                    if !date_eq(&g.creation_date, &w.creation) || !date_eq(&g.mod_date, &w.modified) {
                        return Err(fail("info:dates", format!("dates differ: got {:?} {:?}, given {:?} {:?}", g.creation_date, g.mod_date, w.creation.as_ref().map(date), w.modified.as_ref().map(date))));
                    }
                    let t = g.trapped.as_ref().map(|t| match t { Trapped::True => 0u8, Trapped::False => 1, Trapped::Unknown => 2 });
                    if t != w.trapped.map(|t| t % 3) {
                        return Err(fail("info:trapped", format!("{:?} vs {:?}", g.trapped, w.trapped)));
                    }
                }
                (w, g) => return Err(fail("info:presence", format!("info given: {}, info after reload: {}", w.is_some(), g.is_some()))),
            }
        });
    }
    Ok(())
}

fn boxs() -> impl Strategy<Value = [f32; 4]> {
    (-500i32..500, -500i32..500, 0i32..3000, 0i32..3000, 0u32..3).prop_map(|(a, b, w, h, k)| {
        let s = 10f32.powi(k as i32);
        [a as f32 / s, b as f32 / s, (a + w) as f32 / s, (b + h) as f32 / s]
    })
}
fn ascii_name() -> impl Strategy<Value = String> {
    valgen::name_string(6)
}
fn other_entries() -> impl Strategy<Value = Vec<(Bytes, Val)>> {
    proptest::collection::vec((valgen::name_bytes(8), valgen::val(2)), 0..4).prop_map(|d| {
        // keys the page model itself uses are not "extra" entries
        let reserved: [&[u8]; 14] = [b"Type", b"Parent", b"Resources", b"MediaBox", b"CropBox", b"TrimBox", b"Contents", b"Rotate", b"Metadata", b"LGIDict", b"VP", b"Annots", b"", b"Kids"];
        let mut seen = std::collections::HashSet::new();
        d.into_iter().filter(|(k, v)| !reserved.contains(&k.as_slice()) && *v != Val::Null && seen.insert(k.clone())).collect()
    })
}
fn page() -> impl Strategy<Value = PageSpec> {
    (
        seq_strategy(),
        (proptest::option::weighted(0.8, boxs()), proptest::option::weighted(0.3, boxs()), proptest::option::weighted(0.2, boxs())),
        prop_oneof![3 => Just(0i32), 1 => Just(90), 1 => Just(180), 1 => Just(270), 1 => -720i32..720],
        proptest::collection::vec((ascii_name(), 0usize..4), 0..3),
        proptest::collection::vec((ascii_name(), 0u32..100), 0..3),
        other_entries(),
        (proptest::option::weighted(0.2, valgen::val(2)), proptest::option::weighted(0.2, valgen::val(2)), proptest::option::weighted(0.2, valgen::val(2))),
    )
        .prop_map(|(ops, (media, crop, trim), rotate, fonts, gs, other, (metadata, lgi, vp))| {
            // references given by the caller would point at objects the caller never created: keep the input self-contained
            fn strip(v: &Val) -> Val {
                match v {
                    Val::Ref(a, _) => Val::Int(*a as i64 % 1000),
                    Val::Array(a) => Val::Array(a.iter().map(strip).collect()),
                    Val::Dict(d) => Val::Dict(d.iter().map(|(k, v)| (k.clone(), strip(v))).collect()),
                    v => v.clone(),
                }
            }
            let other: Vec<(Bytes, Val)> = other.iter().map(|(k, v)| (k.clone(), strip(v))).collect();
            let (metadata, lgi, vp) = (metadata.as_ref().map(strip), lgi.as_ref().map(strip), vp.as_ref().map(strip));
            PageSpec { ops, media, crop, trim, rotate, fonts, gs: gs.into_iter().map(|(n, w)| (n, w as f32 / 4.0)).collect(), other, metadata, lgi, vp }
        })
}
fn date_s() -> impl Strategy<Value = (u16, u8, u8, u8, u8, u8, u8, u8, u8)> {
    (0u16..=9999, 1u8..=12, 1u8..=31, 0u8..24, 0u8..60, 0u8..60, 0u8..3, 0u8..24, 0u8..60)
}
fn info_s() -> impl Strategy<Value = InfoSpec> {
    let s = || proptest::option::weighted(0.6, valgen::string_bytes(20));
    (s(), s(), s(), s(), s(), s(), proptest::option::weighted(0.6, date_s()), proptest::option::weighted(0.4, date_s()), proptest::option::weighted(0.4, 0u8..3)).prop_map(|(title, author, subject, keywords, creator, producer, creation, modified, trapped)| InfoSpec { title, author, subject, keywords, creator, producer, creation, modified, trapped })
}
pub fn case_strategy() -> impl Strategy<Value = Case> {
    // the builder imposes no size limit: some documents are large (many pages, long content streams) so that offsets
    // and object numbers pass the one- and two-byte field widths of the cross-reference stream
    let bulk = prop_oneof![12 => Just((1usize, 1usize)), 2 => (2usize..40, 1usize..4), 1 => (40usize..400, Just(1usize)), 2 => (1usize..3, 50usize..3000)];
    let ident = proptest::option::weighted(0.5, ("[ -~]{0,16}", "[ -~]{0,16}"));
    (proptest::collection::vec(page(), 0..7), 0usize..4, proptest::option::weighted(0.6, info_s()), any::<bool>(), bulk, ident).prop_map(|(pages, nfonts, info, cached, (pr, or), id)| {
        let mut pages = pages;
        if let Some(p0) = pages.first_mut() {
            if or > 1 && !p0.ops.is_empty() {
                let base = p0.ops.clone();
                let reps = or.min(20_000 / base.len().max(1)).max(1);
                for _ in 1..reps {
                    p0.ops.extend(base.iter().cloned());
                }
            }
        }
        if pr > 1 && !pages.is_empty() {
            let base = pages.clone();
            for _ in 1..pr {
                pages.extend(base.iter().cloned());
                if pages.len() >= 500 {
                    break;
                }
            }
        }
        Case { pages, nfonts, info, cached, id }
    })
}

pub fn replay(_ctx: &Ctx, _check: &str, art: &serde_json::Value, info: &mut CaseInfo) -> Result<(), Failure> {
    // the artifact carries the produced file: re-run the structural check on it
    info.nontrivial(true);
    if let Ok(file) = serde_json::from_value::<Bytes>(art["file"].clone()) {
        match Reader::load(&file) {
            Err(m) => return Err(Failure::new("c10:structure:unreadable", m, art.clone())),
            Ok(r) => {
                if let Some(p) = r.validate().first() {
                    return Err(Failure::new("c10:structure:problem", p.clone(), art.clone()));
                }
            }
        }
        crate::engine::open::open(&file, false, false, b"").map_err(|e| Failure::new("c10:reload-error", format!("{:?}", e), art.clone()))?;
    }
    Ok(())
}

pub fn run(ctx: &Ctx) {
    let cases = ctx.tier.pick(1_500, 80_000);
    ctx.run_cases("built-documents", cases, case_strategy, |c, info| {
        info.label(format!("pages/{}", if c.pages.len() > 50 { "50+".to_string() } else { c.pages.len().min(3).to_string() }));
        if c.info.is_some() {
            info.label("info-present");
        }
        if c.pages.iter().any(|p| p.rotate != 0) {
            info.label("rotate!=0");
        }
        if c.cached {
            info.label("builder-cached");
        }
        let nt = c.pages.iter().any(|p| !p.ops.is_empty() && (!p.gs.is_empty() || (!p.fonts.is_empty() && c.nfonts > 0)));
        info.nontrivial(nt);
        info.distinct(format!("{:?}", c));
        check_case(c, info)
    });
}

pub const RULE: &str = "cases = lists of 0-6 PageBuilders (operations from C08's generator, media/crop/trim boxes, rotation, resources with Type1/TrueType fonts and graphics states under generated names, extra entries, metadata/LGIDict/VP primitives) plus an optional file identifier (PdfBuilder::id) and an optional information dictionary (arbitrary byte strings, calendar dates with all three time-zone relations, Trapped), built with PdfBuilder over cached or uncached storage; oracle (A) = reload with the library: page count and order, boxes, rotation, extra entries, resource keys and graphics-state values, fonts loadable, operation sequences (C08 equality), information entries, the file identifier; (B) = an independent strict reader (engine/reader.rs) accepts the bytes: header first, startxref at an xref section, every in-use entry at the matching 'n g obj', /Size above every number, every stream /Length ending at the end-of-line before endstream, no reference to an undefined or free object, /Root present; non-trivial = a page with operations and a resource; distinct by case";
