//! C17 — bytes before the header do not change what is read.
use crate::engine::bytes::Bytes;
use crate::engine::corpus;
use crate::engine::docgen;
use crate::engine::errs;
use crate::engine::gen;
use crate::engine::open::open;
use crate::engine::runner::{CaseInfo, Ctx, Failure};
use crate::engine::walker::{walk_file, Transcript, WalkOpts};
use crate::with_file;
use proptest::prelude::*;
use serde::{Deserialize, Serialize};
use serde_json::json;

#[derive(Clone, Debug, Serialize, Deserialize)]
pub struct Rendered {
    pub name: String,
    pub file: Bytes,
    pub password: Bytes,
    pub prefix: Bytes,
}

pub const LENGTHS: [usize; 10] = [0, 1, 2, 3, 7, 8, 9, 511, 1018, 1019];

/// Make sure the prefix does not itself contain the header marker (construction, not rejection).
pub fn sanitize(mut p: Vec<u8>) -> Vec<u8> {
    let marker = b"%PDF-";
    let mut i = 0;
    while i + marker.len() <= p.len() {
        if &p[i..i + marker.len()] == marker {
            p[i] = b'#';
        }
        i += 1;
    }
    p
}

fn transcript(data: &[u8], pw: &[u8], cached: bool) -> Result<Transcript, pdf::error::PdfError> {
    let f = open(data, cached, false, pw)?;
    let opts = WalkOpts { max_objects: 1500, max_pages: 12, max_items: 1500, ..WalkOpts::default() };
    Ok(with_file!(f, file => walk_file(file, &opts)))
}

pub fn check_rendered(r: &Rendered, info: &mut CaseInfo) -> Result<(), Failure> {
    // the property covers prefixes that keep the header within the first kilobyte: a file that already
    // has bytes before its header (offset.pdf) leaves less room
    let hpos = r.file.windows(5).position(|w| w == b"%PDF-").unwrap_or(0);
    let room = 1019usize.saturating_sub(hpos);
    let mut r = r.clone();
    if r.prefix.len() > room {
        r.prefix.0.truncate(room);
    }
    let r = &r;
    let art = || serde_json::to_value(r).unwrap();
    let mut prefixed = r.prefix.0.clone();
    prefixed.extend_from_slice(&r.file);
    for cached in [false, true] {
        let cfg = if cached { "cached" } else { "uncached" };
        let base = match transcript(&r.file, &r.password, cached) {
            Ok(t) => t,
            Err(e) => return Err(Failure::new("harness-c17-base-does-not-load", format!("{}: {:?}", r.name, e), json!({"name": r.name}))),
        };
        let with = transcript(&prefixed, &r.password, cached).map_err(|e| Failure::new(format!("c17:prefixed-load-error:{}", errs::root_kind(&e)), format!("{}: {} loads, but with a {}-byte prefix load fails: {:?}", cfg, r.name, r.prefix.len(), e), art()))?;
        if let Some(d) = base.diff(&with) {
            let call = d.split('"').nth(1).unwrap_or("").split(|c: char| c == '(' || c == '[').next().unwrap_or("").to_string();
            return Err(Failure::new(format!("c17:differs:{}", call), format!("{}: {} with a {}-byte prefix reads differently: {}", cfg, r.name, r.prefix.len(), d), art()));
        }
        if !cached {
            for (c, _) in &base.entries {
                let consumer = if c.starts_with("scan") {
                    "consumer/scan"
                } else if c.starts_with("stream-data") {
                    "consumer/stream-range"
                } else if c.starts_with("resolve") {
                    "consumer/xref-entry"
                } else {
                    continue;
                };
                if !info.labels.iter().any(|l| l == consumer) {
                    info.label(consumer);
                }
            }
        }
    }
    Ok(())
}

pub fn replay(_ctx: &Ctx, _check: &str, art: &serde_json::Value, info: &mut CaseInfo) -> Result<(), Failure> {
    let r: Rendered = serde_json::from_value(art.clone()).map_err(|e| Failure::new("harness-bad-artifact", e.to_string(), art.clone()))?;
    info.nontrivial(true);
    check_rendered(&r, info)
}

fn prefix_strategy() -> impl Strategy<Value = Vec<u8>> {
    let len = prop_oneof![3 => (0usize..LENGTHS.len()).prop_map(|i| LENGTHS[i]), 2 => 0usize..=1019, 1 => 1000usize..=1019];
    (len, any::<u32>(), proptest::collection::vec(any::<u8>(), 0..24), 0u8..4).prop_map(|(n, seed, head, mode)| {
        let mut p: Vec<u8> = match mode {
            0 => gen::expand(&[gen::Segment::Noise(seed, n)], n),
            1 => b"%PDF %%EOF startxref 0 xref trailer << >> endobj 1 0 obj stream ".iter().cycle().take(n).cloned().collect(),
            2 => vec![seed as u8; n],
            _ => gen::expand(&[gen::Segment::Text(b"HTTP/1.1 200 OK\r\nContent-Type: application/pdf\r\n\r\n".to_vec()), gen::Segment::Noise(seed, n)], n),
        };
        for (i, b) in head.iter().enumerate() {
            if i < p.len() {
                p[i] = *b;
            }
        }
        // also exercise a prefix that ends with most of the marker
        if n >= 4 && seed % 7 == 0 {
            let l = p.len();
            p[l - 4..].copy_from_slice(b"%PDF");
        }
        sanitize(p)
    })
}

pub fn run(ctx: &Ctx) {
    let files = corpus::load(&ctx.verif_dir, false);
    if files.len() < 10 {
        ctx.harness_error(format!("corpus missing: only {} files under {}/corpus/files", files.len(), ctx.verif_dir));
        return;
    }
    // 1. corpus files x prefixes
    let per_file = ctx.tier.pick(8, 200);
    let nfiles = files.len();
    ctx.run_cases(
        "corpus-x-prefix",
        per_file * nfiles as u64,
        || (0usize..nfiles, prefix_strategy()),
        |(fi, prefix), info| {
            let f = &files[*fi];
            // big files are expensive: the same relation is checked, fewer times
            let r = Rendered { name: f.name.clone(), file: Bytes(f.data.clone()), password: Bytes(f.password.clone()), prefix: Bytes(prefix.clone()) };
            info.label(format!("file/{}", f.name));
            info.label(format!("prefix-len/{}", match prefix.len() { 0 => "0".to_string(), 1..=9 => "1-9".into(), 10..=999 => "10-999".into(), _ => "1000-1019".into() }));
            info.nontrivial(!prefix.is_empty());
            info.distinct((&f.name, prefix));
            info.sample = Some(json!({"file": f.name, "prefix_len": prefix.len(), "prefix_head": Bytes::new(&prefix[..prefix.len().min(24)])}));
            check_rendered(&r, info)
        },
    );
    // 2. generated documents x prefixes
    let cases = ctx.tier.pick(500, 40_000);
    ctx.run_cases(
        "generated-x-prefix",
        cases,
        || (docgen::spec_strategy(), prefix_strategy()),
        |(spec, prefix), info| {
            let built = docgen::build(spec);
            for l in &built.labels {
                if l.starts_with("xref/") || l.starts_with("update/") || l.starts_with("storage/") || l.starts_with("encrypt/") || l == "prev-chain" || l.starts_with("stream/") {
                    info.label(l.clone());
                }
            }
            let r = Rendered { name: "generated".into(), file: Bytes(built.file), password: Bytes(built.password), prefix: Bytes(prefix.clone()) };
            info.label(format!("prefix-len/{}", match prefix.len() { 0 => "0".to_string(), 1..=9 => "1-9".into(), 10..=999 => "10-999".into(), _ => "1000-1019".into() }));
            info.nontrivial(!prefix.is_empty());
            info.distinct((&r.file.0, prefix));
            info.sample = Some(json!({"generated_labels": built.labels, "prefix_len": prefix.len(), "file_len": r.file.len()}));
            check_rendered(&r, info)
        },
    );
    // 3. thorough: every prefix length 0..=1019 on 5 small files
    if ctx.tier == crate::engine::runner::Tier::Thorough {
        let small: Vec<&corpus::CorpusFile> = files.iter().filter(|f| f.data.len() < 30000).take(5).collect();
        let total = 1020 * small.len() as u64;
        ctx.run_enum(
            "every-length-0..1019",
            total,
            |i| ((i / 1020) as usize, (i % 1020) as usize),
            |(fi, n), info| {
                let f = small[*fi];
                let prefix = sanitize(gen::expand(&[gen::Segment::Noise(*n as u32 * 31 + 7, *n)], *n));
                let r = Rendered { name: f.name.clone(), file: Bytes(f.data.clone()), password: Bytes(f.password.clone()), prefix: Bytes(prefix) };
                info.nontrivial(*n > 0);
                info.distinct((&f.name, *n));
                check_rendered(&r, info)
            },
        );
    }
}

pub const RULE: &str = "cases = (file, prefix): every corpus file (incl. the encrypted ones with their passwords) and generated documents (classic/stream xref, /Prev chains, object streams, encryption, indirect /Length) x prefixes of length {0,1,2,3,7,8,9,511,1018,1019} or random 0..1019 over all byte values (noise, PDF-keyword soup, HTTP-header-like, ending in '%PDF'), sanitised not to contain the marker; thorough adds every length 0..1019 on 5 files; oracle (metamorphic) = the deep-walk transcript (trailer, catalog, pages, resources, every object number resolved with raw and decoded stream data, recovery scan) of the prefixed file equals that of the original, cached and uncached; non-trivial = non-empty prefix; distinct by (file, prefix)";
