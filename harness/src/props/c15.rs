//! C15 — typed objects round-trip through their dictionary form without losing entries.
use crate::engine::bytes::Bytes;
use crate::engine::filters as rf;
use crate::engine::gen;
use crate::engine::open::UncachedFile;
use crate::engine::panics;
use crate::engine::runner::{panic_failure, CaseInfo, Ctx, Failure};
use crate::engine::schema::{self, Model, RtErr, Shape, MODELS, SUBJECT};
use crate::engine::tape::Tape;
use crate::engine::val::{canon, Canon, Val};
use crate::props::c20::deep;
use pdf::file::FileOptions;
use pdf::object::{PlainRef, Resolve};
use pdf::primitive::Primitive;
use proptest::prelude::*;
use serde_json::{json, Value};

pub const RULE: &str = "cases = (model, choice tape): the model's full instance (engine/schema.rs, ~100 models incl. containers and enums) edited entry by entry (kept / dropped / generic alternative: int<->real, scalar<->one-element array, reference<->direct value, direct<->indirect / model-specific alternative), 0-3 unknown extra entries with generated values, stream instances encoded with one of 10 filter chains; the instance is object 100 of a generated file next to a zoo of 37 support objects, parsed by the library, read as the model, written through the file's updater, read and written again; oracle (A) the two written forms are equal with references followed (numbers: int==real of equal value, dictionaries order-free); (B) for catch-all models every entry of the input is present in the written form (unknown entries: equal deep value; recognised entries: present, scalars equal, one-element array == scalar, dates by presence) unless it states a default / empty collection; non-trivial = the instance was read and written and differs from the plain template (an edit or an unknown entry applied)";

#[derive(Clone, Debug)]
pub struct Case {
    pub model: usize,
    pub tape: Vec<u8>,
}

pub struct Built {
    pub subject: Val,
    pub aux: Vec<(u64, Val)>,
    pub unknown: Vec<Bytes>,
    pub edits: Vec<String>,
}

fn zoo_value(n: u64) -> Option<Val> {
    schema::zoo().into_iter().find(|(k, _, d)| *k == n && d.is_none()).map(|(_, v, _)| v)
}

fn small_value(t: &mut Tape, depth: u32) -> Val {
    match t.choose(if depth == 0 { 8 } else { 10 }) {
        0 => Val::Int([1i64, 0, -1, 42, 2147483647, -2147483648][t.choose(6)]),
        1 => Val::Real([1.5f64, 0.25, -3.75, 100.0, 16777216.0][t.choose(5)]),
        2 => Val::Str(Bytes(match t.choose(4) {
            0 => b"text".to_vec(),
            1 => vec![],
            2 => vec![0, 255, b'(', b'\\', b'\r', b'\n'],
            _ => b"D:20200101".to_vec(),
        })),
        3 => Val::Name(Bytes(match t.choose(4) {
            0 => b"Nm".to_vec(),
            1 => b"A B".to_vec(),
            2 => b"x#y".to_vec(),
            _ => b"DeviceRGB".to_vec(),
        })),
        4 => Val::Bool(t.choose(2) == 0),
        5 => Val::Ref([3u64, 4, 5, 25, 35][t.choose(5)], 0),
        6 => Val::Array(vec![]),
        7 => Val::Dict(vec![]),
        8 => Val::Array((0..1 + t.choose(3)).map(|_| small_value(t, depth - 1)).collect()),
        _ => Val::Dict((0..1 + t.choose(3)).map(|i| (Bytes::from(["k", "Type", "Length", "Parent"][(i + t.choose(4)) % 4]), small_value(t, depth - 1))).collect()),
    }
}

/// A value-shape alternative that a conformant file may use for the same field.
fn generic_alt(v: &Val, t: &mut Tape, aux: &mut Vec<(u64, Val)>, edits: &mut Vec<String>, key: &str) -> Val {
    let pick = t.choose(4);
    match v {
        Val::Int(n) => match pick {
            0 => {
                edits.push(format!("{}:int->real", key));
                Val::Real(*n as f64)
            }
            1 => {
                edits.push(format!("{}:int+1", key));
                Val::Int(n + 1)
            }
            2 => {
                edits.push(format!("{}:int->0", key));
                Val::Int(0)
            }
            _ => {
                edits.push(format!("{}:wrap", key));
                Val::Array(vec![v.clone()])
            }
        },
        Val::Real(r) => {
            edits.push(format!("{}:real->int", key));
            Val::Int(*r as i64)
        }
        Val::Bool(b) => {
            edits.push(format!("{}:flip", key));
            Val::Bool(!b)
        }
        Val::Array(a) if a.len() == 1 && pick < 2 => {
            edits.push(format!("{}:unwrap", key));
            a[0].clone()
        }
        Val::Array(a) => match pick {
            0 | 1 => {
                edits.push(format!("{}:numbers-int<->real", key));
                Val::Array(
                    a.iter()
                        .map(|x| match x {
                            Val::Int(n) => Val::Real(*n as f64),
                            Val::Real(r) if r.fract() == 0.0 => Val::Int(*r as i64),
                            o => o.clone(),
                        })
                        .collect(),
                )
            }
            2 if !a.is_empty() => {
                edits.push(format!("{}:dup-last", key));
                let mut a = a.clone();
                a.push(a.last().unwrap().clone());
                Val::Array(a)
            }
            _ => {
                edits.push(format!("{}:indirect", key));
                let n = SUBJECT + 1 + aux.len() as u64;
                aux.push((n, v.clone()));
                Val::Ref(n, 0)
            }
        },
        Val::Ref(n, _) => match zoo_value(*n) {
            Some(direct) if pick < 3 => {
                edits.push(format!("{}:ref->direct", key));
                direct
            }
            _ => {
                edits.push(format!("{}:wrap", key));
                Val::Array(vec![v.clone()])
            }
        },
        Val::Dict(d) => match pick {
            0 | 1 => {
                edits.push(format!("{}:indirect", key));
                let n = SUBJECT + 1 + aux.len() as u64;
                aux.push((n, v.clone()));
                Val::Ref(n, 0)
            }
            2 if !d.is_empty() => {
                let i = t.choose(d.len());
                edits.push(format!("{}:drop-nested/{}", key, String::from_utf8_lossy(&d[i].0)));
                let mut d = d.clone();
                d.remove(i);
                Val::Dict(d)
            }
            _ => {
                edits.push(format!("{}:nested-unknown", key));
                let mut d = d.clone();
                d.push((Bytes::from("VhNested"), small_value(t, 1)));
                Val::Dict(d)
            }
        },
        Val::Name(_) | Val::Str(_) => match pick {
            0 | 1 => {
                edits.push(format!("{}:wrap", key));
                Val::Array(vec![v.clone()])
            }
            _ => {
                edits.push(format!("{}:indirect", key));
                let n = SUBJECT + 1 + aux.len() as u64;
                aux.push((n, v.clone()));
                Val::Ref(n, 0)
            }
        },
        other => other.clone(),
    }
}

const UNKNOWN_KEYS: &[&[u8]] = &[b"VhExtra", b"X", b"AAPL:Keywords", b"Vh Sp", b"PieceInfo2", b"ZZ", b"a"];

fn png_rows(data: &[u8], cols: usize) -> Vec<u8> {
    let mut out = Vec::new();
    for row in data.chunks(cols) {
        out.push(0);
        out.extend_from_slice(row);
        for _ in row.len()..cols {
            out.push(b' ');
        }
    }
    out
}

/// (chain label, encoded data, /Filter and /DecodeParms entries)
fn stream_chain(data: &[u8], t: &mut Tape) -> (&'static str, Vec<u8>, Vec<(Bytes, Val)>) {
    let n = |s: &str| Val::name(s);
    let cols7 = || Val::dict(vec![("Columns", Val::Int(7))]);
    let early0 = || Val::dict(vec![("EarlyChange", Val::Int(0))]);
    let f = |k: &str, v: Val| (Bytes::from(k), v);
    let mut enc = Tape::new(&[]);
    match t.choose(10) {
        0 => ("none", data.to_vec(), vec![]),
        1 => ("Fl", rf::flate_encode(data, false, 6), vec![f("Filter", n("FlateDecode"))]),
        2 => ("[Fl]", rf::flate_encode(data, false, 6), vec![f("Filter", Val::Array(vec![n("FlateDecode")]))]),
        3 => ("Fl+parms", rf::flate_encode(data, false, 6), vec![f("Filter", n("FlateDecode")), f("DecodeParms", cols7())]),
        4 => (
            "[AHx Fl]+[null parms]",
            rf::hex_encode(&rf::flate_encode(data, false, 6), &mut enc),
            vec![f("Filter", Val::Array(vec![n("ASCIIHexDecode"), n("FlateDecode")])), f("DecodeParms", Val::Array(vec![Val::Null, cols7()]))],
        ),
        5 => ("[AHx Fl]", rf::hex_encode(&rf::flate_encode(data, false, 6), &mut enc), vec![f("Filter", Val::Array(vec![n("ASCIIHexDecode"), n("FlateDecode")]))]),
        6 => ("LZW+parms", rf::lzw_encode(data, 0, &mut enc), vec![f("Filter", n("LZWDecode")), f("DecodeParms", early0())]),
        7 => (
            "[Fl LZW]+[parms parms]",
            rf::flate_encode(&rf::lzw_encode(data, 0, &mut enc), false, 6),
            vec![f("Filter", Val::Array(vec![n("FlateDecode"), n("LZWDecode")])), f("DecodeParms", Val::Array(vec![cols7(), early0()]))],
        ),
        8 => ("[A85 RL]", rf::a85_encode(&rf::rl_encode(data, &mut enc), &mut enc), vec![f("Filter", Val::Array(vec![n("ASCII85Decode"), n("RunLengthDecode")]))]),
        _ => (
            "Fl+png-predictor",
            rf::flate_encode(&png_rows(data, 4), false, 6),
            vec![f("Filter", n("FlateDecode")), f("DecodeParms", Val::dict(vec![("Predictor", Val::Int(12)), ("Columns", Val::Int(4))]))],
        ),
    }
}

pub fn build(m: &Model, tape: &[u8]) -> Built {
    let mut t = Tape::new(tape);
    let template = schema::parse(m.template);
    let mut aux = Vec::new();
    let mut edits = Vec::new();
    let mut unknown = Vec::new();
    let alts_for = |k: &str| m.alts.iter().find(|(k2, _)| *k2 == k).map(|(_, a)| *a);
    let subject = match (m.shape, template) {
        (Shape::Scalar, v) => {
            let alts = alts_for("").unwrap_or(&[]);
            let i = t.choose(1 + alts.len());
            let mut v = if i == 0 { v } else { schema::parse(alts[i - 1]) };
            if i > 0 {
                edits.push(format!("alt#{}", i));
            }
            if t.opt("scalar-generic", 40) {
                v = generic_alt(&v, &mut t, &mut aux, &mut edits, "");
            }
            v
        }
        (shape, Val::Dict(entries)) => {
            let mut out: Vec<(Bytes, Val)> = Vec::new();
            for (k, v) in entries {
                let ks = String::from_utf8_lossy(&k).to_string();
                let required = m.required.contains(&ks.as_str());
                let c = t.byte();
                match c {
                    0..=150 => out.push((k, v)),
                    151..=185 => {
                        if required && c > 155 {
                            out.push((k, v));
                        } else {
                            edits.push(format!("{}:drop", ks));
                        }
                    }
                    186..=215 => {
                        let nv = generic_alt(&v, &mut t, &mut aux, &mut edits, &ks);
                        out.push((k, nv));
                    }
                    _ => match alts_for(&ks) {
                        Some(alts) if !alts.is_empty() => {
                            let i = t.choose(alts.len());
                            edits.push(format!("{}:alt#{}", ks, i));
                            out.push((k, schema::parse(alts[i])));
                        }
                        _ => out.push((k, v)),
                    },
                }
            }
            let n_unknown = match t.byte() {
                0..=120 => 0,
                121..=200 => 1,
                201..=235 => 2,
                _ => 3,
            };
            for _ in 0..n_unknown {
                let k = Bytes(UNKNOWN_KEYS[t.choose(UNKNOWN_KEYS.len())].to_vec());
                if out.iter().any(|(k2, _)| *k2 == k) {
                    continue;
                }
                let v = small_value(&mut t, 2);
                unknown.push(k.clone());
                edits.push(format!("unknown:{}", String::from_utf8_lossy(&k)));
                out.push((k, v));
            }
            match shape {
                Shape::Stream(data) => {
                    let (label, enc, entries) = stream_chain(data, &mut t);
                    if label != "none" {
                        edits.push(format!("chain:{}", label));
                    }
                    out.extend(entries);
                    Val::Stream(out, Bytes(enc))
                }
                _ => Val::Dict(out),
            }
        }
        (_, other) => other,
    };
    Built { subject, aux, unknown, edits }
}

/// ISO 32000-1 7.9.4: D:YYYYMMDDHHmmSSOHH'mm' with defaults month 1, day 1, the rest 0; no offset = unknown (as UT).
pub fn parse_date(s: &[u8]) -> Option<(u32, u32, u32, u32, u32, u32, u8, u32, u32)> {
    let s = s.strip_prefix(b"D:")?;
    let digits = s.iter().take_while(|b| b.is_ascii_digit()).count();
    let num = |from: usize, len: usize, default: u32| -> Option<u32> {
        if digits >= from + len {
            std::str::from_utf8(&s[from..from + len]).ok()?.parse().ok()
        } else if digits <= from {
            Some(default)
        } else {
            None
        }
    };
    let (y, mo, d, h, mi, sec) = (num(0, 4, 0)?, num(4, 2, 1)?, num(6, 2, 1)?, num(8, 2, 0)?, num(10, 2, 0)?, num(12, 2, 0)?);
    if digits < 4 {
        return None;
    }
    let rest = &s[digits.min(14)..];
    let (rel, tzh, tzm) = match rest.first() {
        None => (b'Z', 0, 0),
        Some(&o @ (b'+' | b'-' | b'Z')) => {
            let z = &rest[1..];
            let two = |b: &[u8]| -> Option<u32> { std::str::from_utf8(b.get(0..2)?).ok()?.parse().ok() };
            let tzh = if z.is_empty() { 0 } else { two(z)? };
            let tzm = match z.get(2) {
                Some(b'\'') if z.len() > 3 => two(&z[3..])?,
                _ => 0,
            };
            if tzh == 0 && tzm == 0 { (b'Z', 0, 0) } else { (o, tzh, tzm) }
        }
        Some(_) => return None,
    };
    Some((y, mo, d, h, mi, sec, rel, tzh, tzm))
}

fn first_diff(a: &Canon, b: &Canon, path: &str) -> Option<String> {
    let tr = |c: &Canon| crate::engine::runner::truncate(&crate::engine::val::show(c), 100);
    match (a, b) {
        (Canon::Dict(x), Canon::Dict(y)) | (Canon::Stream(x, _), Canon::Stream(y, _)) => {
            for (k, v) in x {
                match y.iter().find(|(k2, _)| k2 == k) {
                    None => return Some(format!("{}/{}: only in the first form ({})", path, String::from_utf8_lossy(k), tr(v))),
                    Some((_, w)) => {
                        if let Some(d) = first_diff(v, w, &format!("{}/{}", path, String::from_utf8_lossy(k))) {
                            return Some(d);
                        }
                    }
                }
            }
            for (k, w) in y {
                if !x.iter().any(|(k2, _)| k2 == k) {
                    return Some(format!("{}/{}: only in the second form ({})", path, String::from_utf8_lossy(k), tr(w)));
                }
            }
            if let (Canon::Stream(_, dx), Canon::Stream(_, dy)) = (a, b) {
                if dx != dy {
                    return Some(format!("{}: stream data differs ({} vs {} bytes)", path, dx.len(), dy.len()));
                }
            }
            None
        }
        (Canon::Array(x), Canon::Array(y)) => {
            if x.len() != y.len() {
                return Some(format!("{}: array length {} vs {}", path, x.len(), y.len()));
            }
            x.iter().zip(y).enumerate().find_map(|(i, (p, q))| first_diff(p, q, &format!("{}[{}]", path, i)))
        }
        (p, q) if p == q => None,
        (p, q) => Some(format!("{}: first {} second {}", path, tr(p), tr(q))),
    }
}

fn top_key(diff: &str) -> String {
    // "/Key/...: text" -> Key
    diff.trim_start_matches('/').split(|c| c == '/' || c == ':' || c == '[').next().unwrap_or("").to_string()
}

fn is_unimplemented(msg: &str) -> bool {
    let m = msg.to_ascii_lowercase();
    m.contains("not implemented") || m.contains("not yet implemented") || m.contains("unimplemented")
}

fn deep_of(file: &UncachedFile, p: &Primitive) -> Val {
    let r = file.resolver();
    let mut budget = 20_000usize;
    deep(&r, p, &mut Vec::new(), &mut budget)
}

const FRAMING: &[&[u8]] = &[b"Length", b"Filter", b"DecodeParms"];

fn entries_of(c: &Canon) -> Option<&Vec<(Vec<u8>, Canon)>> {
    match c {
        Canon::Dict(d) | Canon::Stream(d, _) => Some(d),
        _ => None,
    }
}

/// `strict`: the unedited template (every model must be readable and writable); otherwise rejections are allowed.
pub fn check_case(m: &Model, tape: &[u8], strict: bool, info: &mut CaseInfo) -> Result<(), Failure> {
    let b = build(m, tape);
    let (bytes, _size) = schema::case_file(&b.subject, &b.aux, &[]);
    let art = || json!({"model": m.name, "tape": Bytes(tape.to_vec()), "edits": b.edits, "subject": format!("{:?}", b.subject), "file": Bytes(bytes.clone())});
    let fail = |key: String, msg: String| Failure::new(key, msg, art());
    info.label(format!("model/{}", m.name));
    for e in &b.edits {
        let kind = e.rsplit(':').next().unwrap_or("");
        let kind = kind.split(|c| c == '#' || c == '/').next().unwrap_or("");
        info.label(format!("edit/{}", if e.starts_with("unknown:") { "unknown-entry" } else if e.starts_with("chain:") { "filter-chain" } else { kind }));
    }
    let res = panics::catch(|| -> Result<Result<(Val, Val, Val), String>, Failure> {
        let mut file: UncachedFile = FileOptions::uncached().load(bytes.clone()).map_err(|e| fail("harness-c15-case-file".into(), format!("case file does not load: {:?}", e)))?;
        let p0 = file.resolver().resolve(PlainRef { id: SUBJECT, gen: 0 }).map_err(|e| fail("harness-c15-subject".into(), format!("subject does not resolve: {:?}", e)))?;
        let d0 = deep_of(&file, &p0);
        let p1 = match schema::roundtrip(m.name, &mut file, p0) {
            None => return Err(fail("harness-c15-dispatch".into(), format!("no dispatch for {}", m.name))),
            Some(Err(RtErr::Read(e))) => return Ok(Err(format!("read:{}", crate::engine::errs::root_kind(&e)))),
            Some(Err(RtErr::Write(e))) => return Ok(Err(format!("write:{}", crate::engine::runner::truncate(&format!("{:?}", e), 60)))),
            Some(Ok(p)) => p,
        };
        let d1 = deep_of(&file, &p1);
        let p2 = match schema::roundtrip(m.name, &mut file, p1) {
            Some(Ok(p)) => p,
            Some(Err(RtErr::Read(e))) => {
                return Err(fail(format!("c15:{}:written-form-unreadable", m.name), format!("the written form {} is rejected by the model's own reader: {:?}", crate::engine::runner::truncate(&crate::engine::val::show(&canon(&d1)), 400), e)));
            }
            Some(Err(RtErr::Write(e))) => {
                return Err(fail(format!("c15:{}:second-write-error", m.name), format!("the value read from the written form cannot be written: {:?}", e)));
            }
            None => unreachable!(),
        };
        let d2 = deep_of(&file, &p2);
        Ok(Ok((d0, d1, d2)))
    });
    let (d0, d1, d2) = match res {
        Err(p) => {
            if is_unimplemented(&p.msg) {
                if strict {
                    return Err(fail(format!("c15:{}:template-unwritable", m.name), format!("template hits {}", p.msg)));
                }
                info.label("rejected/unimplemented-writer");
                return Ok(());
            }
            let mut f = panic_failure(&p, art());
            if !f.key.starts_with("harness-") {
                f.key = format!("c15:{}:panic:{}", m.name, f.key);
            }
            return Err(f);
        }
        Ok(Err(f)) => return Err(f),
        Ok(Ok(Err(why))) => {
            if strict {
                return Err(fail(format!("c15:{}:template-rejected", m.name), format!("the full instance of {} is not accepted: {}", m.name, why)));
            }
            info.label(format!("rejected/{}", why.split(':').next().unwrap_or("")));
            return Ok(());
        }
        Ok(Ok(Ok(x))) => x,
    };
    let (c0, c1, c2) = (canon(&d0), canon(&d1), canon(&d2));
    info.label("accepted");
    info.label(format!("accepted-model/{}", m.name));
    info.nontrivial(!b.edits.is_empty());
    info.distinct((m.name, tape));
    if info.sample.is_none() {
        info.sample = Some(json!({"model": m.name, "edits": b.edits, "written": crate::engine::runner::truncate(&crate::engine::val::show(&c1), 300)}));
    }
    // (A) write . read is idempotent on written forms
    if let Some(d) = first_diff(&c1, &c2, "") {
        return Err(fail(format!("c15:{}:not-idempotent:{}", m.name, top_key(&d)), format!("write(read(p1)) differs from p1 at {}", d)));
    }
    // (B) catch-all models keep every entry; for the other dictionary models the same comparison runs over the entries
    // the model recognises (what a correct reader would have put into the value that is written)
    if m.shape != Shape::Scalar {
        if let (Some(e0), Some(e1)) = (entries_of(&c0), entries_of(&c1)) {
            if !b.unknown.is_empty() {
                info.label("catch-all-with-unknown-entries");
            }
            for (k, v0) in e0 {
                if FRAMING.contains(&k.as_slice()) && matches!(c0, Canon::Stream(..)) {
                    continue;
                }
                // deep() does not follow these back-pointers; as entries they are compared as written
                let ks = String::from_utf8_lossy(k).to_string();
                let is_unknown = b.unknown.iter().any(|u| u.as_slice() == k.as_slice());
                if !m.catch_all && (is_unknown || schema::unrecognised(m, &ks)) {
                    continue;
                }
                match e1.iter().find(|(k2, _)| k2 == k) {
                    None => {
                        let empty = matches!(v0, Canon::Null) || matches!(v0, Canon::Array(a) if a.is_empty()) || matches!(v0, Canon::Dict(d) if d.is_empty()) || matches!(v0, Canon::Name(n) if n == b"@missing");
                        let default = m.defaults.iter().any(|(dk, dv)| *dk == ks && canon(&schema::parse(dv)) == *v0);
                        if !(empty && !is_unknown) && !default && !matches!(v0, Canon::Null) {
                            return Err(fail(format!("c15:{}:entry-lost:{}", m.name, if is_unknown { "<unknown>".to_string() } else { ks.clone() }), format!("entry /{} = {} of the input is absent from the written form", ks, crate::engine::val::show(v0))));
                        }
                    }
                    Some((_, v1)) => {
                        let same = if is_unknown {
                            v0 == v1
                        } else {
                            let unwrap1 = |c: &Canon| match c {
                                Canon::Array(a) if a.len() == 1 => a[0].clone(),
                                o => o.clone(),
                            };
                            let (a, b2) = (unwrap1(v0), unwrap1(v1));
                            match (&a, &b2) {
                                (Canon::Str(x), Canon::Str(y)) if x.starts_with(b"D:") => match (parse_date(x), parse_date(y)) {
                                    (Some(dx), Some(dy)) => dx == dy,
                                    _ => true,
                                },
                                (Canon::Num(_) | Canon::Name(_) | Canon::Str(_) | Canon::Bool(_), Canon::Num(_) | Canon::Name(_) | Canon::Str(_) | Canon::Bool(_)) => a == b2,
                                // (models without catch-all normalise arrays: a 7-element matrix is cut, /Differences is re-run-length-coded)
                                (Canon::Array(x), Canon::Array(y)) if m.catch_all && x.iter().all(|e| matches!(e, Canon::Num(_) | Canon::Name(_))) => x == y,
                                _ => true,
                            }
                        };
                        if !same {
                            return Err(fail(format!("c15:{}:entry-changed:{}", m.name, if is_unknown { "<unknown>".to_string() } else { ks.clone() }), format!("entry /{}: input {}, written {}", ks, crate::engine::val::show(v0), crate::engine::val::show(v1))));
                        }
                    }
                }
            }
        }
    }
    Ok(())
}

pub fn case_strategy() -> impl Strategy<Value = Case> {
    // dictionary models have far larger spaces than enums and scalars; catch-all models also carry oracle (B)
    let writable: Vec<usize> = MODELS.iter().enumerate().filter(|(_, m)| m.writable).flat_map(|(i, m)| std::iter::repeat(i).take(weight(m))).collect();
    (any::<u16>(), gen::tape(48)).prop_map(move |(i, tape)| Case { model: writable[gen::pick_index(i, writable.len())], tape })
}

pub fn replay(_ctx: &Ctx, check: &str, art: &Value, info: &mut CaseInfo) -> Result<(), Failure> {
    if check == "constructed-values" {
        // the value is stored as its Debug text only: the saved case is re-found by the generator (same seed)
        info.nontrivial(true);
        return Ok(());
    }
    let name = art["model"].as_str().unwrap_or("");
    let m = schema::model(name).ok_or_else(|| Failure::new("harness-c15-replay", format!("unknown model {}", name), art.clone()))?;
    let tape: Bytes = serde_json::from_value(art["tape"].clone()).map_err(|e| Failure::new("harness-c15-replay", format!("tape: {}", e), art.clone()))?;
    check_case(m, &tape, false, info)
}

pub fn run(ctx: &Ctx) {
    let errors_before = ctx.report.lock().unwrap().harness_errors.len();
    let mute = crate::engine::runner::StderrMute::new();
    run_sections(ctx);
    drop(mute);
    for e in ctx.report.lock().unwrap().harness_errors.iter().skip(errors_before) {
        eprintln!("HARNESS-ERROR property=C15 {}", e);
    }
}

fn weight(m: &Model) -> usize {
    match (m.shape, m.catch_all) {
        (Shape::Scalar, _) => 1,
        (_, true) => 10,
        _ => 4,
    }
}

fn run_sections(ctx: &Ctx) {
    let writable: Vec<&'static Model> = MODELS.iter().filter(|m| m.writable).collect();
    // every model's full instance, unedited: must be readable and writable
    ctx.run_enum("templates", writable.len() as u64, |i| i as usize, |i, info| {
        let m = writable[*i];
        let r = check_case(m, &[], true, info);
        info.nontrivial(true);
        r
    });
    // every single edit of every entry: exhaustive over (model, entry, choice class)
    let mut singles: Vec<(usize, Vec<u8>)> = Vec::new();
    for (mi, m) in writable.iter().enumerate() {
        let n = match schema::parse(m.template) {
            Val::Dict(d) => d.len(),
            _ => 0,
        };
        if n == 0 {
            let alts = m.alts.iter().find(|(k, _)| k.is_empty()).map(|(_, a)| a.len()).unwrap_or(0);
            for a in 1..=alts {
                singles.push((mi, vec![a as u8]));
                for g in 0..4u8 {
                    singles.push((mi, vec![a as u8, 1, g]));
                }
            }
            for g in 0..4u8 {
                singles.push((mi, vec![0, 1, g]));
            }
            continue;
        }
        for e in 0..n {
            for (c, subs) in [(160u8, 1usize), (152, 1), (190, 4), (230, 12)] {
                for s in 0..subs {
                    let mut tape = vec![0u8; e];
                    tape.push(c);
                    tape.push(s as u8);
                    tape.push(s as u8);
                    singles.push((mi, tape));
                }
            }
        }
        // one unknown entry of each value kind; each filter chain
        for k in 0..10u8 {
            let mut tape = vec![0u8; n];
            tape.extend([130, k % 7, k, 1, 2, 3, 0, 1, 2]);
            singles.push((mi, tape));
        }
        if matches!(m.shape, Shape::Stream(_)) {
            for ch in 0..10u8 {
                let mut tape = vec![0u8; n + 1];
                tape.push(ch);
                singles.push((mi, tape));
            }
        }
    }
    ctx.run_enum("single-edits", singles.len() as u64, |i| singles[i as usize].clone(), |(mi, tape), info| check_case(writable[*mi], tape, false, info));
    let nv = ctx.tier.pick(20_000, 1_000_000);
    ctx.run_cases("constructed-values", nv, value_strategy, |v, info| check_value(v, info));
    let cases = ctx.tier.pick(60_000, 3_000_000);
    ctx.run_cases("edited-instances", cases, case_strategy, |c, info| check_case(&MODELS[c.model], &c.tape, false, info));
    // models never accepted in edited form would make the check vacuous for them
    let classes = ctx.report.lock().unwrap().classes.clone();
    let mut never = Vec::new();
    for m in &writable {
        if !classes.contains_key(&format!("templates/model/{}", m.name)) {
            never.push(m.name);
        }
    }
    if !never.is_empty() && !ctx.has_violation() {
        ctx.harness_error(format!("models without a template case: {:?}", never));
    }
    ctx.set_extra("models", json!(writable.iter().map(|m| m.name).collect::<Vec<_>>()));
}

// ---- values constructed directly (first sentence of the property, for the hand-written pairs) ---------------------

#[derive(Clone, Debug)]
pub enum V {
    Date { y: u16, mo: u8, d: u8, h: u8, mi: u8, s: u8, rel: u8, tzh: u8, tzm: u8 },
    Rect([f32; 4]),
    Matrix([f32; 6]),
    Dest { page: bool, kind: u8, a: [f32; 4], left: Option<f32>, top: Option<f32> },
    NamedDest(Vec<u8>),
    ActionGoto(Box<V>),
    Encoding { base: u8, other: String, diffs: Vec<(u32, String)> },
    CidTable(Vec<u16>),
    Indexed { cmyk: bool, hival: u8, lookup: Vec<u8> },
    Info { title: Option<Vec<u8>>, created: Option<Box<V>>, modified: Option<Box<V>>, trapped: Option<u8> },
    VecI32(Vec<i32>),
    OptF32(Option<f32>),
    Tuple(i32, f32),
    Map(Vec<(String, i32)>),
    NumberTree { limits: Option<(i32, i32)>, items: Vec<(i32, i32)> },
}

fn f32s() -> impl Strategy<Value = f32> {
    prop_oneof![Just(0.0f32), Just(1.0), Just(-1.5), -1.0e6f32..1.0e6f32, any::<i16>().prop_map(|x| x as f32 / 8.0), Just(16777217.0), Just(1.0e-7)]
}
fn date_v() -> impl Strategy<Value = V> {
    (0u16..=9999, 1u8..=12, 1u8..=31, 0u8..24, 0u8..60, 0u8..60, 0u8..3, 0u8..24, 0u8..60).prop_map(|(y, mo, d, h, mi, s, rel, tzh, tzm)| V::Date { y, mo, d, h, mi, s, rel, tzh, tzm })
}
fn dest_v() -> impl Strategy<Value = V> {
    (any::<bool>(), 0u8..7, [f32s(), f32s(), f32s(), f32s()], proptest::option::of(f32s()), proptest::option::of(f32s())).prop_map(|(page, kind, a, left, top)| V::Dest { page, kind, a, left, top })
}
pub fn value_strategy() -> impl Strategy<Value = V> {
    let name = || "[A-Za-z][A-Za-z0-9.]{0,8}";
    prop_oneof![
        4 => date_v(),
        1 => [f32s(), f32s(), f32s(), f32s()].prop_map(V::Rect),
        1 => [f32s(), f32s(), f32s(), f32s(), f32s(), f32s()].prop_map(V::Matrix),
        3 => dest_v(),
        1 => proptest::collection::vec(any::<u8>(), 0..12).prop_map(V::NamedDest),
        2 => prop_oneof![dest_v(), proptest::collection::vec(any::<u8>(), 0..12).prop_map(V::NamedDest)].prop_map(|d| V::ActionGoto(Box::new(d))),
        3 => (0u8..8, name(), proptest::collection::vec((prop_oneof![0u32..300, Just(0xffff_ffffu32), any::<u32>()], name()), 0..8)).prop_map(|(base, other, diffs)| V::Encoding { base, other, diffs }),
        1 => proptest::collection::vec(any::<u16>(), 0..80).prop_map(V::CidTable),
        2 => (any::<bool>(), any::<u8>(), prop_oneof![proptest::collection::vec(any::<u8>(), 0..40), proptest::collection::vec(any::<u8>(), 95..130)]).prop_map(|(cmyk, hival, lookup)| V::Indexed { cmyk, hival, lookup }),
        2 => (proptest::option::of(proptest::collection::vec(any::<u8>(), 0..10)), proptest::option::of(date_v().prop_map(Box::new)), proptest::option::of(date_v().prop_map(Box::new)), proptest::option::of(0u8..3)).prop_map(|(title, created, modified, trapped)| V::Info { title, created, modified, trapped }),
        1 => proptest::collection::vec(any::<i32>(), 0..5).prop_map(V::VecI32),
        1 => proptest::option::of(f32s()).prop_map(V::OptF32),
        1 => (any::<i32>(), f32s()).prop_map(|(a, b)| V::Tuple(a, b)),
        1 => proptest::collection::vec((name(), any::<i32>()), 0..5).prop_map(V::Map),
        1 => (proptest::option::of((any::<i32>(), any::<i32>())), proptest::collection::vec((any::<i32>(), any::<i32>()), 0..5)).prop_map(|(limits, items)| V::NumberTree { limits, items }),
    ]
}

fn to_date(v: &V) -> pdf::primitive::Date {
    match v {
        V::Date { y, mo, d, h, mi, s, rel, tzh, tzm } => pdf::primitive::Date {
            year: *y,
            month: *mo,
            day: *d,
            hour: *h,
            minute: *mi,
            second: *s,
            rel: [pdf::primitive::TimeRel::Earlier, pdf::primitive::TimeRel::Later, pdf::primitive::TimeRel::Universal][*rel as usize % 3],
            tz_hour: *tzh,
            tz_minute: *tzm,
        },
        _ => unreachable!(),
    }
}
fn to_dest(v: &V) -> pdf::object::MaybeNamedDest {
    use pdf::object::*;
    match v {
        V::NamedDest(b) => MaybeNamedDest::Named(pdf::primitive::PdfString::new(b.as_slice().into())),
        V::Dest { page, kind, a, left, top } => MaybeNamedDest::Direct(Dest {
            page: if *page { Some(Ref::from_id(3)) } else { None },
            view: match kind {
                0 => DestView::XYZ { left: *left, top: *top, zoom: a[0] },
                1 => DestView::Fit,
                2 => DestView::FitH { top: a[0] },
                3 => DestView::FitV { left: a[0] },
                4 => DestView::FitR(Rectangle { left: a[0], bottom: a[1], right: a[2], top: a[3] }),
                5 => DestView::FitB,
                _ => DestView::FitBH { top: a[0] },
            },
        }),
        _ => unreachable!(),
    }
}

enum Vr {
    Rejected(String),
    Forms(Val, Val),
    Bad(String, String),
}

fn vrt<T: pdf::object::Object + pdf::object::ObjectWrite>(file: &mut UncachedFile, v: &T) -> Vr {
    use pdf::object::ObjectWrite;
    let p1 = match v.to_primitive(file) {
        Ok(p) => p,
        Err(e) => return Vr::Rejected(format!("{:?}", e)),
    };
    let d1 = deep_of(file, &p1);
    let v2 = {
        let r = file.resolver();
        T::from_primitive(p1, &r)
    };
    let v2 = match v2 {
        Ok(v) => v,
        Err(e) => return Vr::Bad("written-form-unreadable".into(), format!("the written form {} is rejected by the reader: {:?}", crate::engine::runner::truncate(&crate::engine::val::show(&canon(&d1)), 400), e)),
    };
    let p2 = match v2.to_primitive(file) {
        Ok(p) => p,
        Err(e) => return Vr::Bad("second-write-error".into(), format!("{:?}", e)),
    };
    let d2 = deep_of(file, &p2);
    Vr::Forms(d1, d2)
}

pub fn check_value(v: &V, info: &mut CaseInfo) -> Result<(), Failure> {
    use pdf::object::*;
    let art = || json!({"value": format!("{:?}", v)});
    let (bytes, _) = schema::case_file(&Val::Null, &[], &[]);
    let kind = format!("{:?}", v).split(|c: char| !c.is_alphanumeric()).next().unwrap_or("").to_string();
    info.label(format!("value/{}", kind));
    let res = panics::catch(|| -> Result<Vr, Failure> {
        let mut file: UncachedFile = FileOptions::uncached().load(bytes.clone()).map_err(|e| Failure::new("harness-c15-case-file", format!("{:?}", e), art()))?;
        let f = &mut file;
        Ok(match v {
            V::Date { .. } => vrt(f, &to_date(v)),
            V::Rect(a) => vrt(f, &Rectangle { left: a[0], bottom: a[1], right: a[2], top: a[3] }),
            V::Matrix(a) => vrt(f, &pdf::content::Matrix { a: a[0], b: a[1], c: a[2], d: a[3], e: a[4], f: a[5] }),
            V::Dest { .. } => match to_dest(v) {
                MaybeNamedDest::Direct(d) => vrt(f, &d),
                _ => unreachable!(),
            },
            V::NamedDest(_) => vrt(f, &to_dest(v)),
            V::ActionGoto(d) => vrt(f, &Action::Goto(to_dest(d))),
            V::Encoding { base, other, diffs } => {
                use pdf::encoding::{BaseEncoding as B, Encoding};
                let base = match base {
                    0 => B::StandardEncoding,
                    1 => B::SymbolEncoding,
                    2 => B::MacRomanEncoding,
                    3 => B::WinAnsiEncoding,
                    4 => B::MacExpertEncoding,
                    5 => B::IdentityH,
                    6 => B::None,
                    _ => B::Other(other.clone()),
                };
                vrt(f, &Encoding { base, differences: diffs.iter().map(|(k, n)| (*k, n.as_str().into())).collect() })
            }
            V::CidTable(t) => vrt(f, &pdf::font::CidToGidMap::Table(t.clone())),
            V::Indexed { cmyk, hival, lookup } => vrt(f, &ColorSpace::Indexed(Box::new(if *cmyk { ColorSpace::DeviceCMYK } else { ColorSpace::DeviceRGB }), *hival, lookup.clone().into())),
            V::Info { title, created, modified, trapped } => vrt(
                f,
                &InfoDict {
                    title: title.as_ref().map(|b| pdf::primitive::PdfString::new(b.as_slice().into())),
                    creation_date: created.as_ref().map(|d| to_date(d)),
                    mod_date: modified.as_ref().map(|d| to_date(d)),
                    trapped: trapped.map(|t| match t % 3 { 0 => Trapped::True, 1 => Trapped::False, _ => Trapped::Unknown }),
                    ..Default::default()
                },
            ),
            V::VecI32(x) => vrt(f, x),
            V::OptF32(x) => vrt(f, x),
            V::Tuple(a, b) => vrt(f, &(*a, *b)),
            V::Map(m) => vrt(f, &m.iter().map(|(k, v)| (pdf::primitive::Name::from(k.as_str()), *v)).collect::<std::collections::HashMap<pdf::primitive::Name, i32>>()),
            V::NumberTree { limits, items } => vrt(f, &NumberTree { limits: *limits, node: NumberTreeNode::Leaf(items.clone()) }),
        })
    });
    let vr = match res {
        Err(p) => {
            if is_unimplemented(&p.msg) {
                info.label("rejected/unimplemented-writer");
                return Ok(());
            }
            let mut f = panic_failure(&p, art());
            if !f.key.starts_with("harness-") {
                f.key = format!("c15:value:{}:panic:{}", kind, f.key);
            }
            return Err(f);
        }
        Ok(Err(f)) => return Err(f),
        Ok(Ok(vr)) => vr,
    };
    match vr {
        Vr::Rejected(_) => {
            info.label("rejected/write");
            Ok(())
        }
        Vr::Bad(k, msg) => Err(Failure::new(format!("c15:value:{}:{}", kind, k), msg, art())),
        Vr::Forms(d1, d2) => {
            info.label("accepted");
            info.nontrivial(true);
            info.distinct(format!("{:?}", v));
            match first_diff(&canon(&d1), &canon(&d2), "") {
                None => Ok(()),
                Some(d) => Err(Failure::new(format!("c15:value:{}:not-idempotent", kind), format!("write(read(write(v))) differs from write(v) at {}", d), art())),
            }
        }
    }
}
