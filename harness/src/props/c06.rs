//! C06 — encrypted documents yield their plaintext with either password, and only then.
use crate::engine::bytes::Bytes;
use crate::engine::crypt::{CryptSpec, Encryptor, Method};
use crate::engine::errs;
use crate::engine::gen;
use crate::engine::open::open;
use crate::engine::runner::{CaseInfo, Ctx, Failure};
use crate::engine::val::{canon, from_primitive, Val};
use crate::engine::writer::{encode_chain, FilterSpec, Writer};
use crate::with_file;
use pdf::object::{Object, PlainRef, Resolve, Stream};
use pdf::primitive::Primitive;
use proptest::prelude::*;
use serde::{Deserialize, Serialize};
use serde_json::json;

#[derive(Clone, Debug)]
pub struct Case {
    pub spec: CryptSpec,
    pub encrypt_direct: bool,
    pub xref_stream: bool,
    pub lens: Vec<u16>,
    pub seed: u32,
    pub high_number: bool,
    pub gens: Vec<u16>,
    pub nums: Vec<u8>,
    pub tape: Vec<u8>,
    pub wrong_seed: u8,
}

#[derive(Clone, Debug, Serialize, Deserialize)]
pub struct Rendered {
    pub file: Bytes,
    pub variant: String,
    pub user_pw: Bytes,
    pub owner_pw: Bytes,
    pub wrong_pws: Vec<Bytes>,
    /// (number, generation, plaintext value)
    pub expect: Vec<(u64, u64, Val)>,
    /// filtered streams: (number, decoded plaintext)
    pub decoded: Vec<(u64, Bytes)>,
    /// the /Encrypt dictionary as written (strings must come back unmodified)
    pub encrypt_dict: Val,
    pub encrypt_obj: Option<u64>,
    /// metadata stream (number, bytes as written) when EncryptMetadata is false
    pub plain_metadata: Option<(u64, Bytes)>,
    pub labels: Vec<String>,
    pub gates: Vec<String>,
}

const LENGTHS: [usize; 9] = [0, 1, 15, 16, 17, 31, 32, 33, 48];

fn text(seed: u32, n: usize) -> Vec<u8> {
    let mut x = seed | 1;
    (0..n)
        .map(|_| {
            x = x.wrapping_mul(1664525).wrapping_add(1013904223);
            (x >> 24) as u8
        })
        .collect()
}

pub fn render(c: &Case) -> Rendered {
    let mut labels = Vec::new();
    let mut gates = Vec::new();
    let s = &c.spec;
    let variant = format!("R{}-V{}-{:?}-{}bit", s.r, s.v, s.method, s.bits);
    labels.push(format!("variant/{}", variant));
    let mut e = Encryptor::new(s);
    let mut w = Writer::new(b"", if c.xref_stream { "1.6" } else { "1.4" });
    w.set_tape(&c.tape);
    let encrypt_obj = if c.encrypt_direct { None } else { Some(4u64) };
    e.encrypt_obj = encrypt_obj;
    let meta_num = 5u64;
    e.metadata_obj = Some(meta_num);
    let enc_dict = e.dict();
    w.crypt = Some(e);
    if c.encrypt_direct {
        labels.push("encrypt/direct-in-trailer".into());
        gates.push("encrypt-direct-in-trailer".into());
    } else {
        labels.push("encrypt/indirect".into());
    }
    // catalog, pages, page
    w.obj(1, 0, &Val::dict(vec![("Type", Val::name("Catalog")), ("Pages", Val::Ref(2, 0)), ("Metadata", Val::Ref(meta_num, 0))]));
    w.obj(2, 0, &Val::dict(vec![("Type", Val::name("Pages")), ("Kids", Val::Array(vec![Val::Ref(3, 0)])), ("Count", Val::Int(1))]));
    w.obj(3, 0, &Val::dict(vec![("Type", Val::name("Page")), ("Parent", Val::Ref(2, 0)), ("MediaBox", Val::Array(vec![Val::Int(0), Val::Int(0), Val::Int(10), Val::Int(10)]))]));
    if let Some(n) = encrypt_obj {
        w.obj(n, 0, &enc_dict);
    }
    let meta_bytes = b"<x:xmpmeta>metadata</x:xmpmeta>".to_vec();
    w.stream_obj(meta_num, 0, &[(Bytes::from("Type"), Val::name("Metadata")), (Bytes::from("Subtype"), Val::name("XML"))], &meta_bytes);
    let mut expect: Vec<(u64, u64, Val)> = Vec::new();
    let mut decoded = Vec::new();
    let mut used_nums: std::collections::BTreeSet<u64> = [0u64, 1, 2, 3, 4, 5].into_iter().collect();
    let mut pick_num = |k: usize| -> u64 {
        let mut n = 6 + (c.nums.get(k).copied().unwrap_or(k as u8) as u64 % 55);
        while used_nums.contains(&n) {
            n += 1;
        }
        used_nums.insert(n);
        n
    };
    let len_at = |k: usize| -> usize {
        let l = c.lens.get(k).copied().unwrap_or(k as u16) as usize;
        if l & 3 == 0 {
            (l >> 2) % 300
        } else {
            LENGTHS[(l >> 2) % LENGTHS.len()]
        }
    };
    let mut k = 0usize;
    let mut max_num = 5u64;
    // 1. dictionaries with strings at several depths
    for i in 0..2 {
        let n = pick_num(k);
        let g = if c.gens.get(i).copied().unwrap_or(0) % 3 == 0 { (c.gens[i] as u64) % 65535 } else { 0 };
        if g != 0 {
            labels.push("generation/non-zero".into());
        }
        let s1 = text(c.seed.wrapping_add(k as u32), len_at(k));
        let s2 = text(c.seed.wrapping_add(100 + k as u32), len_at(k + 1));
        let s3 = text(c.seed.wrapping_add(200 + k as u32), len_at(k + 2));
        for l in [s1.len(), s2.len(), s3.len()] {
            labels.push(format!("string-len/{}", if l > 48 { "random".to_string() } else { l.to_string() }));
        }
        let v = Val::dict(vec![("S", Val::str(&s1)), ("A", Val::Array(vec![Val::str(&s2), Val::Array(vec![Val::str(&s3), Val::Int(7)])])), ("D", Val::dict(vec![("K", Val::str(&s1)), ("N", Val::name("Name"))]))]);
        w.obj(n, g, &v);
        expect.push((n, g, v));
        max_num = max_num.max(n);
        k += 3;
    }
    // 2. streams without and with filters, with a string in the dictionary
    for (i, filtered) in [false, true, false].iter().enumerate() {
        let n = pick_num(k);
        let data = text(c.seed.wrapping_add(300 + k as u32), len_at(k));
        labels.push(format!("stream-len/{}", if data.len() > 48 { "random".to_string() } else { data.len().to_string() }));
        let title = text(c.seed.wrapping_add(400 + k as u32), len_at(k + 1));
        let mut d: Vec<(Bytes, Val)> = vec![(Bytes::from("Title"), Val::str(&title))];
        if *filtered {
            let mut t = crate::engine::tape::Tape::new(&c.tape);
            let (enc, fentries) = encode_chain(&data, &[FilterSpec::Flate { raw: false, level: 6 }], &mut t);
            d.extend(fentries);
            w.stream_obj(n, 0, &d, &enc);
            let mut dd = d.clone();
            dd.push((Bytes::from("Length"), Val::Int(w.crypt.as_ref().unwrap().stream_len(enc.len()) as i64)));
            // expected *raw* (decrypted, still filtered) data
            expect.push((n, 0, Val::Stream(dd, Bytes(enc))));
            decoded.push((n, Bytes(data)));
            labels.push("stream/filtered".into());
        } else {
            w.stream_obj(n, 0, &d, &data);
            let mut dd = d.clone();
            dd.push((Bytes::from("Length"), Val::Int(w.crypt.as_ref().unwrap().stream_len(data.len()) as i64)));
            expect.push((n, 0, Val::Stream(dd, Bytes(data.clone()))));
            decoded.push((n, Bytes(data)));
        }
        max_num = max_num.max(n);
        k += 2;
        let _ = i;
    }
    // 3. a high object number (more than 16 bits)
    if c.high_number {
        let n = 66000 + (c.seed as u64 % 5000);
        let sdata = text(c.seed ^ 0x55, len_at(k));
        let v = Val::Array(vec![Val::str(&sdata), Val::str(b"second")]);
        w.obj(n, 0, &v);
        expect.push((n, 0, v));
        max_num = max_num.max(n);
        labels.push("object-number/>65535".into());
    }
    // 4. members of an (encrypted) object stream
    if c.xref_stream {
        let m1 = pick_num(k + 5);
        let m2 = pick_num(k + 6);
        let stm = pick_num(k + 7);
        let v1 = Val::dict(vec![("In", Val::str(&text(c.seed ^ 0x77, len_at(k + 1))))]);
        let v2 = Val::str(&text(c.seed ^ 0x99, len_at(k + 2)));
        w.objstm(stm, &[(m1, v1.clone()), (m2, v2.clone())], &[FilterSpec::Flate { raw: false, level: 6 }], true, &[]);
        expect.push((m1, 0, v1));
        expect.push((m2, 0, v2));
        max_num = max_num.max(stm).max(m1).max(m2);
        labels.push("object-stream/encrypted".into());
    }
    let mut trailer: Vec<(Bytes, Val)> = vec![(Bytes::from("Root"), Val::Ref(1, 0)), (Bytes::from("ID"), Val::Array(vec![Val::Str(s.id0.clone()), Val::str(b"second-id")]))];
    match encrypt_obj {
        Some(n) => trailer.push((Bytes::from("Encrypt"), Val::Ref(n, 0))),
        None => trailer.push((Bytes::from("Encrypt"), enc_dict.clone())),
    }
    if c.xref_stream {
        let x = max_num + 1;
        w.xref_stream(x, x + 1, &trailer, false, &[FilterSpec::Flate { raw: false, level: 6 }], false);
        labels.push("xref/stream".into());
    } else {
        w.free(0, 0, 65535);
        w.xref_table(max_num + 1, &trailer, false);
        labels.push("xref/table".into());
    }
    // passwords that must be rejected: differ from both within the significant prefix
    let mut wrong: Vec<Bytes> = Vec::new();
    let mutate = |pw: &[u8], salt: u8| -> Vec<u8> {
        let mut p = pw.to_vec();
        if p.is_empty() {
            p.push(b'x' + (salt % 3));
        } else {
            // change the first byte to another ASCII letter
            let mut c0 = b'a' + (salt % 26);
            if c0 == p[0] {
                c0 = if c0 == b'z' { b'a' } else { c0 + 1 };
            }
            p[0] = c0;
        }
        p
    };
    for cand in [mutate(&s.user_pw, c.wrong_seed), mutate(&s.owner_pw, c.wrong_seed.wrapping_add(7)), format!("wrong-{}", c.wrong_seed).into_bytes()] {
        // must differ from both real passwords in their significant form
        let sig = |p: &[u8]| -> Vec<u8> {
            if s.r >= 5 {
                crate::engine::crypt::prep_password(p)
            } else {
                let mut q = p.to_vec();
                q.truncate(32);
                q
            }
        };
        let owner_effective: &[u8] = if s.owner_pw.is_empty() && s.r <= 4 { &s.user_pw } else { &s.owner_pw };
        if sig(&cand) != sig(&s.user_pw) && sig(&cand) != sig(owner_effective) && sig(&cand) != sig(&s.owner_pw) {
            wrong.push(Bytes(cand));
        }
    }
    labels.push(format!("user-pw/{}", if s.user_pw.is_empty() { "empty" } else if s.user_pw.len() > 32 { ">32" } else { "1-32" }));
    labels.push(format!("owner-pw/{}", if s.owner_pw.is_empty() { "empty" } else if s.owner_pw.len() > 32 { ">32" } else { "1-32" }));
    if !s.encrypt_metadata {
        labels.push("metadata/unencrypted".into());
    }
    let plain_metadata = if !s.encrypt_metadata && s.r >= 4 { Some((meta_num, Bytes(meta_bytes.clone()))) } else { None };
    if s.encrypt_metadata || s.r < 4 {
        // metadata stream is encrypted like everything else
        expect.push((meta_num, 0, Val::Stream(vec![(Bytes::from("Type"), Val::name("Metadata")), (Bytes::from("Subtype"), Val::name("XML")), (Bytes::from("Length"), Val::Int(w.crypt.as_ref().unwrap().stream_len(meta_bytes.len()) as i64))], Bytes(meta_bytes))));
    }
    Rendered { file: Bytes(w.finish()), variant, user_pw: s.user_pw.clone(), owner_pw: s.owner_pw.clone(), wrong_pws: wrong, expect, decoded, encrypt_dict: enc_dict, encrypt_obj, plain_metadata, labels, gates }
}

pub fn check_rendered(r: &Rendered) -> Result<(), Failure> {
    let art = || serde_json::to_value(r).unwrap();
    let gate = if r.gates.iter().any(|g| g == "encrypt-direct-in-trailer") { Some("gate:encrypt-direct-in-trailer") } else { None };
    let mut pws: Vec<(&str, &Bytes)> = vec![("user", &r.user_pw)];
    // with no owner password the owner entry is derived from the user password (Algorithm 3)
    if !r.owner_pw.is_empty() {
        pws.push(("owner", &r.owner_pw));
    }
    for (who, pw) in pws {
        for cached in [false, true] {
            let cfg = format!("{} password, {}", who, if cached { "cached" } else { "uncached" });
            let f = match open(&r.file, cached, false, pw) {
                Ok(f) => f,
                Err(e) => {
                    let key = match gate {
                        Some(g) => g.to_string(),
                        None => format!("c06:{}:{}-load-error:{}", r.variant, who, errs::root_kind(&e)),
                    };
                    return Err(Failure::new(key, format!("{}: opening with the correct {} password {:?} failed: {:?}", cfg, who, pw, e), art()));
                }
            };
            with_file!(f, file => {
                let resolver = file.resolver();
                for (n, g, want) in &r.expect {
                    let p = resolver.resolve(PlainRef { id: *n, gen: *g }).map_err(|e| Failure::new(format!("c06:{}:resolve-error:{}", r.variant, errs::root_kind(&e)), format!("{}: object {} {}: {:?}", cfg, n, g, e), art()))?;
                    let got = from_primitive(&p, Some(&resolver)).map_err(|m| Failure::new(format!("c06:{}:stream-raw-error", r.variant), format!("{}: object {}: {}", cfg, n, m), art()))?;
                    if canon(&got) != canon(want) {
                        return Err(Failure::new(format!("c06:{}:plaintext-differs:{}", r.variant, want.kind()), format!("{}: object {} {}: read {:?}, plaintext {:?}", cfg, n, g, got, want), art()));
                    }
                }
                for (n, want) in &r.decoded {
                    let p = resolver.resolve(PlainRef { id: *n, gen: 0 }).map_err(|e| Failure::new(format!("c06:{}:resolve-error:{}", r.variant, errs::root_kind(&e)), format!("{}: {:?}", cfg, e), art()))?;
                    let s = Stream::<()>::from_primitive(p, &resolver).map_err(|e| Failure::new(format!("c06:{}:stream-typed-error", r.variant), format!("{}: {:?}", cfg, e), art()))?;
                    let d = s.data(&resolver).map_err(|e| Failure::new(format!("c06:{}:stream-data-error:{}", r.variant, errs::root_kind(&e)), format!("{}: stream {}: {:?}", cfg, n, e), art()))?;
                    if d[..] != want.0[..] {
                        return Err(Failure::new(format!("c06:{}:stream-data-differs", r.variant), format!("{}: stream {}: decoded {} bytes, plaintext {} bytes", cfg, n, d.len(), want.len()), art()));
                    }
                }
                // the encryption dictionary's own strings are returned unmodified
                if let Some(en) = r.encrypt_obj {
                    let p = resolver.resolve(PlainRef { id: en, gen: 0 }).map_err(|e| Failure::new(format!("c06:{}:encrypt-dict-error", r.variant), format!("{}: {:?}", cfg, e), art()))?;
                    let got = from_primitive(&p, Some(&resolver)).unwrap_or(Val::Null);
                    for key in ["O", "U", "OE", "UE", "Perms"] {
                        if r.encrypt_dict.get(key).map(canon) != got.get(key).map(canon) {
                            return Err(Failure::new(format!("c06:{}:encrypt-dict-string-modified:{}", r.variant, key), format!("{}: /{} of the encryption dictionary read {:?}, written {:?}", cfg, key, got.get(key), r.encrypt_dict.get(key)), art()));
                        }
                    }
                }
                if let Some((mn, raw)) = &r.plain_metadata {
                    let p = resolver.resolve(PlainRef { id: *mn, gen: 0 }).map_err(|e| Failure::new(format!("c06:{}:metadata-error", r.variant), format!("{}: {:?}", cfg, e), art()))?;
                    match p {
                        Primitive::Stream(ps) => {
                            let d = ps.raw_data(&resolver).map_err(|e| Failure::new(format!("c06:{}:metadata-error", r.variant), format!("{}: {:?}", cfg, e), art()))?;
                            if d[..] != raw.0[..] {
                                return Err(Failure::new(format!("c06:{}:metadata-modified", r.variant), format!("{}: metadata stream (EncryptMetadata false) read {:?}, written {:?}", cfg, Bytes::new(&d[..d.len().min(40)]), raw), art()));
                            }
                        }
                        other => return Err(Failure::new(format!("c06:{}:metadata-kind", r.variant), format!("{}: {:?}", cfg, other.get_debug_name()), art())),
                    }
                }
            });
        }
    }
    for pw in &r.wrong_pws {
        match open(&r.file, false, false, pw) {
            Ok(_) => {
                if gate.is_none() {
                    return Err(Failure::new(format!("c06:{}:wrong-password-accepted", r.variant), format!("password {:?} (user {:?}, owner {:?}) was accepted", pw, r.user_pw, r.owner_pw), art()));
                }
            }
            Err(e) => {
                if gate.is_none() && errs::root_kind(&e) != "InvalidPassword" {
                    return Err(Failure::new(format!("c06:{}:wrong-password-error-kind:{}", r.variant, errs::root_kind(&e)), format!("wrong password {:?} rejected with {:?}, expected InvalidPassword", pw, e), art()));
                }
            }
        }
    }
    Ok(())
}

fn pw_bytes() -> impl Strategy<Value = Vec<u8>> {
    prop_oneof![2 => Just(Vec::new()), 5 => proptest::collection::vec(any::<u8>(), 1..33), 2 => proptest::collection::vec(any::<u8>(), 33..41), 2 => proptest::collection::vec(0x20u8..0x7f, 1..12)]
}
fn pw_utf8() -> impl Strategy<Value = Vec<u8>> {
    let ch = prop_oneof![8 => (0x21u8..0x7f).prop_map(|b| (b as char).to_string()), 1 => Just(" ".to_string()), 1 => Just("é".to_string()), 1 => Just("ж".to_string()), 1 => Just("漢".to_string())];
    prop_oneof![2 => Just(Vec::new()), 6 => proptest::collection::vec(ch.clone(), 1..20).prop_map(|v| v.concat().into_bytes()), 1 => proptest::collection::vec(ch, 100..140).prop_map(|v| v.concat().into_bytes())]
}

pub fn spec_strategy() -> impl Strategy<Value = CryptSpec> {
    let variant = prop_oneof![
        2 => Just((2u32, 1u32, 40u32, Method::Rc4)),
        3 => (5u32..=16).prop_map(|n| (3u32, 2u32, n * 8, Method::Rc4)),
        2 => (5u32..=16).prop_map(|n| (4u32, 4u32, n * 8, Method::Rc4)),
        3 => Just((4u32, 4u32, 128u32, Method::AesV2)),
        2 => Just((5u32, 5u32, 256u32, Method::AesV3)),
        3 => Just((6u32, 5u32, 256u32, Method::AesV3)),
    ];
    (variant, pw_bytes(), pw_bytes(), pw_utf8(), pw_utf8(), any::<i32>(), proptest::collection::vec(any::<u8>(), 0..33), any::<bool>(), proptest::collection::vec(any::<u8>(), 8..70), any::<bool>()).prop_map(|((r, v, bits, method), u1, o1, u2, o2, p, id0, em, seed, wl)| {
        let (user_pw, owner_pw) = if r >= 5 { (u2, o2) } else { (u1, o1) };
        CryptSpec { r, v, bits, method, user_pw: Bytes(user_pw), owner_pw: Bytes(owner_pw), p, id0: Bytes(id0), encrypt_metadata: if r >= 4 { em } else { true }, seed: Bytes(seed), write_length: wl }
    })
}

pub fn case_strategy() -> impl Strategy<Value = Case> {
    (spec_strategy(), prop::bool::weighted(0.15), any::<bool>(), proptest::collection::vec(any::<u16>(), 12), any::<u32>(), prop::bool::weighted(0.3), proptest::collection::vec(any::<u16>(), 2), proptest::collection::vec(any::<u8>(), 12), gen::tape(30), any::<u8>())
        .prop_map(|(spec, encrypt_direct, xref_stream, lens, seed, high_number, gens, nums, tape, wrong_seed)| Case { spec, encrypt_direct, xref_stream, lens, seed, high_number, gens, nums, tape, wrong_seed })
}

pub fn run_case(ctx: &Ctx, c: &Case, info: &mut CaseInfo) -> Result<(), Failure> {
    let _ = ctx;
    let r = render(c);
    for l in &r.labels {
        info.label(l.clone());
    }
    let nontrivial = !r.user_pw.is_empty() || !r.owner_pw.is_empty();
    info.nontrivial(nontrivial);
    info.distinct(&r.file.0);
    info.sample = Some(json!({"variant": r.variant, "user_pw": r.user_pw, "owner_pw": r.owner_pw, "labels": r.labels, "file_len": r.file.len(), "objects": r.expect.len()}));
    check_rendered(&r)
}

pub fn replay(_ctx: &Ctx, _check: &str, art: &serde_json::Value, info: &mut CaseInfo) -> Result<(), Failure> {
    let r: Rendered = serde_json::from_value(art.clone()).map_err(|e| Failure::new("harness-bad-artifact", e.to_string(), art.clone()))?;
    info.nontrivial(true);
    info.distinct(&r.file.0);
    check_rendered(&r)
}

pub fn run(ctx: &Ctx) {
    let cases = ctx.tier.pick(1_200, 60_000);
    ctx.run_cases("documents", cases, case_strategy, |c, info| run_case(ctx, c, info));
    // the corpus's encrypted files open with their documented passwords (sanity anchor for the reference crypt code)
    let files = crate::engine::corpus::load(&ctx.verif_dir, false);
    for f in files.iter().filter(|f| f.name.contains("password")) {
        ctx.run_one("corpus-passwords", &f.name, |info| {
            info.nontrivial(true);
            for pw in [&b"userpassword"[..], &b"ownerpassword"[..]] {
                open(&f.data, false, false, pw).map_err(|e| Failure::new("c06:corpus-password-rejected", format!("{} with {:?}: {:?}", f.name, Bytes::new(pw), e), json!({"name": f.name})))?;
            }
            match open(&f.data, false, false, b"not the password") {
                Ok(_) => Err(Failure::new("c06:corpus-wrong-password-accepted", f.name.clone(), json!({"name": f.name}))),
                Err(e) if errs::root_kind(&e) == "InvalidPassword" => Ok(()),
                Err(e) => Err(Failure::new("c06:corpus-wrong-password-error-kind", format!("{:?}", e), json!({"name": f.name}))),
            }
        });
    }
}

pub const RULE: &str = "cases = documents encrypted by the harness's own implementation of the standard security handler: R2/V1 40-bit, R3/V2 40-128 bit, R4/V4 with RC4 (40-128) or AES-128, R5 and R6 AES-256; user/owner passwords 0-40 bytes (UTF-8 for R5/R6, also >127 bytes), any P, ID[0] of 0-32 bytes, EncryptMetadata on/off, /Encrypt indirect (or direct: open finding), classic or stream xref, strings at several nesting depths and streams (plain and Flate) with lengths {0,1,15,16,17,31,32,33,48,random}, object numbers 6-60 and >65535, generation 0 and non-zero, members of an encrypted object stream; oracle = with the user and with the owner password every string and stream equals the plaintext (cached and uncached), passwords differing within the significant prefix are rejected with InvalidPassword, the encryption dictionary's strings and an unencrypted metadata stream are returned as written; non-trivial = a non-empty password; distinct by file bytes";
