//! C01 — reading arbitrary bytes never panics, aborts or hangs.
use crate::engine::val::Val;
use crate::engine::bytes::{to_hex, Bytes};
use crate::engine::corpus;
use crate::engine::docgen;
use crate::engine::isolate::{self, Reply};
use crate::engine::mutate::{self, Mutation};
use crate::engine::runner::{CaseInfo, Ctx, Failure};
use proptest::prelude::*;
use serde_json::{json, Value};
use std::time::Duration;

/// Resource bound (see DESIGN.md §2.1 E6): with n = input length and d = bytes produced by stream filters,
/// total bytes allocated T <= B0 + B1*(n+d) and peak live bytes P <= A0 + A1*(n+d).
/// Calibrated on the corpus and on generated documents (max observed ratios x16 headroom; see evidence).
/// The constants leave room for what the library bounds by its own fixed caps, e.g. a cross-reference
/// table for the largest /Size it accepts (MAX_ID = 1 000 000 entries, about 48 MB at peak).
pub const B0: u64 = 256 << 20;
pub const B1: u64 = 4000;
pub const A0: u64 = 128 << 20;
pub const A1: u64 = 400;
pub const TIMEOUT_S: u64 = 40;

pub const CONFIGS: [(bool, bool); 4] = [(false, false), (false, true), (true, false), (true, true)]; // (cached, tolerant)

pub fn config_name(c: (bool, bool)) -> String {
    format!("{}-{}", if c.0 { "cached" } else { "uncached" }, if c.1 { "tolerant" } else { "strict" })
}

pub struct Verdict {
    pub loaded_any: bool,
    pub labels: Vec<String>,
    pub max_ratio_total: f64,
    pub max_ratio_peak: f64,
}

fn normalize(s: &str) -> String {
    let mut out = String::new();
    let mut last_digit = false;
    for c in s.chars().take(160) {
        if c.is_ascii_digit() {
            if !last_digit {
                out.push('N');
            }
            last_digit = true;
        } else {
            last_digit = false;
            out.push(c);
        }
    }
    out
}

/// Run one input through the deep walk in all four configurations, each in a worker process.
pub fn check_input(data: &[u8], pw: &[u8], what: &str, extra: &Value) -> Result<Verdict, Failure> {
    let art = |cfg: &str| json!({"input": Bytes::new(data), "password": Bytes::new(pw), "config": cfg, "what": what, "extra": extra});
    let mut v = Verdict { loaded_any: false, labels: Vec::new(), max_ratio_total: 0.0, max_ratio_peak: 0.0 };
    for cfg in CONFIGS {
        let name = config_name(cfg);
        let header = json!({"kind": "walk", "cached": cfg.0, "tolerant": cfg.1, "password": to_hex(pw), "deep": true});
        let mut reply = isolate::request(&header, data, Duration::from_secs(TIMEOUT_S));
        if let Reply::Timeout { .. } = reply {
            // confirm with four times the budget before calling it a hang
            reply = match isolate::request(&header, data, Duration::from_secs(TIMEOUT_S * 4)) {
                Reply::Timeout { seconds } => Reply::Timeout { seconds },
                Reply::Ok(_) => return Err(Failure::new("harness-inconclusive-slow", format!("{}: a walk exceeded {} s once but finished within {} s on retry (slow, not a hang)", name, TIMEOUT_S, TIMEOUT_S * 4), json!({}))),
                died => died,
            };
        }
        match reply {
            Reply::Timeout { seconds } => {
                return Err(Failure::new(format!("hang:no-return-within-{}s", seconds), format!("{}: the walk of a {}-byte input did not return within {} s (confirmed after a first time-out at {} s)", name, data.len(), seconds, TIMEOUT_S), art(&name)));
            }
            Reply::Died { signal, code, stderr_tail } => {
                let what_died = if stderr_tail.contains("overflowed its stack") {
                    "stack-overflow".to_string()
                } else if stderr_tail.contains("memory allocation of") {
                    "allocation-failure".to_string()
                } else if stderr_tail.contains("panic in a destructor") || stderr_tail.contains("panicked while panicking") || stderr_tail.contains("panic in a function that cannot unwind") {
                    "panic-in-drop".to_string()
                } else {
                    normalize(&stderr_tail)
                };
                return Err(Failure::new(format!("crash:{}:{}", signal.map(|s| format!("signal{}", s)).unwrap_or_else(|| format!("exit{:?}", code)), what_died), format!("{}: worker died (signal {:?}, code {:?}): {}", name, signal, code, stderr_tail), art(&name)));
            }
            Reply::Ok(r) => {
                if let Some(e) = r.get("harness_error") {
                    return Err(Failure::new("harness-worker", e.to_string(), json!({})));
                }
                if let Some(p) = r["panics"].as_array().and_then(|a| a.first()) {
                    let key = p[1].as_str().unwrap_or("panic:?").to_string();
                    return Err(Failure::new(key, format!("{}: panic during {} ({}) [{} panics in this walk]", name, p[0].as_str().unwrap_or(""), p[2].as_str().unwrap_or(""), r["panics"].as_array().map(|a| a.len()).unwrap_or(0)), art(&name)));
                }
                let loaded = r["loaded"].as_bool().unwrap_or(false);
                if loaded {
                    v.loaded_any = true;
                    if let Some(reached) = r["reached"].as_array() {
                        for x in reached {
                            let l = format!("reached/{}", x.as_str().unwrap_or(""));
                            if !v.labels.contains(&l) {
                                v.labels.push(l);
                            }
                        }
                    }
                } else if !cfg.0 && !cfg.1 {
                    v.labels.push(format!("rejected/{}", r["load_error"].as_str().unwrap_or("?")));
                }
                let n = data.len() as u64 + r["decoded"].as_u64().unwrap_or(0);
                let total = r["alloc_total"].as_u64().unwrap_or(0);
                let peak = r["alloc_peak"].as_u64().unwrap_or(0);
                v.max_ratio_total = v.max_ratio_total.max(total as f64 / (n.max(1)) as f64);
                v.max_ratio_peak = v.max_ratio_peak.max(peak as f64 / (n.max(1)) as f64);
                if total > B0 + B1 * n {
                    return Err(Failure::new("resource:total-allocation-out-of-proportion", format!("{}: {} bytes allocated in total for {} input bytes + {} decoded bytes (bound {} + {}*(n+d))", name, total, data.len(), r["decoded"], B0, B1), art(&name)));
                }
                if peak > A0 + A1 * n {
                    return Err(Failure::new("resource:peak-memory-out-of-proportion", format!("{}: peak of {} live bytes for {} input bytes + {} decoded bytes (bound {} + {}*(n+d))", name, peak, data.len(), r["decoded"], A0, A1), art(&name)));
                }
            }
        }
    }
    Ok(v)
}

#[derive(Clone, Debug)]
pub enum Input {
    CorpusMutant { file: usize, other: usize, muts: Vec<Mutation> },
    Generated { spec: Box<docgen::DocSpec>, muts: Vec<Mutation> },
    Raw { header: bool, body: Vec<u8>, tail: bool },
}

pub fn input_strategy(nfiles: usize) -> impl Strategy<Value = Input> {
    prop_oneof![
        4 => (0usize..nfiles, 0usize..nfiles, prop_oneof![3 => mutate::mutations(2), 1 => mutate::mutations(8)]).prop_map(|(file, other, muts)| Input::CorpusMutant { file, other, muts }),
        2 => (docgen::spec_strategy(), proptest::collection::vec(mutate::mutation(), 0..3)).prop_map(|(spec, muts)| Input::Generated { spec: Box::new(spec), muts }),
        // damage inside object bodies, laid out afterwards: the file keeps its structure and loads
        5 => (docgen::spec_strategy(), proptest::collection::vec((any::<u16>(), mutate::mutation()), 1..6)).prop_map(|(mut spec, bm)| {
            spec.body_muts = bm;
            Input::Generated { spec: Box::new(spec), muts: vec![] }
        }),
        1 => (any::<bool>(), crate::engine::gen::data(3000), any::<bool>()).prop_map(|(header, body, tail)| Input::Raw { header, body, tail }),
    ]
}

pub fn materialize(i: &Input, files: &[corpus::CorpusFile]) -> (Vec<u8>, Vec<u8>, Vec<String>) {
    match i {
        Input::CorpusMutant { file, other, muts } => {
            let f = &files[*file];
            let mut data = f.data.clone();
            let mut labels = vec![format!("source/corpus:{}", f.name)];
            for m in muts {
                let k = mutate::apply(&mut data, m, &files[*other].data);
                labels.push(format!("mutation/{}", k));
            }
            (data, f.password.clone(), labels)
        }
        Input::Generated { spec, muts } => {
            let b = docgen::build(spec);
            let mut data = b.file;
            let mut labels = vec!["source/generated".to_string()];
            if !spec.body_muts.is_empty() {
                labels.push("mutation/object-bodies-before-layout".into());
            }
            if muts.is_empty() {
                labels.push("mutation/none".into());
            }
            for m in muts {
                let k = mutate::apply(&mut data, m, &[]);
                labels.push(format!("mutation/{}", k));
            }
            (data, b.password, labels)
        }
        Input::Raw { header, body, tail } => {
            let mut d = Vec::new();
            if *header {
                d.extend_from_slice(b"%PDF-1.7\n");
            }
            d.extend_from_slice(body);
            if *tail {
                d.extend_from_slice(b"\nstartxref\n9\n%%EOF\n");
            }
            (d, vec![], vec!["source/raw-bytes".into()])
        }
    }
}

pub fn replay(_ctx: &Ctx, _check: &str, art: &Value, info: &mut CaseInfo) -> Result<(), Failure> {
    let data: Bytes = serde_json::from_value(art["input"].clone()).map_err(|e| Failure::new("harness-bad-artifact", e.to_string(), json!({})))?;
    let pw: Bytes = serde_json::from_value(art["password"].clone()).unwrap_or_default();
    info.nontrivial(true);
    check_input(&data, &pw, "replay", &json!({})).map(|_| ())
}

pub fn run(ctx: &Ctx) {
    let files = corpus::load(&ctx.verif_dir, true);
    if files.len() < 20 {
        ctx.harness_error(format!("corpus missing ({} files)", files.len()));
        return;
    }
    let ratios = std::sync::Mutex::new((0.0f64, 0.0f64));
    // (i) every corpus file as it is, including the known-invalid ones
    ctx.run_enum(
        "corpus-as-is",
        files.len() as u64,
        |i| i as usize,
        |i, info| {
            let f = &files[*i];
            let v = check_input(&f.data, &f.password, &f.name, &json!({}))?;
            info.label(if v.loaded_any { "loaded" } else { "rejected" });
            info.nontrivial(v.loaded_any);
            info.distinct(&f.name);
            let mut r = ratios.lock().unwrap();
            r.0 = r.0.max(v.max_ratio_total);
            r.1 = r.1.max(v.max_ratio_peak);
            Ok(())
        },
    );
    // (ii)+(iii) mutants of corpus files and generated documents, raw byte strings
    let nfiles = files.len();
    let cases = ctx.tier.pick(8_000, 250_000);
    ctx.run_cases(
        "mutants-and-generated",
        cases,
        || input_strategy(nfiles),
        |input, info| {
            let (data, pw, labels) = materialize(input, &files);
            for l in labels {
                info.label(l);
            }
            info.distinct(&data);
            let v = check_input(&data, &pw, "generated", &json!({}))?;
            info.label(if v.loaded_any { "loaded" } else { "rejected" });
            for l in v.labels {
                info.label(l);
            }
            info.nontrivial(v.loaded_any);
            info.sample = Some(json!({"input_len": data.len(), "input_head": Bytes::new(&data[..data.len().min(60)]), "loaded": v.loaded_any}));
            let mut r = ratios.lock().unwrap();
            r.0 = r.0.max(v.max_ratio_total);
            r.1 = r.1.max(v.max_ratio_peak);
            Ok(())
        },
    );
    // (iv) hostile but well-formed structures (the cases C14 enumerates: /Prev loops, ladders of shared tree nodes,
    //      lying object streams, deep nesting): they are inputs like any other
    let structural = crate::props::c14::structural_cases();
    ctx.run_enum(
        "hostile-structures",
        structural.len() as u64,
        |i| i as usize,
        |i, info| {
            let (name, data) = &structural[*i];
            info.label("structural");
            info.distinct(data);
            let v = check_input(data, b"", name, &json!({}))?;
            info.nontrivial(v.loaded_any);
            Ok(())
        },
    );
    // (v) streams with a predictor whose decoded data is not a whole number of rows (short or long by up to a row):
    //     every predictor x colours x bits x columns x rows x remainder, a seed-rotated part in the quick tier
    let mut geo: Vec<(u32, u32, u32, u32, u32, i32, bool)> = Vec::new();
    for pred in [2u32, 10, 11, 12, 13, 14, 15] {
        for colors in 1..=3u32 {
            for bpc in [1u32, 2, 4, 8, 16] {
                for cols in [1u32, 2, 3, 5, 8] {
                    for rows in 1..=3u32 {
                        let stride = ((cols * colors * bpc + 7) / 8) as i32;
                        for delta in -(stride + 1)..=2 {
                            for lzw in [false, true] {
                                geo.push((pred, colors, bpc, cols, rows, delta, lzw));
                            }
                        }
                    }
                }
            }
        }
    }
    let part = ctx.tier.pick(6, 1);
    let rot = ctx.seed % part;
    let geo: Vec<_> = geo.into_iter().enumerate().filter(|(i, _)| *i as u64 % part == rot).map(|(_, g)| g).collect();
    ctx.run_enum(
        "predicted-streams",
        geo.len() as u64,
        |i| geo[i as usize],
        |g, info| {
            let (pred, colors, bpc, cols, rows, delta, lzw) = *g;
            let stride = ((cols * colors * bpc + 7) / 8) as i32;
            let row = if pred >= 10 { stride + 1 } else { stride };
            let len = (row * rows as i32 + delta).max(0) as usize;
            // row data: PNG filter-type bytes 0-4 at row starts, otherwise a fixed pattern
            let data: Vec<u8> = (0..len).map(|k| if pred >= 10 && (k as i32) % row == 0 { ((k as i32 / row) % 5) as u8 } else { (k * 37 + 11) as u8 }).collect();
            let mut t = crate::engine::tape::Tape::new(&[]);
            let enc = if lzw { crate::engine::filters::lzw_encode(&data, 1, &mut t) } else { crate::engine::filters::flate_encode(&data, false, 6) };
            let parms = Val::dict(vec![("Predictor", Val::Int(pred as i64)), ("Colors", Val::Int(colors as i64)), ("BitsPerComponent", Val::Int(bpc as i64)), ("Columns", Val::Int(cols as i64))]);
            let mut w = crate::engine::writer::Writer::new(b"", "1.5");
            for (n, v) in crate::engine::writer::minimal_catalog(1, 2, 3, 1) {
                w.obj(n, 0, &v);
            }
            let dict = vec![
                (Bytes::from("Type"), Val::name("XObject")),
                (Bytes::from("Subtype"), Val::name("Image")),
                (Bytes::from("Width"), Val::Int(cols as i64)),
                (Bytes::from("Height"), Val::Int(rows as i64)),
                (Bytes::from("ColorSpace"), Val::name(["DeviceGray", "DeviceGray", "DeviceRGB"][colors as usize - 1])),
                (Bytes::from("BitsPerComponent"), Val::Int(bpc as i64)),
                (Bytes::from("Filter"), Val::name(if lzw { "LZWDecode" } else { "FlateDecode" })),
                (Bytes::from("DecodeParms"), parms),
            ];
            w.stream_obj(4, 0, &dict, &enc);
            w.free(0, 0, 65535);
            w.xref_table(5, &[(Bytes::from("Root"), Val::Ref(1, 0))], false);
            let file = w.finish();
            info.label(format!("predictor/{}", pred));
            info.label(if delta == 0 { "rows/whole" } else if delta < 0 { "rows/short" } else { "rows/long" });
            info.distinct(&file);
            let v = check_input(&file, b"", "predicted-stream", &json!({"geometry": format!("{:?}", g)}))?;
            info.nontrivial(v.loaded_any);
            Ok(())
        },
    );
    let r = ratios.lock().unwrap();
    ctx.set_extra("resource_bound", json!({"total_bytes": format!("T <= {} + {}*(n+d)", B0, B1), "peak_bytes": format!("P <= {} + {}*(n+d)", A0, A1), "max_observed_total_per_byte": r.0, "max_observed_peak_per_byte": r.1, "timeout_s": TIMEOUT_S, "hang_rule": "a time-out is confirmed with 4x the budget before it counts"}));
}

pub const RULE: &str = "cases = byte strings: every corpus file (incl. files/invalid), corpus files with 1-8 stacked structure-aware mutations (bit flips, byte runs, deletions, duplications, truncation, boundary numbers, swapped keys, spliced files, perturbed startxref and /Length, retargeted references, inserted tokens, deep nesting), generated typed documents (docgen) with 0-3 mutations, raw byte strings, the hostile structures of C14 (/Prev loops, ladders of shared tree nodes, lying object streams, deep nesting), image streams with every predictor geometry whose decoded data is short or long by up to a row; each x {strict, tolerant} x {cached, uncached}, executed in worker processes; oracle = the deep walk (engine/walker.rs) returns from every call with a value or an error: no panic, no abnormal worker exit, no confirmed time-out, allocation within T <= B0+B1*(n+d) and P <= A0+A1*(n+d); non-trivial = the input loaded in at least one configuration (typed loading was reached); distinct by input bytes";
