//! C03 — every spec-conformant spelling of an object parses to the value it denotes.
use crate::engine::bytes::Bytes;
use crate::engine::gen;
use crate::engine::printer::Printer;
use crate::engine::resolve::BufResolve;
use crate::engine::runner::{CaseInfo, Ctx, Failure};
use crate::engine::tape::Tape;
use crate::engine::val::{canon, from_primitive, from_primitive_nr, same_kind_tree, Val};
use crate::engine::valgen;
use pdf::object::{NoResolve, PlainRef};
use pdf::parser::{parse, parse_indirect_object, parse_stream, parse_with_lexer, Context, Lexer, ParseFlags};
use proptest::prelude::*;
use serde::{Deserialize, Serialize};
use serde_json::json;

#[derive(Clone, Debug, Serialize, Deserialize)]
pub struct Rendered {
    /// whole | sequence | indirect | stream
    pub context: String,
    pub text: Bytes,
    /// expected values, in order
    pub expected: Vec<Val>,
    /// [start, end) of each value's own text inside `text`
    pub spans: Vec<(usize, usize)>,
    /// object id/gen for the indirect contexts
    pub id: (u64, u64),
    pub used: Vec<String>,
}

fn cmp(expected: &Val, got: &Val) -> Result<(), String> {
    if canon(expected) != canon(got) {
        return Err(format!("value differs: expected {:?}, parsed {:?}", expected, got));
    }
    if !same_kind_tree(expected, got) {
        return Err(format!("integer/real kind differs: expected {:?}, parsed {:?}", expected, got));
    }
    Ok(())
}

pub fn check_rendered(r: &Rendered) -> Result<(), Failure> {
    let fail = |what: &str, msg: String| {
        let mut used = r.used.clone();
        used.retain(|u| u != "hex-string" && u != "ws-space");
        Failure::new(format!("c03:{}:{}:{}", r.context, what, used.join("+")), format!("{}; text={:?}", msg, r.text), serde_json::to_value(r).unwrap())
    };
    let buf = &r.text.0;
    match r.context.as_str() {
        "whole" => {
            let got = parse(buf, &NoResolve, ParseFlags::ANY).map_err(|e| fail("error", format!("parse failed: {:?}", e)))?;
            cmp(&r.expected[0], &from_primitive_nr(&got)).map_err(|m| fail("value", m))
        }
        "sequence" => {
            let mut lexer = Lexer::new(buf);
            for (i, exp) in r.expected.iter().enumerate() {
                let before = lexer.get_pos();
                let got = match parse_with_lexer(&mut lexer, &NoResolve, ParseFlags::ANY) {
                    Ok(g) => g,
                    Err(e) => {
                        let after = lexer.get_pos();
                        if after != before {
                            return Err(fail("pos-after-error", format!("element {}: parse failed ({:?}) and moved the position {} -> {}", i, e, before, after)));
                        }
                        return Err(fail("error", format!("element {} of {}: parse failed: {:?}", i, r.expected.len(), e)));
                    }
                };
                cmp(exp, &from_primitive_nr(&got)).map_err(|m| fail("value", format!("element {}: {}", i, m)))?;
                let pos = lexer.get_pos();
                let end = r.spans[i].1;
                let next_start = r.spans.get(i + 1).map(|s| s.0).unwrap_or(buf.len());
                if pos < end || pos > next_start {
                    return Err(fail("position", format!("element {}: lexer position {} outside [{}, {}] (own text ends at {}, next starts at {})", i, pos, end, next_start, end, next_start)));
                }
            }
            Ok(())
        }
        "indirect" => {
            let resolver = BufResolve::new(buf);
            let mut lexer = Lexer::new(buf);
            let (id, got) = parse_indirect_object(&mut lexer, &resolver, None, ParseFlags::ANY).map_err(|e| fail("error", format!("parse_indirect_object failed: {:?}", e)))?;
            if (id.id, id.gen) != r.id {
                return Err(fail("id", format!("object id {:?} != {:?}", id, r.id)));
            }
            let got = from_primitive(&got, Some(&resolver)).map_err(|m| fail("stream-data", m))?;
            cmp(&r.expected[0], &got).map_err(|m| fail("value", m))
        }
        "stream" => {
            let resolver = BufResolve::new(buf);
            let ctx = Context { decoder: None, id: PlainRef { id: r.id.0, gen: r.id.1 } };
            let s = parse_stream(buf, &resolver, &ctx).map_err(|e| fail("error", format!("parse_stream failed: {:?}", e)))?;
            let got = from_primitive(&pdf::primitive::Primitive::Stream(s), Some(&resolver)).map_err(|m| fail("stream-data", m))?;
            cmp(&r.expected[0], &got).map_err(|m| fail("value", m))
        }
        other => Err(Failure::new("harness-bad-context", other.to_string(), json!({}))),
    }
}

#[derive(Clone, Debug)]
pub struct Case {
    pub context: u8,
    pub vals: Vec<Val>,
    pub tape: Vec<u8>,
    pub id: (u64, u64),
    pub stream_data: Vec<u8>,
}

pub fn render(c: &Case, disabled: &[String]) -> (Rendered, Vec<String>) {
    let mut t = Tape::new(&c.tape);
    for d in disabled {
        t.disabled.insert(d.clone());
    }
    let mut p = Printer::new(&mut t);
    let mut spans = Vec::new();
    let mut expected = Vec::new();
    let context;
    match c.context {
        0 => {
            context = "whole";
            let v = &c.vals[0];
            // optional leading white-space / comment
            if p.t.opt("leading-separator", 60) {
                p.sep(true);
            }
            let s = p.out.len();
            p.val(v);
            spans.push((s, p.out.len()));
            if p.t.opt("trailing-separator", 100) {
                p.sep(true);
            } else {
                p.t.mark("ends-at-end-of-buffer");
            }
            expected.push(v.clone());
        }
        1 => {
            context = "sequence";
            for (i, v) in c.vals.iter().enumerate() {
                if i > 0 {
                    let nd = matches!(v, Val::Str(_) | Val::Name(_) | Val::Array(_) | Val::Dict(_));
                    p.sep(nd);
                }
                let s = p.out.len();
                p.val(v);
                spans.push((s, p.out.len()));
                expected.push(v.clone());
            }
            if p.t.opt("trailing-separator", 128) {
                p.sep(true);
            } else {
                p.t.mark("ends-at-end-of-buffer");
            }
        }
        2 | 3 => {
            context = "indirect";
            p.raw(c.id.0.to_string().as_bytes());
            p.ws1();
            p.raw(c.id.1.to_string().as_bytes());
            p.ws1();
            p.raw(b"obj");
            let v = if c.context == 3 {
                // a stream object: dictionary from vals[0] if it is one, plus /Length
                let mut d = match &c.vals[0] {
                    Val::Dict(d) => d.clone(),
                    _ => Vec::new(),
                };
                d.retain(|(k, _)| k.as_slice() != b"Length");
                let pos = if d.is_empty() { 0 } else { (c.tape.first().copied().unwrap_or(0) as usize) % (d.len() + 1) };
                d.insert(pos, (Bytes::from("Length"), Val::Int(c.stream_data.len() as i64)));
                Val::Stream(d, Bytes(c.stream_data.clone()))
            } else {
                c.vals[0].clone()
            };
            let nd = matches!(v, Val::Str(_) | Val::Name(_) | Val::Array(_) | Val::Dict(_) | Val::Stream(..));
            p.sep(nd);
            let s = p.out.len();
            p.val(&v);
            spans.push((s, p.out.len()));
            p.sep(false);
            p.raw(b"endobj");
            if p.t.opt("trailing-separator", 128) {
                p.sep(true);
            }
            expected.push(v);
        }
        _ => {
            context = "stream";
            let mut d = match &c.vals[0] {
                Val::Dict(d) => d.clone(),
                _ => Vec::new(),
            };
            d.retain(|(k, _)| k.as_slice() != b"Length");
            d.push((Bytes::from("Length"), Val::Int(c.stream_data.len() as i64)));
            let v = Val::Stream(d, Bytes(c.stream_data.clone()));
            if p.t.opt("leading-separator", 60) {
                p.sep(true);
            }
            let s = p.out.len();
            p.val(&v);
            spans.push((s, p.out.len()));
            if p.t.opt("trailing-separator", 128) {
                p.sep(true);
            }
            expected.push(v);
        }
    }
    let text = Bytes(std::mem::take(&mut p.out));
    let used: Vec<String> = t.used.iter().map(|s| s.to_string()).collect();
    let excluded = t.excluded.clone();
    (Rendered { context: context.to_string(), text, expected, spans, id: c.id, used }, excluded)
}

pub fn case_strategy() -> impl Strategy<Value = Case> {
    (
        prop_oneof![3 => Just(0u8), 3 => Just(1u8), 2 => Just(2u8), 1 => Just(3u8), 1 => Just(4u8)],
        proptest::collection::vec(valgen::val(4), 1..6),
        gen::tape(400),
        (0u64..100000, prop_oneof![4 => Just(0u64), 1 => 0u64..65536]),
        prop_oneof![gen::data(600), proptest::collection::vec(any::<u8>(), 0..30)],
    )
        .prop_map(|(context, mut vals, tape, id, stream_data)| {
            if context != 1 {
                vals.truncate(1);
            }
            Case { context, vals, tape, id, stream_data }
        })
}

pub fn run_case(ctx: &Ctx, c: &Case, info: &mut CaseInfo) -> Result<(), Failure> {
    let disabled: Vec<String> = ctx.known.open_for("C03").filter_map(|f| f.key.strip_prefix("gate:").map(|s| s.to_string())).collect();
    let (r, excluded) = render(c, &disabled);
    info.excluded = excluded;
    info.label(format!("context/{}", r.context));
    for u in &r.used {
        info.label(format!("construct/{}", u));
    }
    let noncanon = r.used.iter().any(|u| u != "ws-space");
    info.nontrivial(noncanon);
    info.distinct(&r.text.0);
    info.sample = Some(json!({"context": r.context, "text": r.text, "constructs": r.used, "expected": format!("{:?}", r.expected).chars().take(300).collect::<String>()}));
    check_rendered(&r)
}

pub fn replay(_ctx: &Ctx, _check: &str, art: &serde_json::Value, info: &mut CaseInfo) -> Result<(), Failure> {
    let r: Rendered = serde_json::from_value(art.clone()).map_err(|e| Failure::new("harness-bad-artifact", e.to_string(), art.clone()))?;
    info.nontrivial(true);
    info.distinct(&r.text.0);
    check_rendered(&r)
}

pub fn run(ctx: &Ctx) {
    // focused probes for open gates (each gate alone switched on) are the same generator with all other
    // constructs available; an open gate is excluded from the main search and exercised here.
    let cases = ctx.tier.pick(40_000, 3_000_000);
    ctx.run_cases("spellings", cases, case_strategy, |c, info| run_case(ctx, c, info));
}

pub const RULE: &str = "cases = (value tree(s), choice tape) rendered by an independent randomised ISO 32000-1 printer in one of 4 contexts (whole buffer via parse, sequence via repeated parse_with_lexer with position check, indirect object incl. streams via parse_indirect_object, parse_stream); oracle = the printer's input value (Integer vs Real as denoted, stream bytes compared); non-trivial = the spelling uses at least one non-canonical construct; distinct by rendered bytes";
