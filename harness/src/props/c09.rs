//! C09 — a reload sees exactly the saved modifications and nothing else changes.
use crate::engine::bytes::Bytes;
use crate::engine::corpus;
use crate::engine::docgen;
use crate::engine::errs;
use crate::engine::gen;
use crate::engine::open::{open, AnyFile};
use crate::engine::panics;
use crate::engine::runner::{panic_failure, CaseInfo, Ctx, Failure};
use crate::engine::val::{canon, from_primitive, to_primitive, Val};
use crate::engine::valgen;
use crate::{with_file, with_file_mut};
use pdf::object::{PlainRef, Ref, Resolve, Updater};
use pdf::primitive::Primitive;
use proptest::prelude::*;
use serde::{Deserialize, Serialize};
use serde_json::json;
use std::collections::BTreeMap;

#[derive(Clone, Debug, Serialize, Deserialize)]
pub enum Op {
    Create(Val),
    /// update the k-th known reference (base objects first, then created ones)
    Update(u16, Val),
    Promise,
    Fulfil(u16, Val),
    /// read through the open document
    Read(u16),
    Save,
    /// a save that must fail: an unfulfilled promise exists; afterwards the promise is fulfilled (repair) and the save retried
    FailingSaveThenRepair(Val),
    /// write a stream primitive that still points into the base file (as returned by resolve) to another reference and
    /// save: the serializer may refuse (then the object is replaced by the given value and the save retried) or copy the data
    CopyBaseStreamThenSave(u16, u16, Val),
}

#[derive(Clone, Debug, Serialize, Deserialize)]
pub struct Case {
    pub base_name: String,
    pub base: Bytes,
    pub password: Bytes,
    pub cached: bool,
    pub ops: Vec<Op>,
    /// generation of base objects whose generation is not 0 (bases with freed and re-used numbers)
    #[serde(default)]
    pub gens: Vec<(u64, u64)>,
}

fn tmp_path() -> String {
    let dir = format!("{}/work", std::env::var("VERIF_DIR").unwrap_or_else(|_| "/verif".into()));
    let _ = std::fs::create_dir_all(&dir);
    format!("{}/c09-{}-{:?}.pdf", dir, std::process::id(), std::thread::current().id()).replace(['(', ')'], "")
}

fn read_val<R: Resolve>(r: &R, id: PlainRef) -> Result<Val, pdf::error::PdfError> {
    let p = r.resolve(id)?;
    from_primitive(&p, Some(r)).map_err(|m| pdf::error::PdfError::Other { msg: m })
}

/// Snapshot of every object of a document: number -> value (None = missing/free/unreadable).
fn snapshot(data: &[u8], pw: &[u8], cached: bool) -> Result<(BTreeMap<u64, Option<Val>>, u32), pdf::error::PdfError> {
    let f = open(data, cached, false, pw)?;
    Ok(with_file!(f, file => {
        let r = file.resolver();
        let size = (file.trailer.size.max(0) as u64 + 2).min(5000);
        let mut m = BTreeMap::new();
        for n in 0..size {
            m.insert(n, read_val(&r, PlainRef { id: n, gen: 0 }).ok());
        }
        (m, file.num_pages())
    }))
}

pub fn check_case(c: &Case, info: &mut CaseInfo) -> Result<(), Failure> {
    let art = || serde_json::to_value(c).unwrap();
    let fail = |key: &str, msg: String| Failure::new(format!("c09:{}", key), msg, art());
    // pristine view of the base
    let (base_objects, base_pages) = snapshot(&c.base, &c.password, false).map_err(|e| Failure::new("harness-c09-base", format!("{}: {:?}", c.base_name, e), json!({})))?;
    let is_xref_like = |v: &Option<Val>| matches!(v, Some(Val::Stream(d, _)) if d.iter().any(|(k, x)| k.as_slice() == b"Type" && (*x == Val::name("XRef") || *x == Val::name("ObjStm"))));
    let mut f: AnyFile = open(&c.base, c.cached, false, &c.password).map_err(|e| Failure::new("harness-c09-base", format!("{:?}", e), json!({})))?;
    // references the history can address: in-use base objects (not the catalog, page tree, xref or object streams), then created / promised ones
    let mut known: Vec<PlainRef> = Vec::new();
    let root_id = with_file!(f, file => file.trailer.root.get_ref().get_inner().id);
    let pages_id = with_file!(f, file => {
        let r = file.resolver();
        match r.resolve(PlainRef { id: root_id, gen: 0 }) {
            Ok(Primitive::Dictionary(d)) => match d.get("Pages") { Some(Primitive::Reference(p)) => p.id, _ => u64::MAX },
            _ => u64::MAX,
        }
    });
    // objects that loading itself reads (catalog-level typed fields, info dictionary, xref/object streams):
    // replacing those with arbitrary values would make the file invalid, which is not what the property is about
    let mut critical = load_critical(&c.base, &c.password);
    // an integer that serves as some stream's /Length is part of that stream: overwriting it changes the
    // stream by design, so it is not offered as an update target either
    for v in base_objects.values().flatten() {
        if let Val::Stream(d, _) = v {
            for (k, x) in d {
                if let (b"Length", Val::Ref(n, _)) = (k.as_slice(), x) {
                    critical.insert(*n);
                }
            }
        }
    }
    for (n, v) in &base_objects {
        if v.is_some() && !is_xref_like(v) && *n != root_id && *n != pages_id && *n != 0 && !critical.contains(n) {
            let gen = c.gens.iter().find(|(k, _)| k == n).map(|(_, g)| *g).unwrap_or(0);
            known.push(PlainRef { id: *n, gen });
        }
    }
    let n_base_known = known.len();
    let mut model: BTreeMap<u64, Val> = BTreeMap::new(); // written values, by object number
    let mut pending_promises: Vec<PlainRef> = Vec::new();
    let mut current_bytes: Vec<u8> = c.base.0.clone();
    let mut saves = 0usize;
    let mut wrote_since_save = false;
    let path = tmp_path();

    macro_rules! lib {
        ($what:expr, $e:expr) => {
            match panics::catch(|| $e) {
                Err(p) => {
                    let _ = std::fs::remove_file(&path);
                    return Err(panic_failure(&p, art()));
                }
                Ok(r) => r,
            }
        };
    }

    let check_reads = |f: &AnyFile, model: &BTreeMap<u64, Val>, when: &str| -> Result<(), Failure> {
        with_file!(f, file => {
            let r = file.resolver();
            for (n, want) in model.iter() {
                let got = read_val(&r, PlainRef { id: *n, gen: 0 }).map_err(|e| fail(&format!("read-after-write-error:{}", errs::root_kind(&e)), format!("{}: resolve({}) through the open document failed: {:?}", when, n, e)))?;
                let mut want = want.clone();
                add_length(&mut want);
                let mut got = got;
                add_length(&mut got);
                if canon(&got) != canon(&want) {
                    return Err(fail("read-after-write-differs:resolve", format!("{}: resolve({}) through the open document gives {:?}, last written {:?}", when, n, got, want)));
                }
                // typed read (goes through the object cache)
                let typed = r.get(Ref::<Primitive>::from_id(*n)).map_err(|e| fail(&format!("read-after-write-error:get:{}", errs::root_kind(&e)), format!("{}: get({}) failed: {:?}", when, n, e)))?;
                let got2 = from_primitive(&typed, Some(&r)).map_err(|m| fail("stream-data", m))?;
                let mut got2 = got2;
                add_length(&mut got2);
                if canon(&got2) != canon(&want) {
                    return Err(fail("read-after-write-differs:get", format!("{}: get::<Primitive>({}) through the open document gives {:?}, last written {:?}", when, n, got2, want)));
                }
            }
            Ok(())
        })
    };

    for (step, op) in c.ops.iter().enumerate() {
        match op {
            Op::Create(v) => {
                let p = to_primitive(v);
                let r = lib!("create", with_file_mut!(f, file => file.create(p))).map_err(|e| fail("create-error", format!("{:?}", e)))?;
                let id = r.get_ref().get_inner();
                if model.contains_key(&id.id) || base_objects.get(&id.id).map(|v| v.is_some()).unwrap_or(false) {
                    return Err(fail("create-reused-number", format!("create returned {:?}, which is already in use", id)));
                }
                known.push(id);
                model.insert(id.id, v.clone());
                wrote_since_save = true;
                info.label("op/create");
            }
            Op::Update(sel, v) => {
                if known.is_empty() {
                    continue;
                }
                let k = gen::pick_index(*sel, known.len());
                let target = known[k];
                if pending_promises.contains(&target) {
                    continue;
                }
                let p = to_primitive(v);
                let r = lib!("update", with_file_mut!(f, file => file.update(target, p))).map_err(|e| fail("update-error", format!("update({:?}) failed: {:?}", target, e)))?;
                let got = r.get_ref().get_inner();
                if got.id != target.id {
                    return Err(fail("update-changed-reference", format!("update({:?}) returned {:?}: the caller's reference was not updated (step {})", target, got, step)));
                }
                if model.contains_key(&target.id) {
                    info.label("op/update-again");
                }
                info.label(if k < n_base_known { "op/update-base-object" } else { "op/update-created-object" });
                model.insert(target.id, v.clone());
                wrote_since_save = true;
            }
            Op::Promise => {
                let pr = lib!("promise", with_file_mut!(f, file => file.promise::<Primitive>()));
                pending_promises.push(pr.get_inner());
                // keep the typed promise out of the model: it is re-created for fulfil through update on the reference
                std::mem::forget(pr);
                info.label("op/promise");
            }
            Op::Fulfil(_, v) => {
                // fulfil the oldest pending promise (fulfil == update on the promised reference)
                if pending_promises.is_empty() {
                    continue;
                }
                let target = pending_promises.remove(0);
                let p = to_primitive(v);
                let r = lib!("fulfil", with_file_mut!(f, file => file.update(target, p))).map_err(|e| fail("fulfil-error", format!("{:?}", e)))?;
                if r.get_ref().get_inner().id != target.id {
                    return Err(fail("fulfil-changed-reference", format!("{:?} -> {:?}", target, r.get_ref().get_inner())));
                }
                known.push(target);
                model.insert(target.id, v.clone());
                wrote_since_save = true;
                info.label("op/fulfil");
            }
            Op::Read(_) => {
                check_reads(&f, &model, &format!("step {} (before save)", step))?;
                if wrote_since_save {
                    info.label("read-after-write-before-save");
                }
            }
            Op::CopyBaseStreamThenSave(from, to, repair) => {
                let streams: Vec<u64> = base_objects.iter().filter(|(n, v)| matches!(v, Some(Val::Stream(..))) && !is_xref_like(v) && !model.contains_key(n)).map(|(n, _)| *n).collect();
                if streams.is_empty() || known.is_empty() || !pending_promises.is_empty() {
                    continue;
                }
                let src = streams[gen::pick_index(*from, streams.len())];
                let target = known[gen::pick_index(*to, known.len())];
                let prim = with_file!(f, file => file.resolver().resolve(PlainRef { id: src, gen: 0 }));
                let Ok(prim) = prim else { continue };
                let src_val = base_objects[&src].clone().unwrap();
                let r = lib!("update", with_file_mut!(f, file => file.update(target, prim))).map_err(|e| fail("update-error", format!("{:?}", e)))?;
                if r.get_ref().get_inner().id != target.id {
                    return Err(fail("update-changed-reference", format!("{:?}", target)));
                }
                info.label("op/copy-base-stream");
                let res = lib!("save", with_file_mut!(f, file => file.save_to(&path)));
                match res {
                    Ok(()) => {
                        // the data was copied: the model holds the source stream's content
                        model.insert(target.id, src_val);
                        info.label("copy-base-stream/saved");
                    }
                    Err(first) => {
                        if std::env::var("VH_DEBUG").is_ok() {
                            eprintln!("first save error: {:?}", first);
                        }
                        info.label("copy-base-stream/refused-then-repaired");
                        let p = to_primitive(repair);
                        lib!("update", with_file_mut!(f, file => file.update(target, p))).map_err(|e| fail("update-error", format!("{:?}", e)))?;
                        model.insert(target.id, repair.clone());
                        let res2 = lib!("save", with_file_mut!(f, file => file.save_to(&path)));
                        if let Err(e) = res2 {
                            let _ = std::fs::remove_file(&path);
                            return Err(fail("retry-after-failed-save-fails", format!("the save failed on a stream that still points into the source file; after replacing that object the retry fails too: {:?}", e)));
                        }
                    }
                }
                let out = std::fs::read(&path).map_err(|e| Failure::new("harness-c09-io", e.to_string(), json!({})))?;
                let _ = std::fs::remove_file(&path);
                saves += 1;
                wrote_since_save = false;
                if out.len() < current_bytes.len() || out[..current_bytes.len()] != current_bytes[..] {
                    return Err(fail("previous-revision-not-a-prefix", format!("{} vs {}", out.len(), current_bytes.len())));
                }
                let (objs, _) = snapshot(&out, &c.password, false).map_err(|e| fail(&format!("reload-error:{}", errs::root_kind(&e)), format!("{:?}", e)))?;
                for (n, want) in &model {
                    let mut want = want.clone();
                    add_length(&mut want);
                    match objs.get(n) {
                        // (/Length is framing: an indirect /Length that resolves to the data length is the same stream)
                        Some(Some(got)) if canon(&{ let mut g = got.clone(); add_length(&mut g); g }) == canon(&want) => {}
                        other => return Err(fail("reload-differs:written-object", format!("after reload object {} is {:?}, last written {:?}", n, other, want))),
                    }
                }
                current_bytes = out;
            }
            Op::Save | Op::FailingSaveThenRepair(_) => {
                let mut expect_fail = false;
                if let Op::FailingSaveThenRepair(_) = op {
                    if pending_promises.is_empty() {
                        let pr = lib!("promise", with_file_mut!(f, file => file.promise::<Primitive>()));
                        pending_promises.push(pr.get_inner());
                        std::mem::forget(pr);
                    }
                    expect_fail = true;
                }
                if !pending_promises.is_empty() {
                    expect_fail = true;
                }
                let res = lib!("save", with_file_mut!(f, file => file.save_to(&path)));
                if expect_fail && res.is_ok() {
                    // the library chose to write the file although a promise is pending: that is allowed,
                    // the result is checked like any other save below
                    expect_fail = false;
                    info.label("save-with-pending-promise-succeeded");
                    if let Op::FailingSaveThenRepair(v) = op {
                        for target in std::mem::take(&mut pending_promises) {
                            let p = to_primitive(v);
                            let r = lib!("fulfil", with_file_mut!(f, file => file.update(target, p))).map_err(|e| fail("fulfil-error", format!("{:?}", e)))?;
                            if r.get_ref().get_inner().id != target.id {
                                return Err(fail("fulfil-changed-reference", format!("{:?}", target)));
                            }
                            known.push(target);
                            model.insert(target.id, v.clone());
                        }
                        let res2 = lib!("save", with_file_mut!(f, file => file.save_to(&path)));
                        if let Err(e) = res2 {
                            let _ = std::fs::remove_file(&path);
                            return Err(fail(&format!("save-error:{}", errs::root_kind(&e)), format!("{:?}", e)));
                        }
                    }
                }
                if expect_fail {
                    info.label("failed-save");
                    // reads are still consistent after the failed save
                    check_reads(&f, &model, &format!("step {} (after failed save)", step))?;
                    if let Op::FailingSaveThenRepair(v) = op {
                        // repair: fulfil every pending promise, then retry
                        for target in std::mem::take(&mut pending_promises) {
                            let p = to_primitive(v);
                            let r = lib!("fulfil", with_file_mut!(f, file => file.update(target, p))).map_err(|e| fail("fulfil-error", format!("{:?}", e)))?;
                            if r.get_ref().get_inner().id != target.id {
                                return Err(fail("fulfil-changed-reference", format!("{:?}", target)));
                            }
                            known.push(target);
                            model.insert(target.id, v.clone());
                        }
                        let res2 = lib!("save", with_file_mut!(f, file => file.save_to(&path)));
                        if let Err(e) = res2 {
                            let _ = std::fs::remove_file(&path);
                            return Err(fail("retry-after-failed-save-fails", format!("the first save failed on an unfulfilled promise; after fulfilling it the retry fails too: {:?}", e)));
                        }
                        info.label("failed-save-then-retry");
                    } else {
                        continue;
                    }
                } else if let Err(e) = res {
                    let _ = std::fs::remove_file(&path);
                    return Err(fail(&format!("save-error:{}", errs::root_kind(&e)), format!("save failed: {:?} (step {}, {} writes)", e, step, model.len())));
                }
                let out = std::fs::read(&path).map_err(|e| Failure::new("harness-c09-io", e.to_string(), json!({})))?;
                let _ = std::fs::remove_file(&path);
                saves += 1;
                if saves >= 2 {
                    info.label("saves>=2");
                }
                wrote_since_save = false;
                // 1. the previous revision is an unmodified prefix
                if out.len() < current_bytes.len() || out[..current_bytes.len()] != current_bytes[..] {
                    return Err(fail("previous-revision-not-a-prefix", format!("the saved file ({} bytes) does not start with the previous revision ({} bytes)", out.len(), current_bytes.len())));
                }
                // 2. a fresh load sees the model and everything else unchanged
                for reload_cached in [false, true] {
                    let (objs, pages) = snapshot(&out, &c.password, reload_cached).map_err(|e| fail(&format!("reload-error:{}", errs::root_kind(&e)), format!("the saved file does not load: {:?}", e)))?;
                    for (n, want) in &model {
                        let mut want = want.clone();
                        add_length(&mut want);
                        match objs.get(n) {
                            // (/Length is framing: an indirect /Length that resolves to the data length is the same stream)
                        Some(Some(got)) if canon(&{ let mut g = got.clone(); add_length(&mut g); g }) == canon(&want) => {}
                            other => return Err(fail("reload-differs:written-object", format!("after reload object {} is {:?}, last written {:?} (save #{})", n, other, want, saves))),
                        }
                    }
                    for (n, before) in &base_objects {
                        if model.contains_key(n) || is_xref_like(before) || *n == root_id {
                            continue;
                        }
                        let after = objs.get(n).cloned().unwrap_or(None);
                        let same = match (before, &after) {
                            (Some(a), Some(b)) => canon(a) == canon(b),
                            (None, None) => true,
                            // a number that was undefined or free may be taken by an object the save itself adds
                            // (the new cross-reference stream, a re-written info dictionary)
                            (None, Some(_)) => true,
                            (Some(_), None) => false,
                        };
                        if !same {
                            return Err(fail("reload-differs:untouched-object", format!("untouched object {} was {:?}, after save and reload it is {:?}", n, before, after)));
                        }
                    }
                    if pages != base_pages {
                        return Err(fail("reload-differs:pages", format!("{} pages before, {} after", base_pages, pages)));
                    }
                }
                // and the open document still answers
                check_reads(&f, &model, &format!("step {} (after save)", step))?;
                current_bytes = out;
                info.label("op/save");
            }
        }
    }
    let _ = std::fs::remove_file(&path);
    Ok(())
}

struct RecLog(std::sync::Mutex<std::collections::HashSet<u64>>);
impl pdf::file::Log for RecLog {
    fn load_object(&self, r: PlainRef) {
        self.0.lock().unwrap().insert(r.id);
    }
    fn log_get(&self, r: PlainRef) {
        self.0.lock().unwrap().insert(r.id);
    }
}

/// Object numbers read while the document is being opened.
pub fn load_critical(data: &[u8], pw: &[u8]) -> std::collections::HashSet<u64> {
    match pdf::file::FileOptions::uncached().password(pw).log(RecLog(Default::default())).load(data.to_vec()) {
        Ok(f) => f.log().0.lock().unwrap().clone(),
        Err(_) => Default::default(),
    }
}

fn add_length(v: &mut Val) {
    if let Val::Stream(d, data) = v {
        d.retain(|(k, _)| k.as_slice() != b"Length");
        d.push((Bytes::from("Length"), Val::Int(data.len() as i64)));
    }
}

fn value() -> impl Strategy<Value = Val> {
    prop_oneof![
        6 => valgen::val(3),
        3 => proptest::collection::vec((valgen::name_bytes(6), valgen::val(1)), 0..5).prop_map(|d| {
            let mut seen = std::collections::HashSet::new();
            Val::Dict(d.into_iter().filter(|(k, _)| seen.insert(k.clone())).collect())
        }),
        2 => (proptest::collection::vec((valgen::name_bytes(6), valgen::leaf()), 0..3), gen::data(400)).prop_map(|(d, data)| {
            let mut seen = std::collections::HashSet::new();
            let d: Vec<_> = d.into_iter().filter(|(k, _)| !matches!(k.as_slice(), b"Length" | b"Filter" | b"DecodeParms" | b"Type" | b"F" | b"FFilter" | b"FDecodeParms") && seen.insert(k.clone())).collect();
            Val::Stream(d, Bytes(data))
        }),
    ]
}

fn op() -> impl Strategy<Value = Op> {
    prop_oneof![
        3 => value().prop_map(Op::Create),
        5 => (any::<u16>(), value()).prop_map(|(s, v)| Op::Update(s, v)),
        1 => Just(Op::Promise),
        2 => (any::<u16>(), value()).prop_map(|(s, v)| Op::Fulfil(s, v)),
        2 => any::<u16>().prop_map(Op::Read),
        3 => Just(Op::Save),
        1 => value().prop_map(Op::FailingSaveThenRepair),
        1 => (any::<u16>(), any::<u16>(), value()).prop_map(|(a, b, v)| Op::CopyBaseStreamThenSave(a, b, v)),
    ]
}

pub fn replay(_ctx: &Ctx, _check: &str, art: &serde_json::Value, info: &mut CaseInfo) -> Result<(), Failure> {
    let c: Case = serde_json::from_value(art.clone()).map_err(|e| Failure::new("harness-bad-artifact", e.to_string(), art.clone()))?;
    info.nontrivial(true);
    check_case(&c, info)
}

pub fn run(ctx: &Ctx) {
    // bases: corpus (classic, xref stream + object streams, junk before the header, ...) and generated documents
    let mut bases: Vec<(String, Vec<u8>, Vec<u8>, Vec<(u64, u64)>)> = Vec::new();
    for f in corpus::load(&ctx.verif_dir, false) {
        if f.data.len() < 100_000 && !f.name.contains("encrypted") && !f.name.contains("password") {
            bases.push((f.name, f.data, f.password, vec![]));
        }
    }
    let strat = docgen::spec_strategy();
    for k in 0..ctx.tier.pick(12, 200) {
        let mut spec = crate::engine::runner::nth_case(&strat, ctx.seed.wrapping_mul(131).wrapping_add(9), k);
        spec.encrypt = 0;
        let b = docgen::build(&spec);
        bases.push((format!("generated-{}[{}]", k, b.labels.iter().filter(|l| l.starts_with("xref/") || l.starts_with("storage/") || l.starts_with("update/")).cloned().collect::<Vec<_>>().join(",")), b.file, b.password, vec![]));
    }
    // files with a history of their own (C02's generator): several sections, freed numbers re-used with a bumped
    // generation, objects moving between direct and compressed storage
    let hs = crate::props::c02::history_strategy();
    for k in 0..ctx.tier.pick(12, 150) {
        let h = crate::engine::runner::nth_case(&hs, ctx.seed.wrapping_mul(59).wrapping_add(17), k);
        let r = crate::props::c02::render(&h);
        let gens: Vec<(u64, u64)> = r.expect.iter().filter(|(_, g, e)| *g > 0 && matches!(e, crate::props::c02::Expect::Value(_))).map(|(n, g, _)| (*n, *g)).collect();
        bases.push((format!("history-{}[update/{}-sections{}]", k, h.secs.len(), if gens.is_empty() { "" } else { ",generation>0" }), r.file.0.clone(), vec![], gens));
    }
    // typed updates: a page is read, written back through update() as a typed value (its content stream still lives
    // in the file), saved, and read again; then replaced once more and saved again
    {
        let jobs: Vec<(usize, u32)> = bases.iter().enumerate().flat_map(|(bi, b)| {
            let n = pdf::file::FileOptions::uncached().load(b.1.clone()).map(|f| f.num_pages()).unwrap_or(0).min(3);
            (0..n).map(move |p| (bi, p))
        }).collect();
        ctx.run_enum("typed-page-rewrite", jobs.len() as u64, |k| jobs[k as usize], |(bi, pg), info| {
            let (name, data, _pw, _) = &bases[*bi];
            let art = || json!({"base_name": name, "page": pg, "base": Bytes(data.clone())});
            let fail = |key: &str, msg: String| Failure::new(format!("c09:typed-page-rewrite:{}", key), format!("{} page {}: {}", name, pg, msg), art());
            info.label("typed-page-rewrite");
            info.distinct((name, pg));
            let path = tmp_path();
            let r = panics::catch(|| -> Result<Option<String>, Failure> {
                use crate::props::c08::{describe, descs_equal};
                use pdf::object::{PagesNode, Updater};
                let mut file = pdf::file::FileOptions::uncached().load(data.clone()).map_err(|e| fail("harness-base", format!("{:?}", e)))?;
                let page = match file.get_page(*pg) {
                    Ok(p) => p,
                    Err(_) => return Ok(Some("page does not load".into())),
                };
                let ops_before = match page.contents.as_ref().map(|c| c.operations(&file.resolver())).transpose() {
                    Ok(o) => o.unwrap_or_default(),
                    Err(_) => return Ok(Some("operations do not parse".into())),
                };
                let pref = page.get_ref().get_inner();
                let mut copy = (*page).clone();
                copy.rotate = (copy.rotate + 90) % 360;
                if file.update(pref, PagesNode::Leaf(copy.clone())).is_err() {
                    // (resources the library cannot write, e.g. most colour spaces)
                    return Ok(Some("update refused".into()));
                }
                for round in 0..2 {
                    if let Err(e) = file.save_to(&path) {
                        return Err(fail("save-error", format!("save #{} after a typed update of a page failed: {:?}", round + 1, e)));
                    }
                    let bytes = std::fs::read(&path).map_err(|e| fail("harness-read", e.to_string()))?;
                    if !bytes.starts_with(data) {
                        return Err(fail("prefix", "the previous revision is not a prefix of the saved file".into()));
                    }
                    let re = pdf::file::FileOptions::uncached().load(bytes).map_err(|e| fail("reload-error", format!("{:?}", e)))?;
                    let p2 = re.get_page(*pg).map_err(|e| fail("reload-page-error", format!("{:?}", e)))?;
                    let want_rotate = if round == 0 { copy.rotate } else { (copy.rotate + 90) % 360 };
                    if p2.rotate != want_rotate {
                        return Err(fail("rotate", format!("round {}: rotate {} after reload, written {}", round, p2.rotate, want_rotate)));
                    }
                    let ops_after = p2.contents.as_ref().map(|c| c.operations(&re.resolver())).transpose().map_err(|e| fail("reload-operations-error", format!("{:?}", e)))?.unwrap_or_default();
                    let (a, b): (Vec<_>, Vec<_>) = (ops_before.iter().map(describe).collect(), ops_after.iter().map(describe).collect());
                    if a.len() != b.len() {
                        return Err(fail("operations", format!("{} operations before, {} after save and reload", a.len(), b.len())));
                    }
                    if let Some(d) = descs_equal(&a, &b) {
                        return Err(fail("operations", d));
                    }
                    if round == 0 {
                        // replace the page once more (the second save must work as well)
                        let mut again = copy.clone();
                        again.rotate = (copy.rotate + 90) % 360;
                        file.update(pref, PagesNode::Leaf(again)).map_err(|e| fail("second-update-error", format!("{:?}", e)))?;
                    }
                }
                Ok(None)
            });
            let _ = std::fs::remove_file(&path);
            match r {
                Err(p) => Err(panic_failure(&p, art())),
                Ok(Err(f)) => Err(f),
                Ok(Ok(Some(why))) => {
                    info.label(format!("typed-page-rewrite/skipped:{}", why));
                    Ok(())
                }
                Ok(Ok(None)) => {
                    info.nontrivial(true);
                    Ok(())
                }
            }
        });
    }
    let nb = bases.len();
    let cases = ctx.tier.pick(2_000, 150_000);
    ctx.run_cases(
        "histories",
        cases,
        || (0usize..nb, any::<bool>(), proptest::collection::vec(op(), 1..26)),
        |(bi, cached, ops), info| {
            let (name, data, pw, gens) = &bases[*bi];
            let c = Case { base_name: name.clone(), base: Bytes(data.clone()), password: Bytes(pw.clone()), cached: *cached, ops: ops.clone(), gens: gens.clone() };
            info.label(format!("base/{}", if name.starts_with("generated") { name.split('[').nth(1).unwrap_or("generated").trim_end_matches(']').to_string() } else { name.clone() }));
            info.label(if *cached { "cached" } else { "uncached" });
            let has_save_after_write = {
                let mut wrote = false;
                let mut ok = false;
                for o in ops {
                    match o {
                        Op::Create(_) | Op::Update(..) | Op::Fulfil(..) => wrote = true,
                        Op::Save | Op::FailingSaveThenRepair(_) if wrote => ok = true,
                        Op::CopyBaseStreamThenSave(..) => ok = true,
                        _ => {}
                    }
                }
                ok
            };
            info.nontrivial(has_save_after_write);
            info.distinct((name, cached, format!("{:?}", ops)));
            info.sample = Some(json!({"base": name, "cached": cached, "ops": format!("{:?}", ops).chars().take(400).collect::<String>()}));
            check_case(&c, info)
        },
    );
}

pub const RULE: &str = "cases = (base file, cached/uncached, history of 1-25 operations over {create v, update r v (r: base direct object, base compressed object, object created earlier, updated repeatedly with different dictionaries), promise, fulfil, read through the open document, save, failing save (unfulfilled promise) then repair and retry}); bases: unencrypted corpus files incl. offset.pdf (junk before the header) and xelatex.pdf (xref stream + object streams) generated documents covering every storage form, and files with a history of their own (several sections, freed numbers re-used with a bumped generation; references carry that generation); plus, for every base and its first three pages, a typed rewrite (the page read, written back through update() with another rotation while its content stream still lives in the file, saved, reloaded, rewritten and saved again: rotation and operations as written); oracle = model (reference -> last value written): reads through the open document (resolve and typed get) reflect each write at once; after every successful save the previous revision is a byte prefix of the output and a fresh load (cached and uncached) resolves every written reference - the very reference the caller passed or was handed - to the last value and every untouched object to its previous value, page count unchanged; non-trivial = a save after a write; distinct by (base, history)";
