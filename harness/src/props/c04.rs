//! C04 — serialised objects parse back to the same value.
use crate::engine::bytes::Bytes;
use crate::engine::panics;
use crate::engine::resolve::BufResolve;
use crate::engine::runner::{panic_failure, CaseInfo, Ctx, Failure};
use crate::engine::val::{canon, from_primitive, from_primitive_nr, to_primitive, Val};
use crate::engine::valgen;
use pdf::content::{parse_ops, serialize_ops, Color, Op};
use pdf::object::NoResolve;
use pdf::parser::{parse, parse_indirect_object, Lexer, ParseFlags};
use pdf::primitive::{Dictionary, Primitive};
use proptest::prelude::*;
use serde::{Deserialize, Serialize};
use serde_json::json;

#[derive(Clone, Debug, Serialize, Deserialize)]
pub struct Case {
    /// indirect | dict-value | array-element | operand-scn | operand-bdc | whole
    pub context: String,
    pub value: Val,
    pub id: (u64, u64),
}

fn atoms(v: &Val, info: &mut CaseInfo) -> bool {
    let mut interesting = false;
    let mut labels = std::collections::BTreeSet::new();
    v.walk(&mut |x| match x {
        Val::Name(n) => {
            if n.iter().any(|&b| !(0x21..=0x7e).contains(&b) || b"()<>[]{}/%#".contains(&b)) {
                labels.insert("atom/name-needs-escape");
                interesting = true;
            } else {
                labels.insert("atom/name-plain");
            }
        }
        Val::Str(s) => {
            if s.iter().any(|&b| b >= 0x80) {
                labels.insert("atom/string-high-bytes");
                interesting = true;
            } else if s.iter().any(|&b| matches!(b, b'(' | b')' | b'\\' | b'\r' | b'\n')) {
                labels.insert("atom/string-needs-escape");
                interesting = true;
            } else {
                labels.insert("atom/string-plain");
            }
        }
        Val::Real(r) => {
            if r.fract() != 0.0 {
                labels.insert("atom/real-fractional");
                interesting = true;
            } else if r.abs() >= 2147483648.0 {
                labels.insert("atom/real-integral>=2^31");
                interesting = true;
            } else {
                labels.insert("atom/real-integral");
            }
        }
        Val::Int(_) => {
            labels.insert("atom/int");
        }
        Val::Array(_) | Val::Dict(_) => {
            labels.insert("atom/container");
            interesting = true;
        }
        Val::Stream(..) => {
            labels.insert("atom/stream");
            interesting = true;
        }
        Val::Ref(..) => {
            labels.insert("atom/ref");
        }
        _ => {}
    });
    for l in labels {
        info.label(l);
    }
    interesting
}

fn ser(p: &Primitive) -> Result<Vec<u8>, pdf::error::PdfError> {
    let mut out = Vec::new();
    p.serialize(&mut out)?;
    Ok(out)
}

pub fn check_case(c: &Case, info: &mut CaseInfo) -> Result<(), Failure> {
    let art = || serde_json::to_value(c).unwrap();
    info.label(format!("context/{}", c.context));
    let nt = atoms(&c.value, info);
    info.nontrivial(nt);
    let depth = c.value.depth();
    if depth >= 12 {
        info.label("depth>=12");
    }
    let prim = to_primitive(&c.value);
    let fail = |what: &str, msg: String| Failure::new(format!("c04:{}:{}", c.context, what), msg, art());
    let lib = |r: Result<Result<Vec<u8>, pdf::error::PdfError>, panics::PanicSig>| -> Result<Vec<u8>, Failure> {
        match r {
            Err(p) => Err(panic_failure(&p, art())),
            Ok(Err(e)) => Err(fail("serialize-error", format!("serialize returned {:?}", e))),
            Ok(Ok(b)) => Ok(b),
        }
    };
    match c.context.as_str() {
        "whole" => {
            let text = lib(panics::catch(|| ser(&prim)))?;
            info.sample = Some(json!({"context": c.context, "serialized": Bytes::new(&text[..text.len().min(200)])}));
            let got = parse(&text, &NoResolve, ParseFlags::ANY).map_err(|e| fail("parse-error", format!("{:?}; text={:?}", e, Bytes::new(&text[..]))))?;
            if canon(&from_primitive_nr(&got)) != canon(&c.value) {
                return Err(fail("value-differs", format!("wrote {:?} as {:?}, read {:?}", c.value, Bytes::new(&text[..]), got)));
            }
        }
        "indirect" => {
            // exactly what Storage::save writes
            let body = lib(panics::catch(|| ser(&prim)))?;
            let mut text = format!("{} {} obj\n", c.id.0, c.id.1).into_bytes();
            text.extend_from_slice(&body);
            text.extend_from_slice(b"\nendobj\n");
            info.sample = Some(json!({"context": c.context, "serialized": Bytes::new(&text[..text.len().min(200)])}));
            let resolver = BufResolve::new(&text);
            let mut lexer = Lexer::new(&text);
            let (id, got) = parse_indirect_object(&mut lexer, &resolver, None, ParseFlags::ANY).map_err(|e| fail("parse-error", format!("{:?}; text={:?}", e, Bytes::new(&text[..]))))?;
            if (id.id, id.gen) != c.id {
                return Err(fail("id-differs", format!("{:?} vs {:?}", id, c.id)));
            }
            let got = from_primitive(&got, Some(&resolver)).map_err(|m| fail("stream-data", m))?;
            // the writer adds /Length to streams
            let mut want = c.value.clone();
            if let Val::Stream(d, data) = &mut want {
                d.retain(|(k, _)| k.as_slice() != b"Length");
                d.push((Bytes::from("Length"), Val::Int(data.len() as i64)));
            }
            if canon(&got) != canon(&want) {
                return Err(fail("value-differs", format!("wrote {:?} as {:?}, read {:?}", want, Bytes::new(&text[..]), got)));
            }
        }
        "saved" => {
            // the real writer: the value becomes an object of a new document, which is built, loaded and resolved
            use pdf::build::{CatalogBuilder, PageBuilder, PdfBuilder};
            use pdf::object::{Resolve, Updater};
            let built = panics::catch(|| -> Result<(u64, Vec<u8>), pdf::error::PdfError> {
                let mut b = PdfBuilder::new(pdf::file::FileOptions::uncached());
                let r = b.storage.create(prim.clone())?;
                let id = r.get_ref().get_inner().id;
                let bytes = b.build(CatalogBuilder::from_pages(vec![PageBuilder::from_content(pdf::content::Content::from_ops(vec![]), &pdf::object::NoResolve)?]))?;
                Ok((id, bytes))
            });
            let (id, bytes) = match built {
                Err(p) => return Err(panic_failure(&p, art())),
                Ok(Err(e)) => return Err(fail("save-error", format!("building a document holding {:?} failed: {:?}", c.value, e))),
                Ok(Ok(x)) => x,
            };
            let file = pdf::file::FileOptions::uncached().load(bytes.clone()).map_err(|e| fail("saved-file-does-not-load", format!("{:?}; value {:?}", e, c.value)))?;
            let resolver = file.resolver();
            let got = resolver.resolve(pdf::object::PlainRef { id, gen: 0 }).map_err(|e| fail("parse-error", format!("object {} of the saved document: {:?}; value {:?}", id, e, c.value)))?;
            let got = from_primitive(&got, Some(&resolver)).map_err(|m| fail("stream-data", m))?;
            let mut want = c.value.clone();
            if let Val::Stream(d, data) = &mut want {
                d.retain(|(k, _)| k.as_slice() != b"Length");
                d.push((Bytes::from("Length"), Val::Int(data.len() as i64)));
            }
            info.sample = Some(json!({"context": c.context, "document_len": bytes.len()}));
            if canon(&got) != canon(&want) {
                return Err(fail("value-differs", format!("created {:?}, the saved document holds {:?}", want, got)));
            }
        }
        "dict-value" | "array-element" => {
            let wrapped = if c.context == "dict-value" {
                let mut d = Dictionary::new();
                d.insert("A", Primitive::Integer(1));
                d.insert("V", prim.clone());
                d.insert("Z", Primitive::Name("z".into()));
                Primitive::Dictionary(d)
            } else {
                Primitive::Array(vec![Primitive::Integer(1), prim.clone(), prim.clone(), Primitive::Name("z".into())])
            };
            let text = lib(panics::catch(|| ser(&wrapped)))?;
            info.sample = Some(json!({"context": c.context, "serialized": Bytes::new(&text[..text.len().min(200)])}));
            let got = parse(&text, &NoResolve, ParseFlags::ANY).map_err(|e| fail("parse-error", format!("{:?}; text={:?}", e, Bytes::new(&text[..]))))?;
            if canon(&from_primitive_nr(&got)) != canon(&from_primitive_nr(&wrapped)) || {
                // and against the model value itself
                let w = if c.context == "dict-value" {
                    Val::dict(vec![("A", Val::Int(1)), ("V", c.value.clone()), ("Z", Val::name("z"))])
                } else {
                    Val::Array(vec![Val::Int(1), c.value.clone(), c.value.clone(), Val::name("z")])
                };
                canon(&from_primitive_nr(&got)) != canon(&w)
            } {
                return Err(fail("value-differs", format!("wrote {:?} as {:?}, read {:?}", c.value, Bytes::new(&text[..]), got)));
            }
        }
        "operand-scn" | "operand-bdc" => {
            let ops = if c.context == "operand-scn" {
                // operands of SCN: the elements if the value is an array, else the single value
                let args = match &prim {
                    Primitive::Array(a) => a.clone(),
                    p => vec![p.clone()],
                };
                vec![Op::Save, Op::StrokeColor { color: Color::Other(args.clone()) }, Op::FillColor { color: Color::Other(args) }, Op::Restore]
            } else {
                vec![Op::BeginMarkedContent { tag: "T".into(), properties: Some(prim.clone()) }, Op::MarkedContentPoint { tag: "P".into(), properties: Some(prim.clone()) }, Op::EndMarkedContent]
            };
            let text = match panics::catch(|| serialize_ops(&ops)) {
                Err(p) => return Err(panic_failure(&p, art())),
                Ok(Err(e)) => return Err(fail("serialize-error", format!("serialize_ops returned {:?}", e))),
                Ok(Ok(t)) => t,
            };
            info.sample = Some(json!({"context": c.context, "serialized": Bytes::new(&text[..text.len().min(200)])}));
            let got = parse_ops(&text, &NoResolve).map_err(|e| fail("parse-error", format!("{:?}; text={:?}", e, Bytes::new(&text[..]))))?;
            let operands: Vec<Vec<Primitive>> = got
                .iter()
                .filter_map(|op| match op {
                    Op::StrokeColor { color: Color::Other(a) } | Op::FillColor { color: Color::Other(a) } => Some(a.clone()),
                    Op::BeginMarkedContent { properties: Some(p), .. } | Op::MarkedContentPoint { properties: Some(p), .. } => Some(vec![p.clone()]),
                    _ => None,
                })
                .collect();
            let want: Vec<Primitive> = if c.context == "operand-scn" {
                match &prim {
                    Primitive::Array(a) => a.clone(),
                    p => vec![p.clone()],
                }
            } else {
                vec![prim.clone()]
            };
            if got.len() != ops.len() || operands.len() != 2 {
                return Err(fail("ops-differ", format!("wrote {} ops as {:?}, read {} ops: {:?}", ops.len(), Bytes::new(&text[..]), got.len(), got)));
            }
            for o in &operands {
                let a = Val::Array(o.iter().map(from_primitive_nr).collect());
                let b = Val::Array(want.iter().map(from_primitive_nr).collect());
                if canon(&a) != canon(&b) {
                    return Err(fail("value-differs", format!("wrote {:?} as {:?}, read operands {:?}", b, Bytes::new(&text[..]), a)));
                }
            }
        }
        other => return Err(Failure::new("harness-bad-context", other.to_string(), json!({}))),
    }
    Ok(())
}

fn content_ok(v: &Val) -> bool {
    // content-stream operands: no references or streams (not valid there)
    let mut ok = true;
    v.walk(&mut |x| {
        if matches!(x, Val::Ref(..) | Val::Stream(..)) {
            ok = false;
        }
    });
    ok
}

fn strip_refs(v: &Val) -> Val {
    match v {
        Val::Ref(a, _) => Val::Int(*a as i64 % 1000),
        Val::Array(a) => Val::Array(a.iter().map(strip_refs).collect()),
        Val::Dict(d) => Val::Dict(d.iter().map(|(k, v)| (k.clone(), strip_refs(v))).collect()),
        Val::Stream(d, _) => Val::Dict(d.iter().map(|(k, v)| (k.clone(), strip_refs(v))).collect()),
        v => v.clone(),
    }
}

pub fn case_strategy() -> impl Strategy<Value = Case> {
    let value = prop_oneof![
        10 => valgen::val(5),
        // thin chains up to the parser's depth limit
        2 => (1usize..=19, any::<u32>(), valgen::leaf()).prop_map(|(d, s, l)| valgen::chain(d, s, l)),
        // streams (top level, indirect context only)
        2 => (proptest::collection::vec((valgen::name_bytes(8), valgen::val(2)), 0..4), crate::engine::gen::data(2000)).prop_map(|(d, data)| {
            let mut seen = std::collections::HashSet::new();
            let d: Vec<_> = d.into_iter().filter(|(k, _)| k.as_slice() != b"Length" && seen.insert(k.clone())).collect();
            Val::Stream(d, Bytes(data))
        }),
    ];
    (value, 0usize..7, (1u64..100000, prop_oneof![4 => Just(0u64), 1 => 0u64..65536])).prop_map(|(value, ctx, id)| {
        let contexts = ["whole", "indirect", "dict-value", "array-element", "operand-scn", "operand-bdc", "saved"];
        let mut context = contexts[ctx];
        let mut value = value;
        if matches!(value, Val::Stream(..)) && context != "saved" {
            context = "indirect";
        }
        if context.starts_with("operand") && !content_ok(&value) {
            value = strip_refs(&value);
        }
        if context == "operand-bdc" && !matches!(value, Val::Dict(_) | Val::Name(_)) {
            // BDC/DP properties are a name or a dictionary
            value = Val::Dict(vec![(Bytes::from("V"), value)]);
        }
        if context != "whole" && context != "indirect" && context != "saved" && value.depth() >= 19 {
            context = "whole";
        }
        Case { context: context.to_string(), value, id }
    })
}

pub fn replay(_ctx: &Ctx, _check: &str, art: &serde_json::Value, info: &mut CaseInfo) -> Result<(), Failure> {
    let c: Case = serde_json::from_value(art.clone()).map_err(|e| Failure::new("harness-bad-artifact", e.to_string(), art.clone()))?;
    check_case(&c, info)
}

pub fn run(ctx: &Ctx) {
    let cases = ctx.tier.pick(40_000, 3_000_000);
    ctx.run_cases("trees", cases, case_strategy, |c, info| {
        info.distinct(format!("{:?}", c));
        check_case(c, info)
    });
    // exhaustive atoms: every byte as a one-byte string, every byte pair (thorough), every Unicode scalar as a one-char name
    let contexts = ["whole", "indirect", "dict-value", "array-element", "operand-scn", "operand-bdc"];
    ctx.run_enum(
        "every-one-byte-string",
        256 * contexts.len() as u64,
        |i| Case { context: contexts[(i / 256) as usize].to_string(), value: Val::Str(Bytes(vec![(i % 256) as u8])), id: (7, 0) },
        |c, info| fix_ctx_and_check(c, info),
    );
    let pair_space: u64 = 65536;
    let pair_ctx: &[&str] = match ctx.tier {
        crate::engine::runner::Tier::Quick => &["indirect", "operand-scn"],
        crate::engine::runner::Tier::Thorough => &contexts,
    };
    ctx.run_enum(
        "every-two-byte-string",
        pair_space * pair_ctx.len() as u64,
        |i| Case { context: pair_ctx[(i / pair_space) as usize].to_string(), value: Val::Str(Bytes(vec![((i % pair_space) >> 8) as u8, (i & 255) as u8])), id: (7, 0) },
        |c, info| fix_ctx_and_check(c, info),
    );
    // all Unicode scalar values except NUL: 0x1..=0xD7FF and 0xE000..=0x10FFFF
    let scalars: u64 = 0xD7FF + (0x10FFFF - 0xE000 + 1);
    let name_ctx: &[&str] = match ctx.tier {
        crate::engine::runner::Tier::Quick => &["dict-value"],
        crate::engine::runner::Tier::Thorough => &contexts,
    };
    let as_key = |i: u64| -> char {
        let k = i % scalars;
        let cp = if k < 0xD7FF { k + 1 } else { k - 0xD7FF + 0xE000 };
        char::from_u32(cp as u32).unwrap()
    };
    ctx.run_enum(
        "every-one-char-name",
        scalars * name_ctx.len() as u64,
        |i| {
            let ch = as_key(i);
            let n = Val::Name(Bytes(ch.to_string().into_bytes()));
            // as a value and as a dictionary key
            let v = Val::Dict(vec![(Bytes(format!("k{}", ch).into_bytes()), n)]);
            Case { context: name_ctx[(i / scalars) as usize].to_string(), value: v, id: (7, 0) }
        },
        |c, info| fix_ctx_and_check(c, info),
    );
}

fn fix_ctx_and_check(c: &Case, info: &mut CaseInfo) -> Result<(), Failure> {
    let mut c = c.clone();
    if c.context == "operand-bdc" && !matches!(c.value, Val::Dict(_) | Val::Name(_)) {
        c.value = Val::Dict(vec![(Bytes::from("V"), c.value)]);
    }
    info.distinct(format!("{:?}", c));
    check_case(&c, info)
}

pub const RULE: &str = "cases = (Primitive tree, placement): generated trees (all 256 byte values in strings, Unicode names and keys, boundary integers/reals, bushy depth<=5, thin chains to depth 19, streams) serialised with the library and placed as indirect-object body as save() frames it, as an object created in a new document that is built by the library, loaded and resolved (placement 'saved': the real writer), dictionary value, array element, SCN/scn operands and BDC/DP properties via serialize_ops; plus exhaustively every 1-byte string, every 2-byte string and every Unicode scalar as a name and as a key; oracle = parse(serialize(v)) == v up to Integer/Real identification, serialize never panics; non-trivial = value has an atom needing escaping, a fractional or >=2^31 real, or a container; distinct by case";
