//! C16 — every encoder is inverted by its decoder and emits the standard format.
use crate::engine::bytes::Bytes;
use crate::engine::filters as rf;
use crate::engine::gen;
use crate::engine::panics;
use crate::engine::runner::{panic_failure, CaseInfo, Ctx, Failure};
use pdf::enc::{decode, encode, LZWFlateParams, StreamFilter};
use serde_json::json;

pub const FILTERS: [&str; 4] = ["ASCIIHexDecode", "ASCII85Decode", "LZWDecode", "FlateDecode"];

fn filter(name: &str) -> StreamFilter {
    match name {
        "ASCIIHexDecode" => StreamFilter::ASCIIHexDecode,
        "ASCII85Decode" => StreamFilter::ASCII85Decode,
        // the encoder only accepts EarlyChange 0
        "LZWDecode" => StreamFilter::LZWDecode(LZWFlateParams { early_change: 0, ..LZWFlateParams::default() }),
        "FlateDecode" => StreamFilter::FlateDecode(LZWFlateParams::default()),
        _ => unreachable!(),
    }
}

fn reference_decode(name: &str, enc: &[u8]) -> Result<Vec<u8>, String> {
    match name {
        "ASCIIHexDecode" => rf::hex_decode_ref(enc),
        "ASCII85Decode" => rf::a85_decode_ref(enc),
        "LZWDecode" => rf::lzw_decode_ref(enc, 0),
        // /FlateDecode data is zlib (RFC 1950) framed
        "FlateDecode" => rf::zlib_decode_ref(enc),
        _ => unreachable!(),
    }
}

fn len_class(n: usize) -> &'static str {
    match n {
        0 => "len0",
        1..=3 => "len1-3",
        4..=255 => "len4-255",
        256..=4095 => "len256-4095",
        _ => "len4096+",
    }
}

pub fn check_one(name: &str, data: &[u8], info: &mut CaseInfo) -> Result<(), Failure> {
    let art = || json!({"filter": name, "data": Bytes::new(data)});
    info.label(format!("{}/{}", name, len_class(data.len())));
    info.nontrivial(!data.is_empty());
    info.distinct((name, data));
    let f = filter(name);
    let enc = match panics::catch(|| encode(data, &f)) {
        Err(p) => return Err(panic_failure(&p, art())),
        Ok(Err(e)) => return Err(Failure::new(format!("c16:{}:encode-error", name), format!("encode returned {:?}", e), art())),
        Ok(Ok(e)) => e,
    };
    info.sample = Some(json!({"filter": name, "data": Bytes::new(&data[..data.len().min(48)]), "data_len": data.len(), "encoded_prefix": Bytes::new(&enc[..enc.len().min(48)]), "encoded_len": enc.len()}));
    match panics::catch(|| decode(&enc, &f)) {
        Err(p) => return Err(panic_failure(&p, art())),
        Ok(Err(e)) => return Err(Failure::new(format!("c16:{}:lib-decode-error", name), format!("library decoder rejects the encoder's output: {:?}; encoded={:?}", e, Bytes::new(&enc[..enc.len().min(64)])), art())),
        Ok(Ok(d)) => {
            if d != data {
                return Err(Failure::new(format!("c16:{}:lib-roundtrip", name), format!("decode(encode(x)) != x: got {} bytes {:?}, want {} bytes", d.len(), Bytes::new(&d[..d.len().min(32)]), data.len()), art()));
            }
        }
    }
    match reference_decode(name, &enc) {
        Err(e) => Err(Failure::new(format!("c16:{}:ref-decoder-rejects", name), format!("independent reference decoder rejects the encoder's output: {}; encoded={:?}", e, Bytes::new(&enc[..enc.len().min(64)])), art())),
        Ok(d) if d != data => Err(Failure::new(format!("c16:{}:ref-decoder-differs", name), format!("reference decoder yields {} bytes {:?}, want {} bytes", d.len(), Bytes::new(&d[..d.len().min(32)]), data.len()), art())),
        Ok(_) => Ok(()),
    }
}

pub fn replay(_ctx: &Ctx, _check: &str, art: &serde_json::Value, info: &mut CaseInfo) -> Result<(), Failure> {
    let name = art["filter"].as_str().unwrap_or("ASCIIHexDecode").to_string();
    let data: Bytes = serde_json::from_value(art["data"].clone()).map_err(|e| Failure::new("harness-bad-artifact", e.to_string(), art.clone()))?;
    let name = FILTERS.iter().find(|f| **f == name).copied().unwrap_or("ASCIIHexDecode");
    check_one(name, &data, info)
}

pub fn run(ctx: &Ctx) {
    use proptest::prelude::*;
    // 1. exhaustive over short strings
    let maxlen = ctx.tier.pick(2, 3);
    let mut count: u64 = 0;
    for l in 0..=maxlen {
        count += 256u64.pow(l as u32);
    }
    let nf = FILTERS.len() as u64;
    ctx.run_enum(
        &format!("exhaustive-len<={}", maxlen),
        count * nf,
        |i| {
            let f = (i % nf) as usize;
            let mut k = i / nf;
            // decode k into a string: lengths 0,1,2,3 in order
            let mut len = 0u32;
            loop {
                let n = 256u64.pow(len);
                if k < n {
                    break;
                }
                k -= n;
                len += 1;
            }
            let mut s = Vec::with_capacity(len as usize);
            for _ in 0..len {
                s.push((k % 256) as u8);
                k /= 256;
            }
            (FILTERS[f], s)
        },
        |(f, s), info| check_one(f, s, info),
    );
    // 2. single-value runs: every byte value class × lengths
    let lengths: Vec<usize> = {
        let mut v: Vec<usize> = (0..=300).collect();
        let mut l = 301usize;
        while l <= 70000 {
            v.push(l);
            l += match ctx.tier {
                crate::engine::runner::Tier::Quick => 1 + l / 9,
                crate::engine::runner::Tier::Thorough => 1 + l / 97,
            };
        }
        v.extend([4093, 4094, 4095, 4096, 4097, 8191, 8192, 16383, 16384, 32767, 32768, 65535, 65536, 69999, 70000]);
        v
    };
    let values: Vec<u8> = match ctx.tier {
        crate::engine::runner::Tier::Quick => vec![0, 1, b'z', 0x7f, 0x80, 0xff],
        crate::engine::runner::Tier::Thorough => (0..=255).collect(),
    };
    let total = (lengths.len() * values.len() * FILTERS.len()) as u64;
    ctx.run_enum(
        "single-value-runs",
        total,
        |i| {
            let f = (i % nf) as usize;
            let k = (i / nf) as usize;
            let v = values[k % values.len()];
            let l = lengths[k / values.len()];
            (FILTERS[f], vec![v; l])
        },
        |(f, s), info| check_one(f, s, info),
    );
    // 3. random and structured data up to 64 KiB
    let cases = ctx.tier.pick(6000, 300_000);
    ctx.run_cases(
        "generated-data",
        cases,
        || (0usize..4, gen::data(65536)),
        |(f, d), info| check_one(FILTERS[*f], d, info),
    );
}

pub const RULE: &str = "cases = (filter, byte string): every string of length <= 2 (quick) / <= 3 (thorough) for each of the 4 encodable filters, single-value runs over a length ladder to 70000, and generated structured data up to 64 KiB; oracle = library decode(encode(x)) == x AND an independent reference decoder (own Hex/A85/LZW, flate2 zlib) accepts encode(x) and yields x; non-trivial = non-empty input; distinct by (filter, input bytes)";
