//! C18 — references to missing or free objects read as null.
use crate::engine::bytes::Bytes;
use crate::engine::errs;
use crate::engine::gen;
use crate::engine::open::{self, UncachedFile};
use crate::engine::panics;
use crate::engine::runner::{panic_failure, truncate, CaseInfo, Ctx, Failure};
use crate::engine::schema::{self, Model, RtErr, Shape, MODELS, SUBJECT};
use crate::engine::val::{canon, Canon, Val};
use pdf::error::PdfError;
use pdf::file::FileOptions;
use pdf::object::{ParseOptions, PlainRef, Resolve};
use proptest::prelude::*;
use serde::{Deserialize, Serialize};
use serde_json::{json, Value};

pub const RULE: &str = "cases = (model, position, kind of missing object, parse mode): the model's full instance (engine/schema.rs) with one position - a dictionary entry, an array element, or an entry of a nested direct dictionary - replaced by a reference to (a) object 0, (b) a freed number, (c) a number in a gap of the cross-reference table, (d) /Size, (e) /Size+5, (f) 999999, (g) a number defined in the first section and freed by an appended incremental update; the instance is object 100 of a generated file and is read as the model in strict and tolerant mode; oracle = metamorphic: the same instance with a literal null at that position (and, for entries, with the entry removed) is read too; whenever the reference variant (entry removed; for array elements a literal null) reads Ok the dangling variant must read Ok and give the same written form (Debug form for reader-only models), a reference merely carried unresolved being accepted; a required entry (absent => Err) must give Err whose chain names the same field as the absent variant; never a panic; second section: whole documents whose catalog / page-tree / page entries dangle must load and deliver page 0 in cached/uncached x strict/tolerant exactly when the null variant does; non-trivial = the null variant read Ok (the equivalence was compared) or the entry is required";

#[derive(Clone, Debug, Serialize, Deserialize, PartialEq)]
pub enum Pos {
    Key(String),
    Elem(String, usize),
    Nested(String, String),
    /// scalar-shaped model (array): element index
    TopElem(usize),
}

#[derive(Clone, Debug, Serialize, Deserialize)]
pub struct Case {
    pub model: String,
    /// choice tape for the instance (empty = the plain template); edits from C15's generator
    pub tape: Bytes,
    pub pos: Pos,
    /// 0 object zero, 1 freed, 2 gap, 3 size, 4 size+5, 5 far, 6 freed by an incremental update
    pub kind: u8,
    pub tolerant: bool,
}

const FREED: &[u64] = &[50, 51];
const GAP: u64 = 60;
const FREED_LATER: &[u64] = &[70];
pub const KINDS: &[&str] = &["object-0", "freed", "gap", "size", "size+5", "far", "freed-by-update"];
const NKINDS: u8 = 7;

fn dict_of(v: &Val) -> Option<&Vec<(Bytes, Val)>> {
    match v {
        Val::Dict(d) | Val::Stream(d, _) => Some(d),
        _ => None,
    }
}
fn dict_of_mut(v: &mut Val) -> Option<&mut Vec<(Bytes, Val)>> {
    match v {
        Val::Dict(d) | Val::Stream(d, _) => Some(d),
        _ => None,
    }
}

pub fn positions(subject: &Val) -> Vec<Pos> {
    let mut out = Vec::new();
    match subject {
        Val::Array(a) => {
            for i in 0..a.len() {
                out.push(Pos::TopElem(i));
            }
        }
        v => {
            if let Some(d) = dict_of(v) {
                for (k, v) in d {
                    let ks = String::from_utf8_lossy(k).to_string();
                    if matches!(ks.as_str(), "Length" | "Filter" | "DecodeParms") && matches!(subject, Val::Stream(..)) {
                        continue;
                    }
                    out.push(Pos::Key(ks.clone()));
                    match v {
                        Val::Array(a) => {
                            for i in 0..a.len() {
                                if i == 0 || i + 1 == a.len() || i == 1 {
                                    out.push(Pos::Elem(ks.clone(), i));
                                }
                            }
                        }
                        Val::Dict(nd) => {
                            for (nk, _) in nd {
                                out.push(Pos::Nested(ks.clone(), String::from_utf8_lossy(nk).to_string()));
                            }
                        }
                        _ => {}
                    }
                }
            }
        }
    }
    out
}

/// Replace the position by `with` (None = remove the entry; only for Key / Nested).
fn substitute(subject: &Val, pos: &Pos, with: Option<&Val>) -> Option<Val> {
    let mut s = subject.clone();
    match pos {
        Pos::TopElem(i) => {
            if let Val::Array(a) = &mut s {
                *a.get_mut(*i)? = with?.clone();
            } else {
                return None;
            }
        }
        Pos::Key(k) => {
            let d = dict_of_mut(&mut s)?;
            let idx = d.iter().position(|(k2, _)| k2.as_slice() == k.as_bytes())?;
            match with {
                Some(w) => d[idx].1 = w.clone(),
                None => {
                    d.remove(idx);
                }
            }
        }
        Pos::Elem(k, i) => {
            let d = dict_of_mut(&mut s)?;
            let e = d.iter_mut().find(|(k2, _)| k2.as_slice() == k.as_bytes())?;
            if let Val::Array(a) = &mut e.1 {
                *a.get_mut(*i)? = with?.clone();
            } else {
                return None;
            }
        }
        Pos::Nested(k, nk) => {
            let d = dict_of_mut(&mut s)?;
            let e = d.iter_mut().find(|(k2, _)| k2.as_slice() == k.as_bytes())?;
            if let Val::Dict(nd) = &mut e.1 {
                let idx = nd.iter().position(|(k2, _)| k2.as_slice() == nk.as_bytes())?;
                match with {
                    Some(w) => nd[idx].1 = w.clone(),
                    None => {
                        nd.remove(idx);
                    }
                }
            } else {
                return None;
            }
        }
    }
    Some(s)
}

fn value_at(subject: &Val, pos: &Pos) -> Option<Val> {
    let entry = |d: &Vec<(Bytes, Val)>, k: &str| d.iter().find(|(k2, _)| k2.as_slice() == k.as_bytes()).map(|(_, v)| v.clone());
    match pos {
        Pos::TopElem(i) => match subject {
            Val::Array(a) => a.get(*i).cloned(),
            _ => None,
        },
        Pos::Key(k) => entry(dict_of(subject)?, k),
        Pos::Elem(k, i) => match entry(dict_of(subject)?, k)? {
            Val::Array(a) => a.get(*i).cloned(),
            _ => None,
        },
        Pos::Nested(k, nk) => match entry(dict_of(subject)?, k)? {
            Val::Dict(nd) => entry(&nd, nk),
            _ => None,
        },
    }
}

/// Value with references followed (every key, unlike C20's variant); unresolvable references become `@missing`.
fn deep<R: Resolve>(r: &R, p: &pdf::primitive::Primitive, path: &mut Vec<u64>, budget: &mut usize) -> Val {
    use pdf::primitive::Primitive;
    if *budget == 0 {
        return Val::name("@budget");
    }
    *budget -= 1;
    match p {
        Primitive::Reference(x) => {
            if path.contains(&x.id) {
                return Val::name("@cycle");
            }
            if path.len() > 8 {
                return Val::name("@deep");
            }
            match r.resolve(*x) {
                Ok(t) => {
                    path.push(x.id);
                    let v = deep(r, &t, path, budget);
                    path.pop();
                    v
                }
                Err(_) => Val::name("@missing"),
            }
        }
        Primitive::Array(a) => Val::Array(a.iter().map(|x| deep(r, x, path, budget)).collect()),
        Primitive::Dictionary(d) => Val::Dict(d.iter().map(|(k, v)| (Bytes(k.as_str().as_bytes().to_vec()), deep(r, v, path, budget))).collect()),
        Primitive::Stream(s) => {
            let d: Vec<(Bytes, Val)> = s.info.iter().filter(|(k, _)| k.as_str() != "Length").map(|(k, v)| (Bytes(k.as_str().as_bytes().to_vec()), deep(r, v, path, budget))).collect();
            let data = s.raw_data(r).map(|d| d.to_vec()).unwrap_or_else(|_| b"@unreadable".to_vec());
            Val::Stream(d, Bytes(data))
        }
        other => crate::engine::val::from_primitive_nr(other),
    }
}

/// Null entries vanish in `canon`; an empty list or map is how Vec / HashMap fields hold "absent".
fn drop_empty(c: &Canon) -> Canon {
    let keep = |v: &Canon| !matches!(v, Canon::Array(a) if a.is_empty()) && !matches!(v, Canon::Dict(d) if d.is_empty());
    match c {
        Canon::Dict(d) => Canon::Dict(d.iter().map(|(k, v)| (k.clone(), drop_empty(v))).filter(|(_, v)| keep(v)).collect()),
        Canon::Stream(d, data) => Canon::Stream(d.iter().map(|(k, v)| (k.clone(), drop_empty(v))).filter(|(_, v)| keep(v)).collect(), data.clone()),
        Canon::Array(a) => Canon::Array(a.iter().map(drop_empty).collect()),
        o => o.clone(),
    }
}

#[derive(Debug)]
enum Read {
    /// canonical written form (or Debug text) with unresolved references shown as `@missing`
    Ok(Canon, String),
    Err(PdfError),
    WriteErr(String),
}

fn null_missing(v: &Val) -> Val {
    match v {
        Val::Name(n) if n.as_slice() == b"@missing" => Val::Null,
        Val::Array(a) => Val::Array(a.iter().map(null_missing).collect()),
        Val::Dict(d) => Val::Dict(d.iter().map(|(k, v)| (k.clone(), null_missing(v))).collect()),
        Val::Stream(d, data) => Val::Stream(d.iter().map(|(k, v)| (k.clone(), null_missing(v))).collect(), data.clone()),
        o => o.clone(),
    }
}

fn read_variant(m: &Model, subject: &Val, aux: &[(u64, Val)], tolerant: bool) -> Result<Read, String> {
    let (bytes, _) = schema::case_file_full(subject, aux, FREED, &[], FREED_LATER);
    let opts = if tolerant { ParseOptions::tolerant() } else { ParseOptions::strict() };
    let mut file: UncachedFile = FileOptions::uncached().parse_options(opts).load(bytes).map_err(|e| format!("case file does not load: {:?}", e))?;
    let p0 = file.resolver().resolve(PlainRef { id: SUBJECT, gen: 0 }).map_err(|e| format!("subject does not resolve: {:?}", e))?;
    if m.writable {
        match schema::roundtrip(m.name, &mut file, p0) {
            None => Err(format!("no dispatch for {}", m.name)),
            Some(Ok(p1)) => {
                let r = file.resolver();
                let mut budget = 20_000usize;
                let d = deep(&r, &p1, &mut Vec::new(), &mut budget);
                let mut carried = false;
                d.walk(&mut |x| {
                    if matches!(x, Val::Name(n) if n.as_slice() == b"@missing") {
                        carried = true;
                    }
                });
                let c = drop_empty(&canon(&null_missing(&d)));
                Ok(Read::Ok(c, if carried { "@carried".to_string() } else { String::new() }))
            }
            Some(Err(RtErr::Read(e))) => Ok(Read::Err(e)),
            Some(Err(RtErr::Write(e))) => Ok(Read::WriteErr(format!("{:?}", e))),
        }
    } else {
        match schema::read_debug(m.name, &file, p0) {
            None => Err(format!("no dispatch for {}", m.name)),
            Some(Ok(s)) => Ok(Read::Ok(Canon::Null, order_free(&s))),
            Some(Err(e)) => Ok(Read::Err(e)),
        }
    }
}

/// The Debug text (reader-only models) or the carried marker shows the dangling reference `k` held as is.
fn mentions_ref(text: &str, k: u64) -> bool {
    if text == "@carried" {
        return true;
    }
    if text.contains(&format!("Ref({})", k)) {
        return true;
    }
    for at in [format!("@{}", k), format!("id: {}", k)] {
        let mut from = 0;
        while let Some(i) = text[from..].find(&at) {
            let end = from + i + at.len();
            if !text[end..].starts_with(|c: char| c.is_ascii_digit()) {
                return true;
            }
            from = end;
        }
    }
    false
}

/// Debug text with the members of every `{..}` group sorted: HashMap fields print in a per-instance random order and
/// catch-all dictionaries in insertion order (which depends on which entries were taken out before).
fn order_free(s: &str) -> String {
    fn split_top(s: &str) -> Vec<String> {
        let (mut depth, mut quote, mut esc) = (0i32, false, false);
        let mut parts = vec![String::new()];
        for c in s.chars() {
            if quote {
                parts.last_mut().unwrap().push(c);
                if esc {
                    esc = false;
                } else if c == '\\' {
                    esc = true;
                } else if c == '"' {
                    quote = false;
                }
                continue;
            }
            match c {
                '"' => quote = true,
                '{' | '[' | '(' | '<' => depth += 1,
                '}' | ']' | ')' | '>' => depth -= 1,
                ',' | '\n' if depth == 0 => {
                    parts.push(String::new());
                    continue;
                }
                _ => {}
            }
            parts.last_mut().unwrap().push(c);
        }
        parts.into_iter().map(|p| p.trim().to_string()).filter(|p| !p.is_empty()).collect()
    }
    fn norm(s: &str) -> String {
        // find the first top-level bracket group, normalise inside, continue after it
        let chars: Vec<char> = s.chars().collect();
        let mut out = String::new();
        let mut i = 0;
        let (mut quote, mut esc) = (false, false);
        while i < chars.len() {
            let c = chars[i];
            if quote {
                out.push(c);
                if esc {
                    esc = false;
                } else if c == '\\' {
                    esc = true;
                } else if c == '"' {
                    quote = false;
                }
                i += 1;
                continue;
            }
            if c == '"' {
                quote = true;
                out.push(c);
                i += 1;
                continue;
            }
            if matches!(c, '{' | '[' | '(' | '<') {
                // matching close
                let (mut depth, mut j, mut q, mut e) = (0i32, i, false, false);
                while j < chars.len() {
                    let d = chars[j];
                    if q {
                        if e {
                            e = false;
                        } else if d == '\\' {
                            e = true;
                        } else if d == '"' {
                            q = false;
                        }
                    } else if d == '"' {
                        q = true;
                    } else if matches!(d, '{' | '[' | '(' | '<') {
                        depth += 1;
                    } else if matches!(d, '}' | ']' | ')' | '>') {
                        depth -= 1;
                        if depth == 0 {
                            break;
                        }
                    }
                    j += 1;
                }
                let inner: String = chars[i + 1..j.min(chars.len())].iter().collect();
                let mut parts: Vec<String> = split_top(&inner).iter().map(|p| norm(p)).collect();
                if c == '{' || c == '<' {
                    // (nested dictionaries print as <k=v, ..>)
                    parts.sort();
                }
                out.push(c);
                out.push_str(&parts.join(", "));
                if j < chars.len() {
                    out.push(chars[j]);
                }
                i = j + 1;
                continue;
            }
            out.push(c);
            i += 1;
        }
        out
    }
    norm(s)
}

/// field names the error chain mentions (FromPrimitive / MissingEntry)
fn named_fields(e: &PdfError) -> Vec<String> {
    errs::chain(e).into_iter().filter(|s| s.starts_with("FromPrimitive(") || s.starts_with("MissingEntry(")).map(|s| s.split('.').last().unwrap_or("").trim_end_matches(')').to_string()).collect()
}

fn dangling_number(kind: u8, size: u64) -> u64 {
    match kind {
        0 => 0,
        1 => FREED[0],
        2 => GAP,
        3 => size,
        4 => size + 5,
        5 => 999_999,
        _ => FREED_LATER[0],
    }
}

pub fn check_case(c: &Case, info: &mut CaseInfo) -> Result<(), Failure> {
    let m = schema::model(&c.model).ok_or_else(|| Failure::new("harness-c18-model", format!("unknown model {}", c.model), json!({})))?;
    let art = || serde_json::to_value(c).unwrap();
    let fail = |key: String, msg: String| Failure::new(key, msg, art());
    let built = crate::props::c15::build(m, &c.tape.0);
    let size = SUBJECT + 1 + built.aux.len() as u64;
    let k = dangling_number(c.kind, size.max(SUBJECT + 1));
    let dangling = Val::Ref(k, 0);
    let (a_subj, n_subj) = match (substitute(&built.subject, &c.pos, Some(&dangling)), substitute(&built.subject, &c.pos, Some(&Val::Null))) {
        (Some(a), Some(n)) => (a, n),
        _ => {
            info.label("rejected/position-not-in-instance");
            return Ok(());
        }
    };
    let r_subj = match c.pos {
        Pos::Key(_) | Pos::Nested(..) => substitute(&built.subject, &c.pos, None),
        _ => None,
    };
    let mode = if c.tolerant { "tolerant" } else { "strict" };
    let placement = match &c.pos {
        Pos::Key(_) => "entry",
        Pos::Elem(..) | Pos::TopElem(_) => "array-element",
        Pos::Nested(..) => "nested-entry",
    };
    let pos_name = match &c.pos {
        Pos::Key(k) => k.clone(),
        Pos::Elem(k, i) => format!("{}[{}]", k, i),
        Pos::Nested(k, nk) => format!("{}/{}", k, nk),
        Pos::TopElem(i) => format!("[{}]", i),
    };
    info.label(format!("kind/{}", KINDS[c.kind as usize % 7]));
    info.label(format!("mode/{}", mode));
    info.label(format!("placement/{}", placement));
    info.label(format!("model/{}", m.name));
    let run = |subj: &Val| -> Result<Read, Failure> {
        match panics::catch(|| read_variant(m, subj, &built.aux, c.tolerant)) {
            Ok(Ok(r)) => Ok(r),
            Ok(Err(h)) => Err(fail("harness-c18-case-file".into(), h)),
            Err(p) => {
                let mut f = panic_failure(&p, art());
                if !f.key.starts_with("harness-") {
                    f.key = format!("c18:{}:{}:panic:{}", m.name, pos_name, f.key);
                }
                Err(f)
            }
        }
    };
    // the instance itself must be readable (edited instances may have lost a required entry)
    match run(&built.subject)? {
        Read::Ok(..) => {}
        _ => {
            info.label("rejected/instance-unreadable");
            return Ok(());
        }
    }
    let ra = run(&a_subj)?;
    let rn = run(&n_subj)?;
    // Does this position accept an indirect value at all?  (Several scalar readers never follow references; what they
    // do with a dangling one says nothing about missing objects.)
    // (in tolerant mode such a position does not fail but silently drops the enclosing optional value: then the
    // dangling reference gives the same value as a valid reference at that position)
    let same_as_valid_reference = |ca: &Canon, da: &str| -> bool {
        let orig = match value_at(&built.subject, &c.pos) {
            Some(v) if !matches!(v, Val::Ref(..)) => v,
            _ => return false,
        };
        let n = SUBJECT + 1 + built.aux.len() as u64;
        let mut aux = built.aux.clone();
        aux.push((n, orig));
        let v_subj = match substitute(&built.subject, &c.pos, Some(&Val::Ref(n, 0))) {
            Some(v) => v,
            None => return false,
        };
        match panics::catch(|| read_variant(m, &v_subj, &aux, c.tolerant)) {
            Ok(Ok(Read::Ok(cv, dv))) => cv == *ca && dv == da,
            _ => false,
        }
    };
    let accepts_references = || -> Result<bool, Failure> {
        let orig = match value_at(&built.subject, &c.pos) {
            Some(v) => v,
            None => return Ok(true),
        };
        if matches!(orig, Val::Ref(..)) {
            return Ok(true);
        }
        let n = SUBJECT + 1 + built.aux.len() as u64;
        let mut aux = built.aux.clone();
        aux.push((n, orig));
        let v_subj = substitute(&built.subject, &c.pos, Some(&Val::Ref(n, 0))).unwrap();
        let direct = match panics::catch(|| read_variant(m, &built.subject, &built.aux, c.tolerant)) {
            Ok(Ok(r)) => r,
            _ => return Ok(true),
        };
        let indirect = match panics::catch(|| read_variant(m, &v_subj, &aux, c.tolerant)) {
            Ok(Ok(r)) => r,
            _ => return Ok(true),
        };
        Ok(!(matches!(direct, Read::Ok(..)) && matches!(indirect, Read::Err(_))))
    };
    let rr = match &r_subj {
        Some(s) => Some(run(s)?),
        None => None,
    };
    let required = matches!(&c.pos, Pos::Key(k) if m.required.contains(&k.as_str()));
    let key = |what: &str| format!("c18:{}:{}:{}:{}", m.name, pos_name, mode, what);
    // calibration of the table: a required key is one whose absence fails
    if let (Pos::Key(_), Some(rr)) = (&c.pos, &rr) {
        let absent_fails = matches!(rr, Read::Err(_));
        if absent_fails != required && c.tape.is_empty() {
            return Err(fail("harness-c18-required-table".into(), format!("{} /{}: table says required={}, but reading without the entry gives {:?}", m.name, pos_name, required, truncate(&format!("{:?}", rr), 200))));
        }
    }
    if required {
        info.nontrivial(true);
        info.label("required-entry");
        match (&ra, &rr) {
            (Read::Err(ea), Some(Read::Err(er))) => {
                let (fa, fr) = (named_fields(ea), named_fields(er));
                if !fr.is_empty() && !fr.iter().any(|f| fa.contains(f)) {
                    if !accepts_references()? {
                        info.label("position-rejects-any-reference");
                        return Ok(());
                    }
                    return Err(fail(key("error-does-not-name-entry"), format!("required entry refers to missing object {}: error {:?} names {:?}, the absent entry is reported as {:?}", k, errs::chain(ea), fa, fr)));
                }
                info.label("required/err-names-entry");
            }
            (Read::Err(_), _) => {}
            (Read::Ok(ca, da), _) => {
                // accepted only when the reference is merely carried (a Ref<T> field is not dereferenced by reading)
                let carried = mentions_ref(da, k) || matches!(&rn, Read::Ok(cn, _) if cn == ca);
                let carried = carried || { matches!(&rr, Some(Read::Ok(cr, _)) if cr == ca) };
                if !carried {
                    return Err(fail(key("required-entry-accepted"), format!("required entry refers to missing object {} but reading succeeded with {}", k, truncate(&crate::engine::val::show(ca), 200))));
                }
                info.label("required/carried-unresolved");
            }
            (Read::WriteErr(_), _) => {}
        }
        return Ok(());
    }
    // the reference outcome: the entry absent (what the property states) where the position is an entry, else a literal null
    let reference = match &rr {
        Some(r @ Read::Ok(..)) => {
            info.label("reference/entry-absent");
            r
        }
        _ => {
            info.label("reference/literal-null");
            &rn
        }
    };
    match (reference, &ra) {
        (Read::Ok(cn, dn), Read::Ok(ca, da)) => {
            info.nontrivial(true);
            info.label("null-variant-ok");
            // a reference that is carried unresolved was not dereferenced by reading: nothing to treat as null yet
            let carried = mentions_ref(da, k);
            if carried {
                info.label("carried-unresolved");
            }
            // (Debug text of reader-only models: an empty list is how a Vec field holds "absent")
            let same = carried || if m.writable { cn == ca } else { dn.replace("Some([])", "None") == da.replace("Some([])", "None") };
            if !same && same_as_valid_reference(ca, da) {
                info.label("position-rejects-any-reference");
                return Ok(());
            }
            if !same {
                let (x, y) = (format!("{}{}", crate::engine::val::show(ca), da), format!("{}{}", crate::engine::val::show(cn), dn));
                let at = x.bytes().zip(y.bytes()).position(|(p, q)| p != q).unwrap_or(x.len().min(y.len()));
                let from = at.saturating_sub(60);
                let cut = |t: &str| t.chars().skip(from).take(160).collect::<String>();
                return Err(fail(key("differs-from-absent"), format!("entry refers to missing object {}: the value read differs from the one read without the entry (with a literal null for array elements) near offset {}: dangling ...{}... reference ...{}...", k, at, cut(&x), cut(&y))));
            }
        }
        (Read::Ok(..), Read::Err(e)) => {
            if !accepts_references()? {
                info.label("position-rejects-any-reference");
                return Ok(());
            }
            info.nontrivial(true);
            info.label("null-variant-ok");
            let kind_class = errs::root_kind(e);
            return Err(fail(key(&format!("error-instead-of-absent:{}", kind_class)), format!("entry refers to missing object {} ({}): reading fails with {:?} although the instance without that entry (a literal null for array elements) reads fine", k, KINDS[c.kind as usize % 7], errs::chain(e))));
        }
        (Read::Ok(..), Read::WriteErr(w)) => {
            info.label("null-variant-ok");
            info.label(format!("dangling-variant-unwritable/{}", truncate(w, 30)));
        }
        (Read::Err(_), _) | (Read::WriteErr(_), _) => {
            info.label("null-variant-rejected");
        }
    }
    if info.sample.is_none() {
        info.sample = Some(json!({"model": m.name, "position": pos_name, "kind": KINDS[c.kind as usize % 7], "mode": mode, "dangling": format!("{} 0 R", k)}));
    }
    Ok(())
}

// ---- whole documents --------------------------------------------------------------------------------------------

#[derive(Clone, Debug, Serialize, Deserialize)]
pub struct DocCase {
    /// zoo object carrying the entry: 1 catalog, 2 page tree, 3 page
    pub object: u64,
    pub key: String,
    pub kind: u8,
}

const DOC_ENTRIES: &[(u64, &str, &str)] = &[
    (1, "Outlines", "28 0 R"), (1, "AcroForm", "<< /Fields [11 0 R] >>"), (1, "Metadata", "15 0 R"), (1, "PageLabels", "24 0 R"), (1, "Names", "<< >>"), (1, "Dests", "<< >>"),
    (1, "StructTreeRoot", "<< /Type /StructTreeRoot >>"), (1, "Version", "/1.7"), (1, "VhUnknown", "(x)"),
    (2, "Resources", "8 0 R"), (2, "MediaBox", "[0 0 612 792]"), (2, "CropBox", "[0 0 612 792]"), (2, "Parent", "null"),
    (8, "Font", "<< >>"), (8, "XObject", "<< >>"), (8, "ExtGState", "<< >>"), (8, "ColorSpace", "<< >>"), (8, "Pattern", "<< >>"), (8, "Properties", "<< >>"),
    (3, "Resources", "8 0 R"), (3, "Contents", "4 0 R"), (3, "Annots", "[26 0 R]"), (3, "CropBox", "[0 0 10 10]"), (3, "TrimBox", "[0 0 10 10]"), (3, "Metadata", "15 0 R"), (3, "LGIDict", "<< >>"), (3, "VP", "[]"), (3, "VhUnknown", "(x)"), (3, "MediaBox", "[0 0 612 792]"),
];

fn doc_outcome(bytes: &[u8], cached: bool, tolerant: bool) -> Result<String, String> {
    let f = open::open(bytes, cached, tolerant, b"").map_err(|e| format!("load: {}", errs::root_kind(&e)))?;
    crate::with_file!(f, file => {
        let page = file.get_page(0).map_err(|e| format!("get_page: {}", errs::root_kind(&e)))?;
        let media = page.media_box().map(|r| format!("{:?}", (r.left, r.bottom, r.right, r.top))).unwrap_or_else(|e| format!("err:{}", errs::root_kind(&e)));
        let res = page.resources().map(|r| r.fonts.len().to_string()).unwrap_or_else(|e| format!("err:{}", errs::root_kind(&e)));
        let r = file.resolver();
        let annots = page.annotations.load(&r).map(|a| a.len().to_string()).unwrap_or_else(|e| format!("err:{}", errs::root_kind(&e)));
        let fonts_loaded = page.resources().map(|res| res.fonts.values().map(|f| f.load(&r).is_ok().to_string()).collect::<Vec<_>>().join(",")).unwrap_or_default();
        Ok(format!("pages={} media={} fonts={} loaded=[{}] contents={} annots={}", file.num_pages(), media, res, fonts_loaded, page.contents.is_some(), annots))
    })
}

pub fn check_doc(c: &DocCase, info: &mut CaseInfo) -> Result<(), Failure> {
    let art = || serde_json::to_value(c).unwrap();
    let zoo = schema::zoo();
    let base = zoo.iter().find(|(n, _, _)| *n == c.object).map(|(_, v, _)| v.clone()).unwrap();
    let size = SUBJECT + 1;
    let k = dangling_number(c.kind, size);
    let with = |v: Val| {
        let mut b = base.clone();
        b.set(&c.key, v);
        let (bytes, _) = schema::case_file_full(&Val::Null, &[], FREED, &[(c.object, b)], FREED_LATER);
        bytes
    };
    let (a, n) = (with(Val::Ref(k, 0)), with(Val::Null));
    info.label(format!("doc-object/{}", c.object));
    info.label(format!("kind/{}", KINDS[c.kind as usize % 7]));
    for cached in [false, true] {
        for tolerant in [false, true] {
            let run = |bytes: &[u8]| panics::catch(|| doc_outcome(bytes, cached, tolerant));
            let (oa, on) = (run(&a), run(&n));
            let cfg = format!("{}-{}", if cached { "cached" } else { "uncached" }, if tolerant { "tolerant" } else { "strict" });
            let oa = match oa {
                Ok(o) => o,
                Err(p) => {
                    let mut f = panic_failure(&p, art());
                    if !f.key.starts_with("harness-") {
                        f.key = format!("c18:doc:{}:{}:panic:{}", c.object, c.key, f.key);
                    }
                    return Err(f);
                }
            };
            let on = match on {
                Ok(o) => o,
                Err(p) => return Err(panic_failure(&p, art())),
            };
            if on.is_ok() {
                info.nontrivial(true);
                if oa != on {
                    return Err(Failure::new(format!("c18:doc:{}:{}:{}", c.object, c.key, if tolerant { "tolerant" } else { "strict" }), format!("object {} /{} -> {} 0 R ({}), {}: {:?}; with a literal null: {:?}", c.object, c.key, k, KINDS[c.kind as usize % 7], cfg, oa, on), art()));
                }
            } else {
                info.label("doc/null-variant-rejected");
            }
        }
    }
    Ok(())
}

pub fn all_cases() -> Vec<Case> {
    let mut out = Vec::new();
    for m in MODELS.iter() {
        let subject = crate::props::c15::build(m, &[]).subject;
        if m.shape == Shape::Scalar && !matches!(subject, Val::Array(_)) {
            continue;
        }
        for pos in positions(&subject) {
            for kind in 0..NKINDS {
                for tolerant in [false, true] {
                    out.push(Case { model: m.name.to_string(), tape: Bytes(vec![]), pos: pos.clone(), kind, tolerant });
                }
            }
        }
    }
    out
}

pub fn case_strategy() -> impl Strategy<Value = Case> {
    let models: Vec<usize> = MODELS.iter().enumerate().filter(|(_, m)| m.shape != Shape::Scalar).map(|(i, _)| i).collect();
    (any::<u16>(), gen::tape(40), any::<u16>(), 0u8..NKINDS, any::<bool>()).prop_map(move |(mi, tape, pi, kind, tolerant)| {
        let m = &MODELS[models[gen::pick_index(mi, models.len())]];
        let subject = crate::props::c15::build(m, &tape).subject;
        let ps = positions(&subject);
        let pos = if ps.is_empty() { Pos::Key("Type".into()) } else { ps[gen::pick_index(pi, ps.len())].clone() };
        Case { model: m.name.to_string(), tape: Bytes(tape), pos, kind, tolerant }
    })
}

pub fn replay(_ctx: &Ctx, check: &str, art: &Value, info: &mut CaseInfo) -> Result<(), Failure> {
    if check == "documents" {
        let c: DocCase = serde_json::from_value(art.clone()).map_err(|e| Failure::new("harness-c18-replay", e.to_string(), art.clone()))?;
        return check_doc(&c, info);
    }
    let c: Case = serde_json::from_value(art.clone()).map_err(|e| Failure::new("harness-c18-replay", e.to_string(), art.clone()))?;
    check_case(&c, info)
}

pub fn run(ctx: &Ctx) {
    let mute = crate::engine::runner::StderrMute::new();
    let errors_before = ctx.report.lock().unwrap().harness_errors.len();
    let cases = all_cases();
    ctx.run_enum("every-position", cases.len() as u64, |i| cases[i as usize].clone(), |c, info| check_case(c, info));
    let mut docs = Vec::new();
    for (object, key, _) in DOC_ENTRIES {
        for kind in 0..NKINDS {
            docs.push(DocCase { object: *object, key: key.to_string(), kind });
        }
    }
    ctx.run_enum("documents", docs.len() as u64, |i| docs[i as usize].clone(), |c, info| check_doc(c, info));
    let n = ctx.tier.pick(20_000, 1_500_000);
    ctx.run_cases("edited-instances", n, case_strategy, |c, info| check_case(c, info));
    drop(mute);
    for e in ctx.report.lock().unwrap().harness_errors.iter().skip(errors_before) {
        eprintln!("HARNESS-ERROR property=C18 {}", e);
    }
}
