//! C05 — stream filters decode what standard encoders produce.
use crate::engine::bytes::Bytes;
use crate::engine::errs;
use crate::engine::filters::{self as rf, Geometry};
use crate::engine::gen;
use crate::engine::open::open;
use crate::engine::panics;
use crate::engine::runner::{panic_failure, CaseInfo, Ctx, Failure, Tier};
use crate::engine::tape::Tape;
use crate::engine::val::Val;
use crate::engine::writer::{minimal_catalog, Writer};
use crate::with_file;
use pdf::enc::{decode, LZWFlateParams, PredictorType, StreamFilter};
use pdf::object::{Object, PlainRef, Resolve, Stream};
use proptest::prelude::*;
use serde::{Deserialize, Serialize};
use serde_json::json;

#[derive(Clone, Debug, PartialEq, Serialize, Deserialize)]
pub enum Base {
    Hex,
    A85,
    RunLength,
    Lzw { early: u32 },
    Flate { raw: bool, level: u32 },
}
impl Base {
    fn name(&self) -> &'static str {
        match self {
            Base::Hex => "ASCIIHexDecode",
            Base::A85 => "ASCII85Decode",
            Base::RunLength => "RunLengthDecode",
            Base::Lzw { .. } => "LZWDecode",
            Base::Flate { .. } => "FlateDecode",
        }
    }
}

#[derive(Clone, Debug, PartialEq, Serialize, Deserialize)]
pub struct Stage {
    pub base: Base,
    /// (predictor value 2 | 10..=15, geometry)
    pub pred: Option<(u32, Geometry)>,
}

#[derive(Clone, Debug)]
pub struct Case {
    pub data: Vec<u8>,
    pub stages: Vec<Stage>,
    pub tape: Vec<u8>,
    pub via_file: bool,
}

/// The encoded artifact: replay needs only this.
#[derive(Clone, Debug, Serialize, Deserialize)]
pub struct Encoded {
    pub plain: Bytes,
    pub encoded: Bytes,
    pub stages: Vec<Stage>,
    pub via_file: bool,
    /// how /Filter and /DecodeParms are written in the file form (0 = arrays, 1 = single name/dict when one stage)
    pub form: u8,
    pub constructs: Vec<String>,
}

fn stage_filter(s: &Stage) -> StreamFilter {
    let params = |early: i32| {
        let mut p = LZWFlateParams { early_change: early, ..LZWFlateParams::default() };
        if let Some((pred, g)) = &s.pred {
            p.predictor = *pred as i32;
            p.n_components = g.colors as i32;
            p.bits_per_component = g.bpc as i32;
            p.columns = g.columns as i32;
        }
        p
    };
    match &s.base {
        Base::Hex => StreamFilter::ASCIIHexDecode,
        Base::A85 => StreamFilter::ASCII85Decode,
        Base::RunLength => StreamFilter::RunLengthDecode,
        Base::Lzw { early } => StreamFilter::LZWDecode(params(*early as i32)),
        Base::Flate { .. } => StreamFilter::FlateDecode(params(1)),
    }
}

fn stage_parms(s: &Stage) -> Option<Val> {
    let mut d: Vec<(&str, Val)> = Vec::new();
    if let Base::Lzw { early: 0 } = s.base {
        d.push(("EarlyChange", Val::Int(0)));
    }
    if let Some((pred, g)) = &s.pred {
        d.push(("Predictor", Val::Int(*pred as i64)));
        // defaults (1, 8, 1) may be omitted
        if g.colors != 1 {
            d.push(("Colors", Val::Int(g.colors as i64)));
        }
        if g.bpc != 8 {
            d.push(("BitsPerComponent", Val::Int(g.bpc as i64)));
        }
        d.push(("Columns", Val::Int(g.columns as i64)));
    }
    if d.is_empty() {
        None
    } else {
        Some(Val::dict(d))
    }
}

fn shape_data(data: &[u8], stages: &[Stage]) -> Vec<u8> {
    // the stage nearest to the data (last in decode order) may carry a real geometry: whole rows only
    if let Some(Stage { pred: Some((pred, g)), .. }) = stages.last() {
        let rb = g.row_bytes().max(1);
        let rows = (data.len() / rb).max(1).min(200);
        let mut out: Vec<u8> = data.iter().cloned().cycle().take(if data.is_empty() { 0 } else { rows * rb }).collect();
        if data.is_empty() {
            out = vec![0x5a; rb];
        }
        if *pred == 2 && g.bpc < 8 {
            // padding bits of each row are zero
            let bits = (g.colors * g.bpc * g.columns) as usize;
            let pad = rb * 8 - bits;
            if pad > 0 {
                for r in 0..out.len() / rb {
                    let last = (r + 1) * rb - 1;
                    out[last] &= 0xffu8 << pad;
                }
            }
        }
        out
    } else {
        data.to_vec()
    }
}

pub fn encode_case(c: &Case) -> Encoded {
    let mut t = Tape::new(&c.tape);
    let plain = shape_data(&c.data, &c.stages);
    let mut cur = plain.clone();
    for s in c.stages.iter().rev() {
        if let Some((pred, g)) = &s.pred {
            cur = if *pred == 2 {
                rf::tiff_encode(&cur, *g)
            } else {
                let p = *pred;
                rf::png_encode(&cur, *g, |_| match p {
                    10 => 0,
                    11 => 1,
                    12 => 2,
                    13 => 3,
                    14 => 4,
                    _ => t.choose(5) as u8,
                })
            };
        }
        cur = match &s.base {
            Base::Hex => rf::hex_encode(&cur, &mut t),
            Base::A85 => rf::a85_encode(&cur, &mut t),
            Base::RunLength => rf::rl_encode(&cur, &mut t),
            Base::Lzw { early } => rf::lzw_encode(&cur, *early, &mut t),
            Base::Flate { raw, level } => rf::flate_encode(&cur, *raw, *level),
        };
    }
    let form = t.choose(2) as u8;
    Encoded { plain: Bytes(plain), encoded: Bytes(cur), stages: c.stages.clone(), via_file: c.via_file, form, constructs: t.used.iter().map(|s| s.to_string()).collect() }
}

fn key_of(e: &Encoded, what: &str) -> String {
    // name the first stage that is "special": predictor stages dominate
    let mut tags: Vec<String> = Vec::new();
    for s in &e.stages {
        let mut tag = s.base.name().to_string();
        if let Some((p, g)) = &s.pred {
            tag.push_str(&format!("+pred{}", if *p >= 10 { "PNG".to_string() } else { p.to_string() }));
            if g.bpc != 8 {
                tag.push_str(&format!("+bpc{}", g.bpc));
            }
        }
        tags.push(tag);
    }
    let mut extra: Vec<&String> = e.constructs.iter().filter(|c| c.starts_with("hex-odd") || c.starts_with("lzw-mid")).collect();
    extra.sort();
    format!("c05:{}:{}{}", what, tags.join(","), extra.iter().map(|s| format!("+{}", s)).collect::<String>())
}

pub fn check_encoded(e: &Encoded) -> Result<(), Failure> {
    let art = || serde_json::to_value(e).unwrap();
    if e.via_file {
        // a stream object in a file, read through Stream::data
        let mut w = Writer::new(b"", "1.5");
        for (n, v) in minimal_catalog(1, 2, 3, 1) {
            w.obj(n, 0, &v);
        }
        let mut d: Vec<(Bytes, Val)> = Vec::new();
        if e.stages.len() == 1 && e.form == 1 {
            d.push((Bytes::from("Filter"), Val::name(e.stages[0].base.name())));
            if let Some(p) = stage_parms(&e.stages[0]) {
                d.push((Bytes::from("DecodeParms"), p));
            }
        } else if !e.stages.is_empty() {
            d.push((Bytes::from("Filter"), Val::Array(e.stages.iter().map(|s| Val::name(s.base.name())).collect())));
            if e.stages.iter().any(|s| stage_parms(s).is_some()) {
                d.push((Bytes::from("DecodeParms"), Val::Array(e.stages.iter().map(|s| stage_parms(s).unwrap_or(Val::Null)).collect())));
            }
        }
        w.stream_obj(5, 0, &d, &e.encoded);
        w.free(0, 0, 65535);
        w.xref_table(6, &[(Bytes::from("Root"), Val::Ref(1, 0))], false);
        let file = w.finish();
        let f = open(&file, false, false, b"").map_err(|er| Failure::new("harness-c05-file-load", format!("{:?}", er), art()))?;
        let got = with_file!(f, file => {
            let r = file.resolver();
            match panics::catch(|| -> Result<Vec<u8>, pdf::error::PdfError> {
                let p = r.resolve(PlainRef { id: 5, gen: 0 })?;
                let s = Stream::<()>::from_primitive(p, &r)?;
                Ok(s.data(&r)?.to_vec())
            }) {
                Err(p) => return Err(panic_failure(&p, art())),
                Ok(r) => r,
            }
        });
        match got {
            Err(er) => Err(Failure::new(key_of(e, "file-decode-error"), format!("Stream::data failed: {:?} ({})", er, errs::root_kind(&er)), art())),
            Ok(d) if d != e.plain.0 => Err(Failure::new(key_of(e, "file-decode-differs"), format!("Stream::data returned {} bytes {:?}, original {} bytes {:?}", d.len(), Bytes::new(&d[..d.len().min(24)]), e.plain.len(), Bytes::new(&e.plain[..e.plain.len().min(24)])), art())),
            Ok(_) => Ok(()),
        }
    } else {
        let mut cur = e.encoded.0.clone();
        for s in &e.stages {
            let f = stage_filter(s);
            cur = match panics::catch(|| decode(&cur, &f)) {
                Err(p) => return Err(panic_failure(&p, art())),
                Ok(Err(er)) => return Err(Failure::new(key_of(e, "decode-error"), format!("decode with {:?} failed: {:?}", f, er), art())),
                Ok(Ok(d)) => d,
            };
        }
        if cur != e.plain.0 {
            return Err(Failure::new(key_of(e, "decode-differs"), format!("decoded {} bytes {:?}, original {} bytes {:?}", cur.len(), Bytes::new(&cur[..cur.len().min(24)]), e.plain.len(), Bytes::new(&e.plain[..e.plain.len().min(24)])), art()));
        }
        Ok(())
    }
}

/// Corruption: any damaged encoding gives Ok or Err, never a panic.
pub fn check_corrupt(stage: &Stage, damaged: &[u8]) -> Result<(), Failure> {
    let f = stage_filter(stage);
    match panics::catch(|| decode(damaged, &f).map(|v| v.len())) {
        Err(p) => Err(panic_failure(&p, json!({"corrupt": true, "stage": stage, "data": Bytes::new(damaged)}))),
        Ok(_) => Ok(()),
    }
}

fn base_strategy() -> impl Strategy<Value = Base> {
    prop_oneof![
        2 => Just(Base::Hex),
        2 => Just(Base::A85),
        2 => Just(Base::RunLength),
        3 => (0u32..2).prop_map(|early| Base::Lzw { early }),
        3 => (prop::bool::weighted(0.25), 0u32..10).prop_map(|(raw, level)| Base::Flate { raw, level }),
    ]
}

fn geometry() -> impl Strategy<Value = Geometry> {
    (1u32..=4, prop_oneof![4 => Just(8u32), 1 => Just(1u32), 1 => Just(2u32), 1 => Just(4u32), 2 => Just(16u32)], 1u32..=64).prop_map(|(colors, bpc, columns)| Geometry { colors, bpc, columns })
}

fn predictor() -> impl Strategy<Value = u32> {
    prop_oneof![2 => Just(2u32), 1 => Just(10u32), 1 => Just(11u32), 1 => Just(12u32), 1 => Just(13u32), 1 => Just(14u32), 3 => Just(15u32)]
}

pub fn case_strategy() -> impl Strategy<Value = Case> {
    (proptest::collection::vec((base_strategy(), proptest::option::weighted(0.45, (predictor(), geometry()))), 1..=3), gen::data(65536), gen::tape(64), prop::bool::weighted(0.3)).prop_map(|(st, data, tape, via_file)| {
        let n = st.len();
        let stages: Vec<Stage> = st
            .into_iter()
            .enumerate()
            .map(|(i, (base, pred))| {
                let pred = match (&base, pred) {
                    (Base::Lzw { .. }, Some(p)) | (Base::Flate { .. }, Some(p)) => {
                        if i + 1 == n {
                            Some(p)
                        } else {
                            // inner stages see arbitrary-length input: one-byte rows
                            Some((if p.0 == 2 { 2 } else { p.0 }, Geometry { colors: 1, bpc: 8, columns: 1 }))
                        }
                    }
                    _ => None,
                };
                Stage { base, pred }
            })
            .collect();
        Case { data, stages, tape, via_file }
    })
}

pub fn run_case(c: &Case, info: &mut CaseInfo) -> Result<(), Failure> {
    let e = encode_case(c);
    info.label(format!("chain-len/{}", e.stages.len()));
    for s in &e.stages {
        info.label(format!("filter/{}", s.base.name()));
        if let Some((p, g)) = &s.pred {
            info.label(format!("predictor/{}", p));
            info.label(format!("bpc/{}", g.bpc));
            info.label(format!("colors/{}", g.colors));
        }
    }
    for cst in &e.constructs {
        info.label(format!("construct/{}", cst));
    }
    info.label(if e.via_file { "entry/Stream::data" } else { "entry/enc::decode" });
    info.nontrivial(e.encoded.0 != e.plain.0 && e.plain.len() > 1);
    info.distinct((&e.encoded.0, format!("{:?}", e.stages)));
    info.sample = Some(json!({"stages": format!("{:?}", e.stages), "plain_len": e.plain.len(), "encoded_len": e.encoded.len(), "encoded_head": Bytes::new(&e.encoded[..e.encoded.len().min(40)]), "via_file": e.via_file}));
    check_encoded(&e)
}

pub fn replay(_ctx: &Ctx, check: &str, art: &serde_json::Value, info: &mut CaseInfo) -> Result<(), Failure> {
    info.nontrivial(true);
    if art.get("corrupt").is_some() {
        let stage: Stage = serde_json::from_value(art["stage"].clone()).map_err(|e| Failure::new("harness-bad-artifact", e.to_string(), art.clone()))?;
        let data: Bytes = serde_json::from_value(art["data"].clone()).map_err(|e| Failure::new("harness-bad-artifact", e.to_string(), art.clone()))?;
        return check_corrupt(&stage, &data);
    }
    let _ = check;
    let e: Encoded = serde_json::from_value(art.clone()).map_err(|e| Failure::new("harness-bad-artifact", e.to_string(), art.clone()))?;
    check_encoded(&e)
}

fn reference_unfilter(ft: u8, bpp: usize, prev: &[u8], inp: &[u8]) -> Vec<u8> {
    let g = Geometry { colors: bpp as u32, bpc: 8, columns: (inp.len() / bpp.max(1)) as u32 };
    // two-row image: first row = prev (type 0), second row = inp with filter ft
    let mut enc = vec![0u8];
    enc.extend_from_slice(prev);
    enc.push(ft);
    enc.extend_from_slice(inp);
    let out = rf::png_decode_ref(&enc, g).unwrap();
    out[prev.len()..].to_vec()
}

pub fn run(ctx: &Ctx) {
    // spec example and fixed vectors
    ctx.run_one("fixed-vectors", "lzw-spec-example", |info| {
        info.nontrivial(true);
        let e = Encoded { plain: Bytes(vec![45, 45, 45, 45, 45, 65, 45, 45, 45, 66]), encoded: Bytes(vec![0x80, 0x0B, 0x60, 0x50, 0x22, 0x0C, 0x0C, 0x85, 0x01]), stages: vec![Stage { base: Base::Lzw { early: 1 }, pred: None }], via_file: false, form: 0, constructs: vec![] };
        check_encoded(&e)
    });
    let cases = ctx.tier.pick(12_000, 600_000);
    ctx.run_cases("chains", cases, case_strategy, |c, info| run_case(c, info));

    // corruption: every prefix of short encodings, random damage of longer ones
    let ccases = ctx.tier.pick(3_000, 100_000);
    ctx.run_cases(
        "corruption",
        ccases,
        || (case_strategy(), proptest::collection::vec((any::<u16>(), any::<u8>(), 0u8..3), 1..6)),
        |(c, damage), info| {
            let mut c = c.clone();
            c.stages.truncate(1);
            c.via_file = false;
            c.data.truncate(400);
            let e = encode_case(&c);
            info.label(format!("filter/{}", e.stages[0].base.name()));
            info.nontrivial(true);
            info.distinct((&e.encoded.0, format!("{:?}", damage)));
            // prefixes
            let enc = &e.encoded.0;
            let step = (enc.len() / 64).max(1);
            let mut k = 0;
            while k < enc.len() {
                check_corrupt(&e.stages[0], &enc[..k])?;
                k += step;
            }
            let mut d = enc.clone();
            for (pos, val, kind) in damage {
                if d.is_empty() {
                    break;
                }
                let p = gen::pick_index(*pos, d.len());
                match kind {
                    0 => d[p] = *val,
                    1 => {
                        d.remove(p);
                    }
                    _ => d.insert(p, *val),
                }
            }
            info.sample = Some(json!({"stage": format!("{:?}", e.stages[0]), "damaged": Bytes::new(&d[..d.len().min(48)])}));
            check_corrupt(&e.stages[0], &d)?;
            // damage *below* the compression: a predicted byte stream that is a few bytes short or long,
            // or has a bad row tag, compressed correctly
            if let Some((pred, g)) = &e.stages[0].pred {
                let mut t = Tape::new(&c.tape);
                let predicted = if *pred == 2 { rf::tiff_encode(&e.plain, *g) } else { rf::png_encode(&e.plain, *g, |r| (r % 5) as u8) };
                for variant in 0..6usize {
                    let mut p = predicted.clone();
                    match variant {
                        0 => {
                            p.pop();
                        }
                        1 => {
                            p.pop();
                            p.pop();
                        }
                        2 => p.push(1),
                        3 => p.extend_from_slice(&[2, 7]),
                        4 => {
                            if !p.is_empty() {
                                p[0] = 9;
                            }
                        }
                        _ => p.truncate(p.len() / 2 + 1),
                    }
                    let enc = match &e.stages[0].base {
                        Base::Lzw { early } => rf::lzw_encode(&p, *early, &mut t),
                        Base::Flate { raw, level } => rf::flate_encode(&p, *raw, *level),
                        _ => continue,
                    };
                    info.label("damage-below-compression");
                    check_corrupt(&e.stages[0], &enc)?;
                }
            }
            Ok(())
        },
    );

    // ---- exhaustive sets
    // all hex digit pairs x white-space placement
    let digits: Vec<u8> = b"0123456789abcdefABCDEF".to_vec();
    let nd = digits.len() as u64;
    ctx.run_enum(
        "exhaustive-hex-digit-pairs",
        nd * nd * 4,
        |i| {
            let a = digits[(i % nd) as usize];
            let b = digits[((i / nd) % nd) as usize];
            let ws = (i / (nd * nd)) as usize;
            let text: Vec<u8> = match ws {
                0 => vec![a, b, b'>'],
                1 => vec![a, b' ', b, b'>'],
                2 => vec![b'\n', a, b, b'\r', b'>'],
                _ => vec![a, b'\t', 0x0c, b, 0, b'>'],
            };
            (a, b, text)
        },
        |(a, b, text), info| {
            info.nontrivial(true);
            let v = |c: u8| (c as char).to_digit(16).unwrap() as u8;
            let want = vec![v(*a) << 4 | v(*b)];
            match panics::catch(|| decode(text, &StreamFilter::ASCIIHexDecode)) {
                Ok(Ok(d)) if d == want => Ok(()),
                Ok(other) => Err(Failure::new("c05:hex-pair", format!("{:?} decoded to {:?}, want {:?}", Bytes::new(&text[..]), other, want), json!({"plain": Bytes(want.clone()), "encoded": Bytes(text.clone()), "stages": [Stage{base: Base::Hex, pred: None}], "via_file": false, "form": 0, "constructs": []}))),
                Err(p) => Err(panic_failure(&p, json!({}))),
            }
        },
    );
    // all run-length headers x body short / exact / long
    ctx.run_enum(
        "exhaustive-runlength-headers",
        256 * 3,
        |i| ((i % 256) as u8, (i / 256) as u8),
        |(h, body), info| {
            info.nontrivial(true);
            let need = if *h < 128 { *h as usize + 1 } else if *h > 128 { 1 } else { 0 };
            let have = match body {
                0 => need.saturating_sub(1),
                1 => need,
                _ => need + 3,
            };
            let mut enc = vec![*h];
            enc.extend((0..have).map(|k| (k * 7 + 1) as u8));
            let exact = *body == 1;
            if exact {
                enc.push(128);
            }
            let stage = Stage { base: Base::RunLength, pred: None };
            match panics::catch(|| decode(&enc, &StreamFilter::RunLengthDecode)) {
                Err(p) => Err(panic_failure(&p, json!({"corrupt": true, "stage": stage, "data": Bytes(enc.clone())}))),
                Ok(res) => {
                    if exact {
                        let want = rf::rl_decode_ref(&enc).unwrap();
                        match res {
                            Ok(d) if d == want => Ok(()),
                            other => Err(Failure::new("c05:runlength-header", format!("header {} with exact body: {:?}, want {:?}", h, other.map(|d| d.len()), want.len()), json!({"plain": Bytes(want), "encoded": Bytes(enc.clone()), "stages": [stage], "via_file": false, "form": 0, "constructs": []}))),
                        }
                    } else {
                        Ok(())
                    }
                }
            }
        },
    );
    // PNG row filters through the public `unfilter`: all (left, up, upper-left) triples for Paeth,
    // all (type, left, up, x) for Sub/Up/Avg; bpp = 1, rows of 2 bytes [left-producing byte, x]
    let blocks: u64 = match ctx.tier {
        Tier::Quick => 256 * 8, // a sample of upper-left values
        Tier::Thorough => 256 * 256,
    };
    ctx.run_enum(
        "exhaustive-png-filters-blocks",
        blocks * 4,
        |i| {
            let ft = 1 + (i / blocks) as u8; // 1..=4
            let k = i % blocks;
            let (b, c) = match ctx.tier {
                Tier::Quick => ((k % 256) as u8, ((k / 256) * 37 % 256) as u8),
                Tier::Thorough => ((k % 256) as u8, (k / 256) as u8),
            };
            (ft, b, c)
        },
        |(ft, up, ul), info| {
            info.nontrivial(true);
            // for every left value a and every x: row prev=[ul, up], inp=[a, x]; with filter `ft`
            // first pixel has no left neighbour, so to control `left` exactly use filter-specific expectation from the reference
            let ptype = match ft {
                1 => PredictorType::Sub,
                2 => PredictorType::Up,
                3 => PredictorType::Avg,
                _ => PredictorType::Paeth,
            };
            for a in 0..=255u8 {
                // x sampled (all 256 for Paeth's tie cases is redundant: result = x + predictor); use 3 values
                for x in [0u8, 1, 200] {
                    let prev = [*ul, *up];
                    let inp = [a, x];
                    let mut out = [0u8; 2];
                    let r = panics::catch(|| pdf::enc::unfilter(ptype, 1, &prev, &inp, &mut out));
                    if let Err(p) = r {
                        return Err(panic_failure(&p, json!({})));
                    }
                    let want = reference_unfilter(*ft, 1, &prev, &inp);
                    if out[..] != want[..] {
                        return Err(Failure::new(format!("c05:unfilter:{:?}", ptype), format!("unfilter({:?}, prev={:?}, inp={:?}) = {:?}, reference {:?}", ptype, prev, inp, out, want), json!({"ft": ft, "prev": prev, "inp": inp})));
                    }
                }
            }
            Ok(())
        },
    );
    // ASCII85: all groups a conforming encoder can emit, in blocks of 2^16 (thorough: all 2^32; quick: 2^24 sample)
    let a85_blocks: u64 = ctx.tier.pick(256, 65536);
    ctx.run_enum(
        "exhaustive-ascii85-groups-blocks-of-65536",
        a85_blocks,
        |i| match ctx.tier {
            Tier::Quick => (i * 257) % 65536,
            Tier::Thorough => i,
        },
        |hi, info| {
            info.nontrivial(true);
            let mut enc = Vec::with_capacity(65536 * 5 + 2);
            let mut want = Vec::with_capacity(65536 * 4);
            let mut t = Tape::new(&[]);
            for lo in 0..65536u32 {
                let n = ((*hi as u32) << 16) | lo;
                want.extend_from_slice(&n.to_be_bytes());
            }
            enc.extend_from_slice(&rf::a85_encode(&want, &mut t));
            match panics::catch(|| decode(&enc, &StreamFilter::ASCII85Decode)) {
                Ok(Ok(d)) if d == want => Ok(()),
                Ok(Ok(d)) => {
                    let pos = d.iter().zip(want.iter()).position(|(a, b)| a != b).unwrap_or(d.len().min(want.len()));
                    Err(Failure::new("c05:ascii85-group", format!("block {:#06x}: first difference at byte {} (group value {:#010x})", hi, pos, ((*hi as u32) << 16) | (pos / 4) as u32), json!({"block": hi})))
                }
                Ok(Err(e)) => Err(Failure::new("c05:ascii85-group", format!("block {:#06x}: {:?}", hi, e), json!({"block": hi}))),
                Err(p) => Err(panic_failure(&p, json!({}))),
            }
        },
    );
}

pub const RULE: &str = "cases = (byte string, filter chain of 1-3 stages, parameters) encoded by the harness's specification encoders (ASCIIHex with case/white-space/odd final digit, ASCII85 with z/line breaks, RunLength with random run splitting, LZW with EarlyChange 0/1 and clear-table placement, Flate zlib/raw levels 0-9, PNG predictors 10-15 and TIFF 2 over colours 1-4 x bpc 1/2/4/8/16 x columns 1-64) and decoded through enc::decode or through Stream::data on a stream object in a file; corruption cases (every prefix, random damage) must not panic; exhaustive: hex digit pairs x white-space, all run-length headers, PNG filter functions via unfilter, ASCII85 groups in 2^16 blocks (all 2^32 in thorough); oracle = decoded == original; non-trivial = encoded != original and length > 1; distinct by (encoded bytes, stages)";
