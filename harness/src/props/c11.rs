//! C11 — an object's value does not depend on how it is stored.
use crate::engine::bytes::Bytes;
use crate::engine::errs;
use crate::engine::gen;
use crate::engine::open::{open, AnyFile};
use crate::engine::runner::{CaseInfo, Ctx, Failure};
use crate::engine::val::{canon, from_primitive, Val};
use crate::engine::valgen;
use crate::engine::writer::{encode_chain, minimal_catalog, FilterSpec, Writer};
use crate::props::c02::chain;
use crate::with_file;
use pdf::object::{Object, PlainRef, Resolve, Stream};
use pdf::primitive::Primitive;
use proptest::prelude::*;
use serde::{Deserialize, Serialize};
use serde_json::json;

#[derive(Clone, Debug)]
pub struct Case {
    pub members: Vec<Val>,
    pub objstm_chain: u8,
    pub trailing_ws: bool,
    pub stream_data: Vec<u8>,
    pub stream_chain: u8,
    pub tape: Vec<u8>,
    pub length_in_second_objstm: bool,
}

#[derive(Clone, Debug, Serialize, Deserialize)]
pub struct Rendered {
    pub file: Bytes,
    /// (compressed number, direct twin number, value)
    pub pairs: Vec<(u64, u64, Val)>,
    /// stream objects that must all have this raw data and this decoded data
    pub streams: Vec<u64>,
    pub raw: Bytes,
    pub decoded: Bytes,
    pub labels: Vec<String>,
}

pub fn render(c: &Case) -> Rendered {
    let mut w = Writer::new(b"", "1.5");
    w.set_tape(&c.tape);
    for (n, v) in minimal_catalog(1, 2, 3, 1) {
        w.obj(n, 0, &v);
    }
    let mut labels = Vec::new();
    let mut pairs = Vec::new();
    let k = c.members.len();
    let mut members: Vec<(u64, Val)> = Vec::new();
    for (i, v) in c.members.iter().enumerate() {
        let cn = 20 + i as u64;
        let dn = 40 + i as u64;
        members.push((cn, v.clone()));
        w.obj(dn, 0, v);
        pairs.push((cn, dn, v.clone()));
        let pos = if i == 0 { "first" } else if i + 1 == k { "last" } else { "middle" };
        labels.push(format!("kind/{}/{}", v.kind(), pos));
        if i + 1 == k && !c.trailing_ws {
            labels.push(format!("last-without-trailing-ws/{}", v.kind()));
        }
    }
    // the /Length integer, stored compressed: member of the same object stream (or a second one)
    let len_chain = chain(c.stream_chain);
    let mut t = crate::engine::tape::Tape::new(&c.tape);
    let (enc, fentries) = encode_chain(&c.stream_data, &len_chain, &mut t);
    let len_val = Val::Int(enc.len() as i64);
    if c.length_in_second_objstm {
        w.objstm(11, &[(64, len_val.clone())], &chain(c.objstm_chain.wrapping_add(1)), false, &[]);
        labels.push("length-int-alone-in-objstm".into());
    } else {
        // last position when trailing_ws is false exercises the member-ends-at-end-of-stream case
        members.push((64, len_val.clone()));
    }
    w.objstm(10, &members, &chain(c.objstm_chain), c.trailing_ws, &[]);
    labels.push(format!("objstm-filter/{}", c.objstm_chain % 6));
    w.obj(63, 0, &len_val);
    // three streams with identical content and different /Length storage
    for (num, len) in [(60u64, len_val.clone()), (61, Val::Ref(63, 0)), (62, Val::Ref(64, 0))] {
        let mut d: Vec<(Bytes, Val)> = vec![(Bytes::from("Length"), len)];
        d.extend(fentries.clone());
        w.obj(num, 0, &Val::Stream(d, Bytes(enc.clone())));
    }
    labels.push(format!("stream-filter/{}", c.stream_chain % 6));
    w.xref_stream(70, 71, &[(Bytes::from("Root"), Val::Ref(1, 0))], false, &[FilterSpec::Flate { raw: false, level: 6 }], false);
    Rendered { file: Bytes(w.finish()), pairs, streams: vec![60, 61, 62], raw: Bytes(enc), decoded: Bytes(c.stream_data.clone()), labels }
}

pub fn check_rendered(r: &Rendered) -> Result<(), Failure> {
    let art = || serde_json::to_value(r).unwrap();
    for (cached, preload) in [(false, false), (true, false), (true, true), (false, true)] {
        let cfg = match (cached, preload) {
            (false, false) => "uncached",
            (true, false) => "cached",
            (true, true) => "cached, object streams first loaded as plain streams",
            (false, true) => "uncached, object streams first loaded as plain streams",
        };
        let f: AnyFile = open(&r.file, cached, false, b"").map_err(|e| Failure::new(format!("c11:load-error:{}", errs::root_kind(&e)), format!("{} load failed: {:?}", cfg, e), art()))?;
        with_file!(f, file => {
            let resolver = file.resolver();
            if preload {
                // what a tool listing all streams does: the object-stream objects are loaded as ordinary streams first
                for n in [10u64, 11] {
                    let _ = resolver.get(pdf::object::Ref::<Stream<()>>::from_id(n)).map(|s| Stream::data(&s, &resolver).map(|d| d.len()));
                }
            }
            for (cn, dn, v) in &r.pairs {
                let kind = v.kind();
                let d = match resolver.resolve(PlainRef { id: *dn, gen: 0 }) {
                    Ok(d) => d,
                    Err(e) if v.depth() > 16 => {
                        // beyond the parser's nesting limit: the compressed twin must be refused the same way
                        match resolver.resolve(PlainRef { id: *cn, gen: 0 }) {
                            Err(e2) if errs::root_kind(&e2) == errs::root_kind(&e) => continue,
                            other => return Err(Failure::new(format!("c11:nesting-limit-differs:{}", kind), format!("{}: direct twin {} (nesting depth {}) is refused with {}, compressed object {} gives {:?}", cfg, dn, v.depth(), errs::root_kind(&e), cn, other.map(|p| p.get_debug_name()).map_err(|e| errs::root_kind(&e))), art())),
                        }
                    }
                    Err(e) => return Err(Failure::new(format!("c11:direct-error:{}", kind), format!("{}: direct twin {} of {:?}: {:?}", cfg, dn, v, e), art())),
                };
                let dv = from_primitive(&d, Some(&resolver)).map_err(|m| Failure::new("c11:stream-data", m, art()))?;
                if canon(&dv) != canon(v) {
                    return Err(Failure::new(format!("c11:direct-differs:{}", kind), format!("{}: direct object {} wrote {:?} read {:?}", cfg, dn, v, dv), art()));
                }
                let c = resolver.resolve(PlainRef { id: *cn, gen: 0 }).map_err(|e| Failure::new(format!("c11:compressed-error:{}", kind), format!("{}: compressed object {} holding {:?} (direct twin reads fine): {:?}", cfg, cn, v, e), art()))?;
                let cv = from_primitive(&c, Some(&resolver)).map_err(|m| Failure::new("c11:stream-data", m, art()))?;
                if canon(&cv) != canon(&dv) {
                    return Err(Failure::new(format!("c11:compressed-differs:{}", kind), format!("{}: compressed object {} reads {:?}, its direct twin {:?}", cfg, cn, cv, dv), art()));
                }
            }
            for (i, s) in r.streams.iter().enumerate() {
                let storage = ["direct-int", "ref-to-direct-int", "ref-to-compressed-int"][i];
                let p = resolver.resolve(PlainRef { id: *s, gen: 0 }).map_err(|e| Failure::new(format!("c11:stream-error:{}", storage), format!("{}: stream {} with /Length as {}: {:?}", cfg, s, storage, e), art()))?;
                let ps = match &p {
                    Primitive::Stream(ps) => ps.clone(),
                    other => return Err(Failure::new(format!("c11:stream-kind:{}", storage), format!("{}: stream {} read as {}", cfg, s, other.get_debug_name()), art())),
                };
                let raw = ps.raw_data(&resolver).map_err(|e| Failure::new(format!("c11:stream-raw-error:{}", storage), format!("{}: {:?}", cfg, e), art()))?;
                if raw[..] != r.raw.0[..] {
                    return Err(Failure::new(format!("c11:stream-raw-differs:{}", storage), format!("{}: stream {} raw data {} bytes, want {}", cfg, s, raw.len(), r.raw.len()), art()));
                }
                let typed = Stream::<()>::from_primitive(p.clone(), &resolver).map_err(|e| Failure::new(format!("c11:stream-typed-error:{}", storage), format!("{}: {:?}", cfg, e), art()))?;
                let data = typed.data(&resolver).map_err(|e| Failure::new(format!("c11:stream-decode-error:{}", storage), format!("{}: {:?}", cfg, e), art()))?;
                if data[..] != r.decoded.0[..] {
                    return Err(Failure::new(format!("c11:stream-decoded-differs:{}", storage), format!("{}: stream {} decoded {} bytes, want {}", cfg, s, data.len(), r.decoded.len()), art()));
                }
            }
        });
    }
    Ok(())
}

pub fn case_strategy() -> impl Strategy<Value = Case> {
    (proptest::collection::vec(valgen::val(3), 1..7), any::<u8>(), any::<bool>(), gen::data(3000), any::<u8>(), gen::tape(80), any::<bool>()).prop_map(|(members, objstm_chain, trailing_ws, stream_data, stream_chain, tape, length_in_second_objstm)| Case {
        members,
        objstm_chain,
        trailing_ws,
        stream_data,
        stream_chain,
        tape,
        length_in_second_objstm,
    })
}

pub fn run_case(c: &Case, info: &mut CaseInfo) -> Result<(), Failure> {
    let r = render(c);
    for l in &r.labels {
        info.label(l.clone());
    }
    let nt = c.members.iter().any(|v| !matches!(v, Val::Array(_) | Val::Dict(_))) || !c.trailing_ws;
    info.nontrivial(nt);
    info.distinct(&r.file.0);
    info.sample = Some(json!({"members": format!("{:?}", c.members).chars().take(300).collect::<String>(), "objstm_filter": c.objstm_chain % 6, "trailing_ws": c.trailing_ws, "stream_filter": c.stream_chain % 6, "file_len": r.file.len()}));
    check_rendered(&r)
}

pub fn replay(_ctx: &Ctx, _check: &str, art: &serde_json::Value, info: &mut CaseInfo) -> Result<(), Failure> {
    let r: Rendered = serde_json::from_value(art.clone()).map_err(|e| Failure::new("harness-bad-artifact", e.to_string(), art.clone()))?;
    info.nontrivial(true);
    info.distinct(&r.file.0);
    check_rendered(&r)
}

fn kind_samples() -> Vec<Val> {
    vec![
        Val::Null,
        Val::Bool(true),
        Val::Bool(false),
        Val::Int(42),
        Val::Int(7),
        Val::Int(-3),
        Val::Int(0),
        Val::Real(1.5),
        Val::Real(-0.25),
        Val::name("Name"),
        Val::name(""),
        Val::str(b"string"),
        Val::str(b""),
        Val::str(b"\xff\x00(hi)"),
        Val::Ref(1, 0),
        Val::Array(vec![]),
        Val::Array(vec![Val::Int(1), Val::Int(2)]),
        Val::dict(vec![]),
        Val::dict(vec![("K", Val::Int(5))]),
    ]
}

pub fn run(ctx: &Ctx) {
    let cases = ctx.tier.pick(4_000, 300_000);
    ctx.run_cases("generated", cases, case_strategy, |c, info| run_case(c, info));
    // containers nested 12-23 deep (around the parser's nesting limit), three shapes, every position
    ctx.run_enum(
        "nesting-depth",
        12 * 3 * 3 * 2,
        |mut i| {
            let depth = 12 + (i % 12) as usize;
            i /= 12;
            let shape = [0u32, u32::MAX, 0xAAAA_AAAA][(i % 3) as usize];
            i /= 3;
            let pos = i % 3;
            i /= 3;
            let trailing_ws = i % 2 == 1;
            let v = valgen::chain(depth, shape, Val::Int(7));
            let filler = |k: i64| Val::dict(vec![("F", Val::Int(k))]);
            let members = match pos {
                0 => vec![v, filler(1), filler(2)],
                1 => vec![filler(1), v, filler(2)],
                _ => vec![filler(1), filler(2), v],
            };
            Case { members, objstm_chain: (depth % 6) as u8, trailing_ws, stream_data: b"stream data".to_vec(), stream_chain: 0, tape: vec![], length_in_second_objstm: true }
        },
        |c, info| {
            info.label(format!("nesting/{}", c.members.iter().map(|m| m.depth()).max().unwrap_or(0)));
            run_case(c, info)
        },
    );
    // exhaustive: kind sample x position (first, middle, last) x trailing ws x objstm filter x length-objstm
    let kinds = kind_samples();
    let nk = kinds.len() as u64;
    let total = nk * 3 * 2 * 6 * 2;
    ctx.run_enum(
        "exhaustive-kind-position-trailing-filter",
        total,
        |mut i| {
            let v = kinds[(i % nk) as usize].clone();
            i /= nk;
            let pos = i % 3;
            i /= 3;
            let trailing_ws = i % 2 == 1;
            i /= 2;
            let objstm_chain = (i % 6) as u8;
            i /= 6;
            let second = i % 2 == 1;
            let filler = |k: i64| Val::dict(vec![("F", Val::Int(k))]);
            let members = match pos {
                0 => vec![v, filler(1), filler(2)],
                1 => vec![filler(1), v, filler(2)],
                _ => vec![filler(1), filler(2), v],
            };
            // "last" only is last when the /Length integer lives in the second object stream
            Case { members, objstm_chain, trailing_ws, stream_data: b"stream data 0123456789".to_vec(), stream_chain: (objstm_chain + 1) % 6, tape: vec![], length_in_second_objstm: second }
        },
        |c, info| run_case(c, info),
    );
}

pub const RULE: &str = "cases = files from the harness writer holding 1-6 values both as members of an object stream (any position, with/without trailing white-space, 6 filter chains) and as ordinary indirect objects, plus three identical streams whose /Length is a direct integer, a reference to a direct integer, and a reference to an integer inside an object stream; exhaustive over 19 kind samples x position x trailing x filter x length placement, and over containers nested 12-23 deep x 3 shapes x position; each file read uncached and cached, with and without the object-stream objects first loaded as ordinary streams; oracle = resolve(compressed) == resolve(direct twin) == written value, raw and decoded stream data equal across /Length storages, cached and uncached; non-trivial = a non-container member or a last member without trailing white-space; distinct by file bytes";
