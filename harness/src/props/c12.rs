//! C12 — caches are invisible: cached and uncached documents answer identically.
use crate::engine::bytes::Bytes;
use crate::engine::corpus;
use crate::engine::docgen;
use crate::engine::errs;
use crate::engine::gen;
use crate::engine::panics;
use crate::engine::runner::{CaseInfo, Ctx, Failure, Tier};
use crate::engine::val::{canon, from_primitive};
use crate::engine::walker::{h64, Out};
use pdf::any::AnySync;
use pdf::error::PdfError;
use pdf::file::{Cache, File, FileOptions, Log, NoCache, NoLog, SyncCache};
use pdf::font::Font;
use pdf::object::*;
use pdf::primitive::{Dictionary, Primitive};
use proptest::prelude::*;
use serde::{Deserialize, Serialize};
use serde_json::json;
use std::sync::Arc;

#[derive(Clone, Debug, PartialEq, Eq, Hash, Serialize, Deserialize)]
pub enum Call {
    Resolve(u64),
    GetPrimitive(u64),
    GetDictionary(u64),
    GetPagesNode(u64),
    GetFont(u64),
    GetXObject(u64),
    GetStream(u64),
    GetAnnot(u64),
    StreamData(u64),
    RawImageData(u64),
    ImageData(u64),
    Page(u32),
}
impl Call {
    pub fn kind(&self) -> &'static str {
        match self {
            Call::Resolve(_) => "resolve",
            Call::GetPrimitive(_) => "get<Primitive>",
            Call::GetDictionary(_) => "get<Dictionary>",
            Call::GetPagesNode(_) => "get<PagesNode>",
            Call::GetFont(_) => "get<Font>",
            Call::GetXObject(_) => "get<XObject>",
            Call::GetStream(_) => "get<Stream>",
            Call::GetAnnot(_) => "get<Annot>",
            Call::StreamData(_) => "Stream::data",
            Call::RawImageData(_) => "raw_image_data",
            Call::ImageData(_) => "image_data",
            Call::Page(_) => "get_page",
        }
    }
    pub fn object(&self) -> Option<u64> {
        match self {
            Call::Resolve(n) | Call::GetPrimitive(n) | Call::GetDictionary(n) | Call::GetPagesNode(n) | Call::GetFont(n) | Call::GetXObject(n) | Call::GetStream(n) | Call::GetAnnot(n) | Call::StreamData(n) | Call::RawImageData(n) | Call::ImageData(n) => Some(*n),
            Call::Page(_) => None,
        }
    }
}

fn hs(x: impl std::hash::Hash) -> String {
    format!("{:016x}", h64(x))
}

pub fn exec<OC, SC, L>(file: &File<Vec<u8>, OC, SC, L>, call: &Call) -> Out
where
    OC: Cache<Result<AnySync, Arc<PdfError>>>,
    SC: Cache<Result<Arc<[u8]>, Arc<PdfError>>>,
    L: Log,
{
    let r = file.resolver();
    let res: Result<Result<String, PdfError>, panics::PanicSig> = panics::catch(|| -> Result<String, PdfError> {
        let pd = |p: &Primitive| -> Result<String, PdfError> {
            let v = from_primitive(p, Some(&r)).map_err(|m| PdfError::Other { msg: m })?;
            Ok(hs(format!("{:?}", canon(&v))))
        };
        match call {
            Call::Resolve(n) => pd(&r.resolve(PlainRef { id: *n, gen: 0 })?),
            Call::GetPrimitive(n) => {
                let p = r.get(Ref::<Primitive>::from_id(*n))?;
                pd(&p)
            }
            Call::GetDictionary(n) => {
                let d = r.get(Ref::<Dictionary>::from_id(*n))?;
                pd(&Primitive::Dictionary((*d).clone()))
            }
            Call::GetPagesNode(n) => {
                let node = r.get(Ref::<PagesNode>::from_id(*n))?;
                Ok(match *node {
                    PagesNode::Leaf(ref p) => format!("leaf:{:?}:{}", p.media_box.map(|b| (b.right.to_bits(), b.top.to_bits())), p.rotate),
                    PagesNode::Tree(ref t) => format!("tree:{}:{}", t.count, t.kids.len()),
                })
            }
            Call::GetFont(n) => {
                let f = r.get(Ref::<Font>::from_id(*n))?;
                Ok(format!("{:?}:{:?}", f.subtype, f.name.as_ref().map(|n| n.as_str().to_string())))
            }
            Call::GetXObject(n) => {
                let x = r.get(Ref::<XObject>::from_id(*n))?;
                Ok(match *x {
                    XObject::Image(ref im) => format!("image:{}x{}", im.width, im.height),
                    XObject::Form(ref f) => format!("form:{}", f.dict().form_type),
                    XObject::Postscript(_) => "ps".into(),
                })
            }
            Call::GetStream(n) => {
                let s = r.get(Ref::<Stream<()>>::from_id(*n))?;
                let d = Stream::data(&s, &r)?;
                Ok(format!("{}B:{}", d.len(), hs(&d[..])))
            }
            Call::GetAnnot(n) => {
                let a = r.get(Ref::<Annot>::from_id(*n))?;
                Ok(format!("{}:{}", a.subtype.as_str(), a.annot_flags))
            }
            Call::StreamData(n) => {
                let p = r.resolve(PlainRef { id: *n, gen: 0 })?;
                let s = Stream::<()>::from_primitive(p, &r)?;
                let d = s.data(&r)?;
                Ok(format!("{}B:{}", d.len(), hs(&d[..])))
            }
            Call::RawImageData(n) => {
                let p = r.resolve(PlainRef { id: *n, gen: 0 })?;
                let im = ImageXObject::from_primitive(p, &r)?;
                let (d, f) = im.raw_image_data(&r)?;
                Ok(format!("{}B:{}:{}", d.len(), hs(&d[..]), f.is_some()))
            }
            Call::ImageData(n) => {
                let p = r.resolve(PlainRef { id: *n, gen: 0 })?;
                let im = ImageXObject::from_primitive(p, &r)?;
                let d = im.image_data(&r)?;
                Ok(format!("{}B:{}", d.len(), hs(&d[..])))
            }
            Call::Page(i) => {
                let p = file.get_page(*i)?;
                let res = match p.resources() {
                    Ok(r) => format!("fonts={},xobjects={},gs={}", r.fonts.len(), r.xobjects.len(), r.graphics_states.len()),
                    Err(e) => format!("err:{}", errs::root_kind(&e)),
                };
                Ok(format!("page:{}:{:?}:{}", p.get_ref().get_inner().id, p.media_box().ok().map(|b| (b.right.to_bits(), b.top.to_bits())), res))
            }
        }
    });
    match res {
        Ok(Ok(d)) => Out::Ok(d),
        Ok(Err(e)) => Out::Err(errs::root_kind(&e)),
        Err(p) => Out::Panic(if p.in_lib { p.key() } else { format!("harness-{}", p.key()) }),
    }
}

#[derive(Clone, Debug, Serialize, Deserialize)]
pub struct Rendered {
    pub name: String,
    pub file: Bytes,
    pub password: Bytes,
    pub calls: Vec<Call>,
}

fn run_calls<OC, SC>(opts: FileOptions<'_, OC, SC, NoLog>, data: &[u8], calls: &[Call]) -> Result<Vec<Out>, PdfError>
where
    OC: Cache<Result<AnySync, Arc<PdfError>>>,
    SC: Cache<Result<Arc<[u8]>, Arc<PdfError>>>,
{
    let file = opts.load(data.to_vec())?;
    Ok(calls.iter().map(|c| exec(&file, c)).collect())
}

pub const CONFIGS: [&str; 4] = ["none", "object-cache-only", "stream-cache-only", "both"];

pub fn run_config(cfg: usize, data: &[u8], pw: &[u8], calls: &[Call]) -> Result<Vec<Out>, PdfError> {
    match cfg {
        0 => run_calls(FileOptions::uncached().password(pw), data, calls),
        1 => run_calls(FileOptions::uncached().cache(SyncCache::new(), NoCache).password(pw), data, calls),
        2 => run_calls(FileOptions::uncached().cache(NoCache, SyncCache::new()).password(pw), data, calls),
        _ => run_calls(FileOptions::cached().password(pw), data, calls),
    }
}

pub fn check_rendered(r: &Rendered) -> Result<(), Failure> {
    let art = || serde_json::to_value(r).unwrap();
    let base = run_config(0, &r.file, &r.password, &r.calls).map_err(|e| Failure::new("harness-c12-load", format!("{}: {:?}", r.name, e), json!({"name": r.name})))?;
    let describe = |k: usize| -> String {
        let c = &r.calls[k];
        let earlier: Vec<&'static str> = r.calls[..k].iter().filter(|p| p.object() == c.object()).map(|p| p.kind()).collect();
        format!("{}-after-[{}]", c.kind(), earlier.join(","))
    };
    // open finding: the cross-reference stream of an encrypted file is wrongly decrypted when read as an
    // object; its data is right only when the (pre-decryption) load left it in the stream cache
    let gate_key = |k: usize| -> Option<String> {
        let n = r.calls[k].object()?;
        if is_xref_stream_of_encrypted(&r.file, &r.password, n) {
            Some("gate:xref-stream-of-encrypted-file".to_string())
        } else {
            None
        }
    };
    for cfg in 1..4 {
        let got = run_config(cfg, &r.file, &r.password, &r.calls).map_err(|e| Failure::new(format!("c12:load-differs:{}", CONFIGS[cfg]), format!("{}: uncached loads, {} fails: {:?}", r.name, CONFIGS[cfg], e), art()))?;
        for (k, (a, b)) in base.iter().zip(got.iter()).enumerate() {
            if a != b {
                return Err(Failure::new(gate_key(k).unwrap_or_else(|| format!("c12:cache-visible:{}:{}", CONFIGS[cfg], describe(k))), format!("{}: call {} {:?}: without caches {:?}, with {} {:?}; sequence {:?}", r.name, k, r.calls[k], a, CONFIGS[cfg], b, r.calls), art()));
            }
        }
    }
    // history independence: every call answers as it does alone on a fresh uncached document
    for (k, c) in r.calls.iter().enumerate() {
        let solo = run_config(0, &r.file, &r.password, std::slice::from_ref(c)).map_err(|e| Failure::new("harness-c12-load", format!("{:?}", e), json!({})))?;
        if solo[0] != base[k] {
            return Err(Failure::new(format!("c12:history-dependent:{}", describe(k)), format!("{}: call {} {:?} alone gives {:?}, after {:?} it gives {:?} (no caches)", r.name, k, c, solo[0], &r.calls[..k], base[k]), art()));
        }
    }
    Ok(())
}

pub fn is_xref_stream_of_encrypted(data: &[u8], pw: &[u8], n: u64) -> bool {
    let Ok(file) = FileOptions::uncached().password(pw).load(data.to_vec()) else { return false };
    if file.trailer.encrypt_dict.is_none() {
        return false;
    }
    let r = file.resolver();
    match r.resolve(PlainRef { id: n, gen: 0 }) {
        Ok(Primitive::Stream(s)) => s.info.get("Type").and_then(|t| t.as_name().ok()) == Some("XRef"),
        _ => false,
    }
}

/// Which call kinds make sense for object `n` (right and wrong types).
pub fn applicable(data: &[u8], pw: &[u8], n: u64) -> Vec<Call> {
    let Ok(file) = FileOptions::uncached().password(pw).load(data.to_vec()) else { return vec![] };
    let r = file.resolver();
    let Ok(p) = r.resolve(PlainRef { id: n, gen: 0 }) else { return vec![Call::Resolve(n), Call::GetPrimitive(n)] };
    let mut out = vec![Call::Resolve(n), Call::GetPrimitive(n)];
    let dict = match &p {
        Primitive::Dictionary(d) => Some(d.clone()),
        Primitive::Stream(s) => Some(s.info.clone()),
        _ => None,
    };
    let ty = dict.as_ref().and_then(|d| d.get("Type")).and_then(|t| t.as_name().ok()).map(|s| s.to_string());
    let sub = dict.as_ref().and_then(|d| d.get("Subtype")).and_then(|t| t.as_name().ok()).map(|s| s.to_string());
    let is_stream = matches!(p, Primitive::Stream(_));
    if is_stream {
        out.push(Call::StreamData(n));
        out.push(Call::GetStream(n));
        if sub.as_deref() == Some("Image") {
            out.push(Call::RawImageData(n));
            out.push(Call::ImageData(n));
            out.push(Call::GetXObject(n));
        } else if sub.as_deref() == Some("Form") {
            out.push(Call::GetXObject(n));
            out.push(Call::GetFont(n)); // wrong type
        } else {
            out.push(Call::GetXObject(n)); // wrong type
        }
    } else if dict.is_some() {
        out.push(Call::GetDictionary(n));
        match ty.as_deref() {
            Some("Page") | Some("Pages") => {
                out.push(Call::GetPagesNode(n));
                out.push(Call::GetFont(n)); // wrong
            }
            Some("Font") => {
                out.push(Call::GetFont(n));
                out.push(Call::GetPagesNode(n)); // wrong
            }
            Some("Annot") => {
                out.push(Call::GetAnnot(n));
                out.push(Call::GetFont(n));
            }
            _ => {
                out.push(Call::GetFont(n));
                out.push(Call::GetPagesNode(n));
            }
        }
    } else {
        out.push(Call::GetDictionary(n)); // wrong
    }
    out
}

fn permutations(n: usize) -> Vec<Vec<usize>> {
    fn rec(cur: &mut Vec<usize>, used: &mut Vec<bool>, n: usize, out: &mut Vec<Vec<usize>>) {
        if cur.len() == n {
            out.push(cur.clone());
            return;
        }
        for i in 0..n {
            if !used[i] {
                used[i] = true;
                cur.push(i);
                rec(cur, used, n, out);
                cur.pop();
                used[i] = false;
            }
        }
    }
    let mut out = Vec::new();
    rec(&mut Vec::new(), &mut vec![false; n], n, &mut out);
    out
}

pub fn replay(_ctx: &Ctx, _check: &str, art: &serde_json::Value, info: &mut CaseInfo) -> Result<(), Failure> {
    let r: Rendered = serde_json::from_value(art.clone()).map_err(|e| Failure::new("harness-bad-artifact", e.to_string(), art.clone()))?;
    info.nontrivial(true);
    check_rendered(&r)
}

struct Doc {
    name: String,
    data: Vec<u8>,
    pw: Vec<u8>,
    objects: Vec<(u64, Vec<Call>)>,
    pages: u32,
}

fn survey(name: &str, data: Vec<u8>, pw: Vec<u8>, max_objects: usize, skip_encrypted_xref: bool, excluded: &mut u64) -> Option<Doc> {
    let file = FileOptions::uncached().password(&pw).load(data.clone()).ok()?;
    let size = (file.trailer.size.max(0) as u64).min(400);
    let pages = file.num_pages().min(6);
    drop(file);
    let mut objects = Vec::new();
    // prefer streams / images / fonts / pages
    let mut scored: Vec<(i32, u64, Vec<Call>)> = Vec::new();
    for n in 1..size {
        let calls = applicable(&data, &pw, n);
        if calls.len() < 3 {
            continue;
        }
        if skip_encrypted_xref && is_xref_stream_of_encrypted(&data, &pw, n) {
            *excluded += 1;
            continue;
        }
        let mut score = calls.iter().map(|c| match c { Call::RawImageData(_) => 10, Call::StreamData(_) => 4, Call::GetFont(_) => 1, Call::GetPagesNode(_) => 1, _ => 0 }).sum::<i32>();
        // streams whose dictionary holds a reference (indirect /Length, /DecodeParms, dangling entries) load
        // differently as different types: always take them
        if let Ok(f) = FileOptions::uncached().password(&pw).load(data.clone()) {
            if let Ok(Primitive::Stream(st)) = f.resolver().resolve(PlainRef { id: n, gen: 0 }) {
                if st.info.iter().any(|(_, v)| matches!(v, Primitive::Reference(_))) {
                    score += 20;
                }
            }
        }
        scored.push((score, n, calls));
    }
    scored.sort_by(|a, b| b.0.cmp(&a.0).then(a.1.cmp(&b.1)));
    // take the best ones but keep some variety: every third from the tail as well
    for (i, (_, n, calls)) in scored.iter().enumerate() {
        if objects.len() >= max_objects {
            break;
        }
        if i < max_objects * 2 / 3 || i % 7 == 0 {
            objects.push((*n, calls.clone()));
        }
    }
    Some(Doc { name: name.to_string(), data, pw, objects, pages })
}

pub fn run(ctx: &Ctx) {
    let per_file = ctx.tier.pick(4, 40) as usize;
    let mut docs: Vec<Doc> = Vec::new();
    let gate_open = ctx.known.is_open("C12", "gate:xref-stream-of-encrypted-file");
    let mut excluded = 0u64;
    // focused probe for the open finding: an encrypted file with a cross-reference stream
    {
        let spec = crate::engine::docgen::DocSpec {
            pages: vec![crate::engine::docgen::PageSpec { own_media: true, own_resources: false, rotate: 0, text: b"probe".to_vec(), use_font: 0, use_image: 0, use_form: false, annots: 0, content_chain: 0, two_content_parts: false }],
            fonts: vec![], images: vec![], xref_stream: true, objstm: false, incremental: 0, encrypt: 3, indirect_length: false, name_tree: false, outlines: 0, info: false, acroform: false, page_labels: false, nested_pages: false, tape: vec![], user_pw: vec![], body_muts: vec![],
        };
        let b = docgen::build(&spec);
        if let Ok(file) = FileOptions::uncached().password(&b.password).load(b.file.clone()) {
            let size = file.trailer.size.max(0) as u64;
            drop(file);
            for n in 1..size {
                if is_xref_stream_of_encrypted(&b.file, &b.password, n) {
                    ctx.run_one("probe-encrypted-xref-stream", "generated", |info| {
                        info.nontrivial(true);
                        check_rendered(&Rendered { name: "probe".into(), file: Bytes(b.file.clone()), password: Bytes(b.password.clone()), calls: vec![Call::StreamData(n), Call::Resolve(n)] })
                    });
                }
            }
        }
    }
    // references with a stale generation next to correct ones to the same object (the library ignores the generation)
    {
        use crate::engine::val::Val;
        use crate::engine::writer::Writer;
        let mut w = Writer::new(b"", "1.4");
        let page = |res_gen: u64| Val::dict(vec![("Type", Val::name("Page")), ("Parent", Val::Ref(2, 0)), ("MediaBox", Val::Array(vec![Val::Int(0), Val::Int(0), Val::Int(200), Val::Int(300)])), ("Resources", Val::Ref(8, res_gen))]);
        w.obj(1, 0, &Val::dict(vec![("Type", Val::name("Catalog")), ("Pages", Val::Ref(2, 0))]));
        w.obj(2, 0, &Val::dict(vec![("Type", Val::name("Pages")), ("Kids", Val::Array(vec![Val::Ref(3, 0), Val::Ref(4, 0), Val::Ref(5, 7)])), ("Count", Val::Int(3))]));
        w.obj(3, 0, &page(0));
        w.obj(4, 0, &page(1));
        w.obj(5, 0, &page(0));
        w.obj(8, 0, &Val::dict(vec![("Font", Val::dict(vec![("F1", Val::dict(vec![("Type", Val::name("Font")), ("Subtype", Val::name("Type1")), ("BaseFont", Val::name("Helvetica"))]))]))]));
        w.free(0, 0, 65535);
        w.xref_table(9, &[(Bytes::from("Root"), Val::Ref(1, 0))], false);
        let file = w.finish();
        for calls in [vec![Call::Page(0), Call::Page(1), Call::Page(2)], vec![Call::Page(1), Call::Page(0)], vec![Call::Page(2), Call::Page(1)], vec![Call::GetDictionary(8), Call::Page(1)]] {
            ctx.run_one("probe-stale-generation-references", "generated", |info| {
                info.nontrivial(true);
                check_rendered(&Rendered { name: "stale-generation".into(), file: Bytes(file.clone()), password: Bytes(vec![]), calls: calls.clone() })
            });
        }
    }
    // a later section gives the number of the first section's cross-reference stream to an ordinary stream
    {
        use crate::engine::val::Val;
        use crate::engine::writer::{FilterSpec, Writer};
        for (later_is_stream_xref, chain) in [(false, vec![FilterSpec::Flate { raw: false, level: 6 }]), (true, vec![]), (false, vec![FilterSpec::AsciiHex])] {
            let mut w = Writer::new(b"", "1.6");
            for (n, v) in crate::engine::writer::minimal_catalog(1, 2, 3, 1) {
                w.obj(n, 0, &v);
            }
            w.stream_obj(4, 0, &[], b"first revision stream");
            w.xref_stream(6, 7, &[(Bytes::from("Root"), Val::Ref(1, 0))], false, &[FilterSpec::Flate { raw: false, level: 6 }], false);
            let mut t = crate::engine::tape::Tape::new(&[]);
            let (enc, entries) = crate::engine::writer::encode_chain(b"HELLO, I am an ordinary stream now", &chain, &mut t);
            w.stream_obj(6, 0, &entries, &enc);
            if later_is_stream_xref {
                w.xref_stream(7, 8, &[(Bytes::from("Root"), Val::Ref(1, 0))], false, &[], false);
            } else {
                w.xref_table(7, &[(Bytes::from("Root"), Val::Ref(1, 0))], false);
            }
            let file = w.finish();
            ctx.run_one("probe-redefined-xref-stream-number", "generated", |info| {
                info.nontrivial(true);
                check_rendered(&Rendered { name: "redefined-xref-stream-number".into(), file: Bytes(file.clone()), password: Bytes(vec![]), calls: vec![Call::StreamData(6), Call::Resolve(6), Call::StreamData(4)] })?;
                check_rendered(&Rendered { name: "redefined-xref-stream-number".into(), file: Bytes(file.clone()), password: Bytes(vec![]), calls: vec![Call::Resolve(6), Call::StreamData(6)] })
            });
        }
    }
    for f in corpus::load(&ctx.verif_dir, false) {
        if ctx.tier == Tier::Quick && f.data.len() > 200_000 {
            continue;
        }
        if let Some(d) = survey(&f.name, f.data, f.password, per_file, gate_open, &mut excluded) {
            docs.push(d);
        }
    }
    // generated documents (images with filter chains such as [ASCII85, Flate], forms, fonts, encryption)
    let strat = docgen::spec_strategy();
    let ngen = ctx.tier.pick(24, 300);
    for k in 0..ngen {
        let spec = crate::engine::runner::nth_case(&strat, ctx.seed.wrapping_mul(77).wrapping_add(5), k);
        let b = docgen::build(&spec);
        if let Some(d) = survey(&format!("generated-{}", k), b.file, b.password, per_file, gate_open, &mut excluded) {
            docs.push(d);
        }
    }
    ctx.report.lock().unwrap().excluded.insert("xref-stream-of-encrypted-file".into(), excluded);
    if docs.len() < 10 {
        ctx.harness_error(format!("only {} documents surveyed", docs.len()));
        return;
    }
    // 1. exhaustive over the orderings of <= 5 distinct call kinds per object
    let mut jobs: Vec<(usize, usize, Vec<usize>)> = Vec::new();
    for (di, d) in docs.iter().enumerate() {
        for (oi, (_, calls)) in d.objects.iter().enumerate() {
            let k = calls.len().min(5);
            let perms = permutations(k);
            let stride = if ctx.tier == Tier::Quick && perms.len() > 24 { 5 } else { 1 };
            for (pi, p) in perms.into_iter().enumerate() {
                if pi % stride == 0 {
                    jobs.push((di, oi, p));
                }
            }
        }
    }
    ctx.run_enum(
        "orderings-of-call-kinds-per-object",
        jobs.len() as u64,
        |i| jobs[i as usize].clone(),
        |(di, oi, perm), info| {
            let d = &docs[*di];
            let (n, calls) = &d.objects[*oi];
            // choose 5 kinds: the first two (resolve, get<Primitive>) and the last three (most specific)
            let chosen: Vec<Call> = if calls.len() <= 5 { calls.clone() } else { calls[..2].iter().chain(calls[calls.len() - 3..].iter()).cloned().collect() };
            let seq: Vec<Call> = perm.iter().map(|k| chosen[*k].clone()).collect();
            for w in seq.windows(2) {
                info.label(format!("pair/{}->{}", w[0].kind(), w[1].kind()));
            }
            info.nontrivial(true);
            info.distinct((&d.name, n, perm));
            info.sample = Some(json!({"file": d.name, "object": n, "sequence": seq.iter().map(|c| c.kind()).collect::<Vec<_>>()}));
            check_rendered(&Rendered { name: d.name.clone(), file: Bytes(d.data.clone()), password: Bytes(d.pw.clone()), calls: seq })
        },
    );
    // 2. random sequences across several objects and pages
    let cases = ctx.tier.pick(1_500, 60_000);
    let ndocs = docs.len();
    ctx.run_cases(
        "random-sequences",
        cases,
        || (0usize..ndocs, proptest::collection::vec((any::<u16>(), any::<u16>()), 1..13)),
        |(di, picks), info| {
            let d = &docs[*di];
            let mut seq = Vec::new();
            for (a, b) in picks {
                if d.objects.is_empty() || (*a % 5 == 0 && d.pages > 0) {
                    seq.push(Call::Page((*b as u32) % (d.pages + 1)));
                } else {
                    // few objects, so that the same object is touched several times
                    let (_, calls) = &d.objects[gen::pick_index(*a, d.objects.len().min(3))];
                    seq.push(calls[gen::pick_index(*b, calls.len())].clone());
                }
            }
            let mut touched: std::collections::HashMap<Option<u64>, std::collections::HashSet<&'static str>> = Default::default();
            for c in &seq {
                touched.entry(c.object()).or_default().insert(c.kind());
            }
            info.nontrivial(touched.iter().any(|(o, k)| o.is_some() && k.len() >= 2));
            info.label(format!("file/{}", if d.name.starts_with("generated") { "generated" } else { d.name.as_str() }));
            info.distinct((&d.name, &seq));
            info.sample = Some(json!({"file": d.name, "sequence": format!("{:?}", seq)}));
            check_rendered(&Rendered { name: d.name.clone(), file: Bytes(d.data.clone()), password: Bytes(d.pw.clone()), calls: seq })
        },
    );
}

pub const RULE: &str = "cases = (file, sequence of read calls): corpus files and generated documents (images behind chains such as [ASCII85, Flate], forms, fonts, encryption); per surveyed object all orderings of up to 5 distinct call kinds (resolve, get as right and wrong types, Stream::data, raw_image_data, image_data) - every 5th ordering in quick, all 120 in thorough - plus random sequences of up to 12 calls across objects and page look-ups; oracle (metamorphic/differential) = the same sequence on documents opened with (object cache, stream cache) in {on,off}^2 gives call by call the same digest or the same root-cause error kind, and each call equals the same call issued alone on a fresh uncached document; non-trivial = the sequence touches one object with >= 2 call kinds; distinct by (file, sequence)";
