pub mod engine;
pub mod props;

#[global_allocator]
static GLOBAL: engine::alloc::Counting = engine::alloc::Counting;
