pub mod engine;
pub mod props;
