#![no_main]
//! C08 in-process: a content stream that parses is serialised and parsed again: same operations.
use libfuzzer_sys::fuzz_target;
use pdf::content::{parse_ops, serialize_ops};
use pdf::object::NoResolve;
use vh::props::c08::{describe, descs_equal};

fuzz_target!(|data: &[u8]| {
    if data.len() > 4096 {
        return;
    }
    let Ok(ops) = parse_ops(data, &NoResolve) else { return };
    if ops.is_empty() {
        return;
    }
    // numbers beyond the implementation limits (ISO 32000-1 Annex C: about 3.4e38) read as infinity: outside the domain
    let a0: Vec<_> = ops.iter().map(describe).collect();
    let mut finite = true;
    for d in &a0 {
        for v in &d.args {
            v.walk(&mut |x| {
                if let vh::engine::val::Val::Real(r) = x {
                    if !r.is_finite() || (*r as f32).is_infinite() {
                        finite = false;
                    }
                }
            });
        }
    }
    if !finite {
        return;
    }
    let Ok(text) = serialize_ops(&ops) else { return };
    match parse_ops(&text, &NoResolve) {
        Ok(ops2) => {
            let (a, b): (Vec<_>, Vec<_>) = (ops.iter().map(describe).collect(), ops2.iter().map(describe).collect());
            if a.len() != b.len() {
                eprintln!("{} operations became {} via {:?}", a.len(), b.len(), String::from_utf8_lossy(&text));
                std::process::abort();
            }
            if let Some(d) = descs_equal(&a, &b) {
                eprintln!("operations changed: {} via {:?}", d, String::from_utf8_lossy(&text));
                std::process::abort();
            }
        }
        Err(e) => {
            eprintln!("serialised operations {:?} do not parse: {:?}", String::from_utf8_lossy(&text), e);
            std::process::abort();
        }
    }
});
