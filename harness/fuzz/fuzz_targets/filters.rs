#![no_main]
//! C05 / C16 in-process: decoders never panic on arbitrary data; encoders are inverted by their decoders.
use libfuzzer_sys::fuzz_target;
use pdf::enc::{decode, encode, LZWFlateParams, StreamFilter};

fuzz_target!(|data: &[u8]| {
    if data.len() < 6 || data.len() > 20_000 {
        return;
    }
    let (h, body) = data.split_at(5);
    let params = LZWFlateParams {
        predictor: [1, 2, 10, 11, 12, 13, 14, 15][(h[1] & 7) as usize],
        n_components: 1 + (h[2] & 3) as i32,
        bits_per_component: [1, 2, 4, 8, 16][(h[2] >> 2) as usize % 5],
        columns: 1 + (h[3] as i32 % 40),
        early_change: (h[4] & 1) as i32,
    };
    let plain = LZWFlateParams { predictor: 1, n_components: 1, bits_per_component: 8, columns: 1, early_change: (h[4] & 1) as i32 };
    match h[0] % 8 {
        0 => {
            let _ = decode(body, &StreamFilter::ASCIIHexDecode);
        }
        1 => {
            let _ = decode(body, &StreamFilter::ASCII85Decode);
        }
        2 => {
            let _ = decode(body, &StreamFilter::RunLengthDecode);
        }
        3 => {
            let _ = decode(body, &StreamFilter::LZWDecode(params));
        }
        4 => {
            let _ = decode(body, &StreamFilter::FlateDecode(params));
        }
        k => {
            let f = match k {
                5 => StreamFilter::ASCIIHexDecode,
                6 => StreamFilter::ASCII85Decode,
                _ => StreamFilter::FlateDecode(plain),
            };
            if let Ok(enc) = encode(body, &f) {
                match decode(&enc, &f) {
                    Ok(d) if d == body => {}
                    other => {
                        eprintln!("encoder not inverted: filter {:?}, {} bytes in, decode gave {:?}", f, body.len(), other.map(|d| d.len()));
                        std::process::abort();
                    }
                }
            }
        }
    }
});
