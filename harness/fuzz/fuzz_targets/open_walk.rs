#![no_main]
//! C01 / C14 in-process: arbitrary bytes are loaded and walked in strict and tolerant mode; any panic
//! inside the library is a crash.  (Hangs and allocation are libFuzzer's -timeout / -rss_limit_mb.)
use libfuzzer_sys::fuzz_target;
use pdf::file::FileOptions;
use pdf::object::ParseOptions;
use vh::engine::walker::{walk_file, WalkOpts};

fuzz_target!(|data: &[u8]| {
    if data.len() > 200_000 {
        return;
    }
    for tolerant in [false, true] {
        let opts = if tolerant { ParseOptions::tolerant() } else { ParseOptions::strict() };
        if let Ok(file) = FileOptions::uncached().parse_options(opts).load(data.to_vec()) {
            let w = WalkOpts { max_objects: 400, max_pages: 8, max_items: 500, ..WalkOpts::default() };
            let t = walk_file(&file, &w);
            let p = t.panics();
            if let Some((call, key)) = p.first() {
                if !key.starts_with("harness-") {
                    eprintln!("library panic during {}: {}", call, key);
                    std::process::abort();
                }
            }
        }
    }
});
