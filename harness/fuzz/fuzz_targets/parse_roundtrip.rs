#![no_main]
//! C03 / C04 in-process: whatever parses as one object is serialised and parsed again: same value.
use libfuzzer_sys::fuzz_target;
use pdf::object::NoResolve;
use pdf::parser::{parse, ParseFlags};
use pdf::primitive::Primitive;
use vh::engine::val::{canon, from_primitive_nr};

fn has_stream_or_ref(p: &Primitive) -> bool {
    match p {
        Primitive::Stream(_) | Primitive::Reference(_) => true,
        Primitive::Array(a) => a.iter().any(has_stream_or_ref),
        Primitive::Dictionary(d) => d.iter().any(|(_, v)| has_stream_or_ref(v)),
        _ => false,
    }
}
fn has_nan(p: &Primitive) -> bool {
    match p {
        Primitive::Number(f) => !f.is_finite(),
        Primitive::Array(a) => a.iter().any(has_nan),
        Primitive::Dictionary(d) => d.iter().any(|(_, v)| has_nan(v)),
        _ => false,
    }
}

fuzz_target!(|data: &[u8]| {
    if data.len() > 4096 {
        return;
    }
    let Ok(p) = parse(data, &NoResolve, ParseFlags::ANY) else { return };
    if has_stream_or_ref(&p) || has_nan(&p) {
        return;
    }
    let mut out = Vec::new();
    if p.serialize(&mut out).is_err() {
        return;
    }
    match parse(&out, &NoResolve, ParseFlags::ANY) {
        Ok(q) => {
            let (a, b) = (canon(&from_primitive_nr(&p)), canon(&from_primitive_nr(&q)));
            if a != b {
                eprintln!("value changed by serialise+parse: {:?} -> {:?} via {:?}", a, b, String::from_utf8_lossy(&out));
                std::process::abort();
            }
        }
        Err(e) => {
            eprintln!("serialised form {:?} of {:?} does not parse: {:?}", String::from_utf8_lossy(&out), p, e);
            std::process::abort();
        }
    }
});
